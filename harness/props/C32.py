"""C32 — the remote job protocol (scratch files, `redun oneshot`, array index files, Batch job names and job
reuniting) reproduces local execution.  Model: lean/RedunModel/Model/RemoteProto.lean."""
import json
import logging
import os
import shutil
import sys
import tempfile
from unittest import mock

from core import sx, unsx

ID = "C32"
READY = True
LEAN_MODULES = ["RedunModel.Props.C32"]
LEAN_DRIVERS = ["C32"]
THEOREMS = [
    "RedunModel.C32.name_roundtrip",
    "RedunModel.C32.array_flag_roundtrip",
    "RedunModel.C32.parsed_hash_is_a_segment",
    "RedunModel.C32.unrelated_none",
    "RedunModel.C32.array_projection",
    "RedunModel.C32.array_projection_out_of_range",
    "RedunModel.C32.element_paths_distinct",
    "RedunModel.C32.job_paths_injective",
    "RedunModel.C32.eval_file_roundtrip",
    "RedunModel.C32.gather_sound",
    "RedunModel.C32.reunite_same_hash",
    "RedunModel.C32.element_records_in_own_files",
    "RedunModel.C32.own_files_are_not_spec_files",
    "RedunModel.C32.rerun_failure_leaves_no_output",
    "RedunModel.C32.reunited_is_inflight_same_hash",
    "RedunModel.C32.finished_namesake_not_reunited",
]
TRUSTED = [
    "modelled, not verified: Python re `.*-(?P<hash>[^-]+)` with re.match (greedy, `.` excludes newline), str.endswith, "
    "os.path.join (posix), '\\n'.join / str.splitlines on hex lines, dict assignment order, json round trip of path lists",
    "pickle (inputs, results, exceptions) and the task body run by `redun oneshot` are opaque to the model: they are "
    "exercised only by the correspondence (real pickle files, real RedunClient.execute in-process)",
    "AWS Batch itself is replaced by in-process fakes (get_jobs, get_array_child_jobs, aws_describe_jobs, batch_submit); "
    "its real behaviour (name character set, listing consistency) is outside the claim",
]
ASSUMPTIONS = [
    "eval hashes and array ids are non-empty lowercase hex strings (hash_struct digests, uuid4().hex)",
    "job-name prefixes contain no newline (AWS Batch allows letters, digits, '-' and '_' only); they may contain '-' "
    "and may end in '-array'",
    "array indices delivered by the platform are natural numbers (Python would wrap a negative index)",
    "task results and raised exceptions are picklable and compare by value; no pre-existing output file (a valid one is "
    "deliberately reused by oneshot unless --no-cache)",
]
RULE = ("(names) generated prefix/hash/array triples -> get_batch_job_name, get_hash_from_job_name, is_array_job_name vs model, "
        "plus unrelated and malformed names; (array) generated groups of 1-8 jobs of one task with generated arguments: "
        "write_array_job_scratch_files vs model file contents, then for every index the real get_oneshot_command + "
        "RedunClient.execute in-process under the platform's index variable, parse_job_result/parse_job_error compared with "
        "the local call (value/type, exception type/args) and the written scratch path compared with the model's projection; "
        "out-of-range index; stale error files; (single) the same for per-job input files incl. --no-cache; (pretask) arrays whose elements are run in shuffled order as the real "
        "oneshot --array-job entry point (each as a fresh worker: script re-imported) where some elements fail before the task is "
        "called (script import error on that worker, corrupt code package at that moment, unknown task name): the failure must "
        "be recorded in that element's own error file, the four shared spec files must be byte-identical before and after every "
        "element, every other element must still equal the local call, and the written file is compared with model oneshotOps; "
        "(history) the same job run twice through oneshot (single "
        "and array): the first run leaves an output holding a File, then the File is or is not changed and the task does or does "
        "not raise; after the second run the result must equal the local call (or the still valid earlier output), a failed "
        "re-run must leave an error file and NO output file, docker.iter_job_status (docker CLI stubbed) and "
        "AWSBatchExecutor._can_override_failed must infer the local outcome, and file presence is compared with model "
        "oneshotRerunOps; (gather) generated "
        "in-flight job lists (single, array with/without eval file, unrelated, duplicates, out-of-range child index) on a "
        "real AWSBatchExecutor with faked Batch listing: preexisting_batch_jobs vs model, then _submit's reunite branch: "
        "pending_batch_jobs vs model and vs the ground truth of which eval hash each Batch job was created for; (queue) the same "
        "executor over an in-memory Batch client (list_jobs honouring jobQueue/jobStatus/arrayJobId, describe_jobs retaining "
        "finished jobs) holding generated jobs and array children in every status SUBMITTED..FAILED, in this and another queue, "
        "under this and other name prefixes, always incl. finished namesakes of the jobs then submitted: the table gathered by "
        "the first _submit vs model gatherQueue, and every attachment must be to an in-flight job of this queue/prefix created "
        "for the same eval hash, everything else must reach the arrayer. "
        "distinct = distinct payloads; trivial = none")
LEVEL_TEXT = ("Proved in Lean (full strength, every prefix/hash/list/index): get_hash_from_job_name(get_batch_job_name(p,h,a)) = h "
              "and is_array_job_name = a for every newline-free prefix (also with '-' inside or ending in '-array') and every "
              "hex h (name_roundtrip, array_flag_roundtrip); a parsed hash is always a '-'-free segment following a '-' and "
              "names without such a segment give None (parsed_hash_is_a_segment, unrelated_none); array element i of "
              "write_array_job_scratch_files reads the i-th args/kwargs and writes exactly the output/error path that "
              "parse_job_result/parse_job_error read for job i, an index outside the array raises (array_projection, "
              "array_projection_out_of_range); paths of different eval hashes and output vs error are pairwise distinct "
              "(job_paths_injective, element_paths_distinct); whatever the point at which an element fails (code package, script import, "
              "task lookup, task body) it only touches job i's own error/output file, records the failure in its own error file, "
              "and those files are never a shared spec file (element_records_in_own_files, own_files_are_not_spec_files); a re-run under the default cache scope whose earlier output is "
              "missing or invalid and whose task raises leaves no output file and an error file (rerun_failure_leaves_no_output); the eval-hash file round trips (eval_file_roundtrip); every "
              "binding gather_inflight_jobs produces, and therefore every job _submit reunites with, is a Batch job whose "
              "name (single) or eval-hash file line at its array index (array child) carries that very eval hash "
              "(gather_sound, reunite_same_hash); against a queue that still lists finished jobs, a job is attached only to a job or array "
              "child that is in flight, in the executor's queue and under its name prefix, and a job whose only namesakes are "
              "finished is submitted afresh (reunited_is_inflight_same_hash, finished_namesake_not_reunited). Tied to /repo by running the real scratch/oneshot/executor code in-process.")
LEVEL_NOTE = ("partial: equality of remote and local results (pickle round trip, the oneshot entry point, exception "
              "serialisation) is runtime behaviour and is covered by the correspondence only; no cloud service is involved "
              "(AWS Batch calls are faked); K8S/GCP executors use the same scratch and index functions but their own naming, "
              "which is not modelled.")
TECHNIQUE = "Lean 4 proof over an executable model + in-process correspondence with the real scratch/oneshot/executor code"

TASKS_SRC = '''
from redun import task


class CustomError(Exception):
    pass


class Point:
    def __init__(self, x, y):
        self.x, self.y = x, y

    def __eq__(self, other):
        return type(other) is Point and (self.x, self.y) == (other.x, other.y)

    def __repr__(self):
        return "Point(%r, %r)" % (self.x, self.y)


@task()
def add(x, y=1):
    return x + y


@task()
def idiv(x, y):
    return x // y


@task()
def concat(*parts, sep=","):
    return sep.join(parts)


@task()
def pick(d, key, default=None):
    return d[key]


@task()
def boom(kind, msg):
    raise {"v": ValueError, "c": CustomError, "k": KeyError, "t": TypeError, "r": RuntimeError}[kind](msg, kind)


@task()
def echo(*args, **kwargs):
    return [list(args), kwargs]


@task()
def point(x, y=0):
    return {"p": Point(x, y), "t": (x, [y, None]), "b": b"\\x00" + bytes([x % 256])}


@task()
def maybe(x):
    if x % 3 == 0:
        raise CustomError("multiple of three: %d" % x)
    return x * x
'''


class Batch:
    """Collect model requests while the real code runs; one driver process answers them all at the end."""

    def __init__(self):
        self.reqs, self.fns = [], []

    def add(self, req, fn):
        self.reqs.append(req)
        self.fns.append(fn)

    def flush(self, ctx):
        for fn, mo in zip(self.fns, ctx.model("C32", self.reqs)):
            fn(mo)
        self.reqs, self.fns = [], []


# ------------------------------------------------------------------ names
HEX = "0123456789abcdef"


def gen_hex(rng, n=None):
    n = n if n is not None else rng.choice([40, 40, 32, 32, 8, 1, 2, 5, 6])
    return "".join(rng.choice(HEX) for _ in range(n))


def gen_prefix(rng):
    k = rng.random()
    if k < 0.3:
        return rng.choice(["redun-job", "batch-job", "redun", "a", "my_prefix", "x-y-z", "job-array", "-array", "array", "a-array",
                           "redun-job-array", "a--b", "-", "--", "", "a-", "-a", "liveratlas_spearmancor_preprocess", "é-x", "A-B_c"])
    parts = [rng.choice(["redun", "job", "array", "a", "b", "", "x_y", "dead", "beef", "0", "array-array", "ARRAY"])
             for _ in range(rng.randrange(1, 5))]
    return "-".join(parts)


def gen_unrelated(rng):
    return rng.choice(["headnode", "liveratlas_automation_headnode", "", "-", "--", "a-", "-array", "array", "x-array", "a--array",
                       "redun-job-", "redun-job--array", "a-b-", "a-b--", "-a", "a-\nb", "a\n-b", "a-b\n-c", "a-b-array\n", "a-é",
                       "zzz-array-array", "redun-job-zz-top", "a-b-arra", "a-b-arrayx", "-array-array"])


def check_names(ctx, n):
    from redun.executors.aws_batch import get_batch_job_name, get_hash_from_job_name, is_array_job_name
    rng = ctx.rng
    trip, names = [], []
    for _ in range(n):
        h = gen_hex(rng) if rng.random() < 0.85 else rng.choice(["", "array", "a-b", "xyz", "-", "DEADBEEF", "12-34", "g"])
        trip.append((gen_prefix(rng), h, rng.random() < 0.5))
    reqs = ["name %s %s %s" % (sx(p), sx(h), "T" if a else "F") for p, h, a in trip]
    out = ctx.model("C32", reqs)
    for (p, h, a), mo in zip(trip, out):
        name = get_batch_job_name(p, h, array=a)
        if unsx(mo)[0] != name:
            ctx.mismatch("get_batch_job_name differs from model jobName", case={"kind": "name", "prefix": p, "hash": h, "array": a},
                         model=unsx(mo)[0], impl=name)
        names.append((name, (p, h, a)))
    for _ in range(n // 3):
        u = gen_unrelated(rng)
        if rng.random() < 0.4:
            u = gen_prefix(rng) + rng.choice(["", "-", "-array", "--array", "-" + gen_hex(rng, 4) + "-"]) + rng.choice(["", "-array", "x"])
        names.append((u, None))
    out = ctx.model("C32", ["parse " + sx(nm) for nm, _ in names])
    for (name, origin), mo in zip(names, out):
        got_h, got_a = get_hash_from_job_name(name), is_array_job_name(name)
        m = unsx(mo)[0]
        m_h = None if str(m[0]) == "none" else m[0]
        ctx.case(key=("name", name), sample={"name": name, "hash": got_h, "array": got_a}, kind="name",
                 origin="generated" if origin else "unrelated", parsed="none" if got_h is None else "hash", array=got_a)
        case = {"kind": "parse", "name": name, "origin": origin}
        if m_h != got_h or m[1] != got_a:
            ctx.mismatch("get_hash_from_job_name / is_array_job_name differ from model", case=case, model=[m_h, m[1]], impl=[got_h, got_a])
        # ---- oracle: round trip for every hex hash and newline-free prefix
        if origin:
            p, h, a = origin
            if h and all(c in HEX for c in h) and "\n" not in p:
                if got_h != h or got_a != a:
                    ctx.violation("C32-job-name-roundtrip", "hash / array flag parsed back from a job name differ from what the name was built from",
                                  case=case, expected=[h, a], actual=[got_h, got_a])


# ------------------------------------------------------------------ array / single protocol
def gen_call(rng, tname):
    ints = [0, 1, 2, 3, -1, 7, 10 ** 12, 255]
    if tname == "add":
        return rng.choice([((rng.choice(ints),), {}), ((rng.choice(ints),), {"y": rng.choice(ints)}), (("a",), {"y": "b"}),
                           ((1,), {"y": "s"}), ((), {"x": 2}), (([1],), {"y": [2, "é"]}), ((1, 2, 3), {})])
    if tname == "idiv":
        return ((rng.choice(ints), rng.choice([0, 1, 2, 3])), {})
    if tname == "concat":
        return (tuple(rng.choice(["a", "", "é", "x y", "\n"]) for _ in range(rng.randrange(0, 4))),
                rng.choice([{}, {"sep": "-"}, {"sep": 1}]))
    if tname == "pick":
        return (({"a": 1, "b": [2, {"c": None}]}, rng.choice(["a", "b", "zz", 3])), rng.choice([{}, {"default": 0}]))
    if tname == "boom":
        return ((rng.choice("vcktr"), rng.choice(["m", "", "é msg", "with 'quote'"])), {})
    if tname == "echo":
        return (tuple(rng.choice([1, "s", None, (1, 2), {"k": [1]}, b"\xff"]) for _ in range(rng.randrange(0, 3))),
                {k: rng.choice([1, "v", [1, 2]]) for k in rng.sample(["a", "b", "c"], rng.randrange(0, 3))})
    if tname == "point":
        return ((rng.choice(ints),), rng.choice([{}, {"y": 5}]))
    return ((rng.randrange(0, 12),), {})


def local_outcome(task, args, kwargs):
    try:
        return ("ok", task.func(*args, **kwargs))
    except Exception as e:  # noqa: BLE001
        return ("err", e)


def same_outcome(a, b):
    if a[0] != b[0]:
        return False
    if a[0] == "ok":
        return type(a[1]) is type(b[1]) and a[1] == b[1]
    if a[0] != "err":
        return False
    return type(a[1]) is type(b[1]) and a[1].args == b[1].args


def show(o):
    return "%s:%s:%r" % (o[0], type(o[1]).__name__, o[1])


def snapshot(root):
    out = {}
    for d, _, fs in os.walk(root):
        for f in fs:
            p = os.path.join(d, f)
            out[p] = os.stat(p).st_mtime_ns, os.path.getsize(p)
    return out


ARRAY_VARS = ["AWS_BATCH_JOB_ARRAY_INDEX", "JOB_COMPLETION_INDEX", "BATCH_TASK_INDEX"]


def run_oneshot(client, cmd):
    """One `redun oneshot` process, in-process: import paths added by the run are undone afterwards (a real
    worker is a fresh process; redun's add_import_path does not deduplicate)."""
    from redun.utils import clear_import_paths
    saved = list(sys.path)
    try:
        return client.execute(list(cmd))
    finally:
        sys.path[:] = saved
        clear_import_paths()


def remote_outcome(client, cmd, scratch, job):
    """Run the oneshot command in-process, then read the result the way an executor's monitor does."""
    from redun.executors.scratch import parse_job_error, parse_job_result
    raised = None
    try:
        run_oneshot(client, cmd)
    except BaseException as e:  # noqa: BLE001
        raised = e
    # AWSBatchExecutor._process_job_status: SUCCEEDED (process exit 0) -> parse_job_result, FAILED -> parse_job_error
    if raised is None:
        result, exists = parse_job_result(scratch, job)
        return (("ok", result) if exists else ("missing-output", None)), raised
    err, _tb = parse_job_error(scratch, job)
    return ("err", err), raised


def make_job(T, tname, call, eval_hash, options=None):
    from redun.scheduler import Job
    task = getattr(T, tname)
    if options:
        task = task.options(**options)
    job = Job(task, task(*call[0], **call[1]))
    job.eval_hash = eval_hash
    job.args = call
    return job


def check_arrays(ctx, T, n_groups, tmp):
    from redun.cli import RedunClient
    from redun.executors.command import get_oneshot_command
    from redun.executors.scratch import (SCRATCH_ERROR, SCRATCH_OUTPUT, get_job_scratch_file, write_array_job_scratch_files)
    rng = ctx.rng
    client = RedunClient()
    batch = Batch()
    tnames = ["add", "idiv", "concat", "pick", "boom", "echo", "point", "maybe"]
    for g in range(n_groups):
        scratch = os.path.join(tmp, "arr%d" % g, rng.choice(["s", "s/", "scratch dir", "a/b/"]))
        tname = rng.choice(tnames)
        n = rng.choice([1, 2, 2, 3, 4, 5, 8])
        stem = gen_hex(rng, 38)
        hashes = []
        while len(hashes) < n:
            h = gen_hex(rng, 40) if rng.random() < 0.5 else stem + gen_hex(rng, 2)
            if h not in hashes:
                hashes.append(h)
        calls = [gen_call(rng, tname) for _ in range(n)]
        jobs = [make_job(T, tname, c, h) for c, h in zip(calls, hashes)]
        array_id = gen_hex(rng, 32)
        files = write_array_job_scratch_files(jobs, scratch, array_id)
        impl = [files.input_file, files.output_file, files.error_file, files.eval_file,
                json.load(open(files.output_file)), json.load(open(files.error_file)), open(files.eval_file).read()]
        case = {"kind": "array", "scratch": scratch, "task": tname, "hashes": hashes, "calls": repr(calls)}

        def cmp_files(mo, impl=impl, case=case):
            m = unsx(mo)[0]
            if [list(x) if isinstance(x, list) else x for x in m] != impl:
                ctx.mismatch("write_array_job_scratch_files: paths / file contents differ from model writeArrayFiles", case=case, model=m, impl=impl)
        batch.add("array %s %s %s" % (sx(scratch), sx(array_id), sx(hashes)), cmp_files)
        eval_lines = open(files.eval_file).read().splitlines()
        if eval_lines != hashes:
            ctx.violation("C32-eval-hash-file", "eval_hashes file does not list the jobs' eval hashes in order", case=case, expected=hashes, actual=eval_lines)
        stale = [i for i in range(n) if rng.random() < 0.3]
        for i in stale:     # a stale error file from an earlier attempt must not survive a successful run
            p = get_job_scratch_file(scratch, jobs[i], SCRATCH_ERROR)
            os.makedirs(os.path.dirname(p), exist_ok=True)
            with open(p, "wb") as f:
                f.write(b"stale")
        var = rng.choice(ARRAY_VARS)
        order = list(range(n))
        rng.shuffle(order)
        for i in order + [n]:
            ereq = "elem %s %s i%d" % (sx(scratch), sx(hashes), i)
            cmd = get_oneshot_command(scratch, jobs[min(i, n - 1)], getattr(T, tname), array_uuid=array_id)
            before = snapshot(scratch)
            with mock.patch.dict(os.environ, {var: str(i)}):
                for v in ARRAY_VARS:
                    if v != var:
                        os.environ.pop(v, None)
                if i == n:
                    try:
                        run_oneshot(client, cmd)
                        got = "no error"
                    except IndexError:
                        got = "!IndexError"
                    except BaseException as e:  # noqa: BLE001
                        got = "!" + type(e).__name__
                    ctx.case(key=("elem-oob", g), kind="array-element", outcome="index-out-of-range", task=tname, size=n)

                    def cmp_oob(mo, got=got, case=dict(case, index=i)):
                        if mo != got:
                            ctx.mismatch("array index outside the array: model and oneshot disagree", case=case, model=mo, impl=got)
                    batch.add(ereq, cmp_oob)
                    continue
                remote, raised = remote_outcome(client, cmd, scratch, jobs[i])
            local = local_outcome(getattr(T, tname), *calls[i])
            after = snapshot(scratch)
            changed = sorted(p for p in after if before.get(p) != after[p])
            removed = sorted(p for p in before if p not in after)
            ctx.case(key=("elem", scratch, tname, repr(calls[i]), i), sample={"task": tname, "call": repr(calls[i])[:80], "index": i, "size": n,
                                                                              "local": show(local)[:80]},
                     kind="array-element", outcome=local[0] + ":" + type(local[1]).__name__, task=tname, size=n, index_var=var)
            ecase = dict(case, index=i, var=var)
            want_path = get_job_scratch_file(scratch, jobs[i], SCRATCH_OUTPUT if local[0] == "ok" else SCRATCH_ERROR)

            def cmp_elem(mo, i=i, ok=(local[0] == "ok"), want_path=want_path, changed=changed, ecase=ecase):
                m = unsx(mo)[0] if not mo.startswith("!") else [None, None, mo, mo]
                m_path = m[2] if ok else m[3]
                if m[0] != i or m[1] != i or m_path != want_path or changed != [want_path]:
                    ctx.mismatch("array element: files written by oneshot differ from the model's projection", case=ecase,
                                 model={"args_of_job": m[0], "kwargs_of_job": m[1], "path": m_path}, impl={"changed": changed, "expected_path": want_path})
            batch.add(ereq, cmp_elem)
            if not same_outcome(local, remote):
                ctx.violation("C32-array-element-result", "array element run through the scratch protocol differs from the local call",
                              case=ecase, expected=show(local), actual=show(remote))
            if changed != [want_path]:
                ctx.violation("C32-array-element-files", "array element did not write exactly its own output/error scratch file",
                              case=ecase, expected=[want_path], actual=changed)
            if local[0] == "ok" and i in stale and get_job_scratch_file(scratch, jobs[i], SCRATCH_ERROR) not in removed:
                ctx.violation("C32-stale-error-file", "stale error file survives a successful run", case=ecase, expected="removed", actual="present")
            if (raised is None) != (local[0] == "ok"):
                ctx.violation("C32-oneshot-exit", "oneshot raised/returned inconsistently with the task outcome", case=ecase,
                              expected=local[0], actual=repr(raised))
        shutil.rmtree(os.path.join(tmp, "arr%d" % g), ignore_errors=True)
    batch.flush(ctx)


def check_singles(ctx, T, n, tmp):
    from redun.cli import RedunClient
    from redun.executors.command import get_oneshot_command
    from redun.executors.scratch import SCRATCH_ERROR, SCRATCH_OUTPUT, get_job_scratch_file
    rng = ctx.rng
    client = RedunClient()
    scratch = os.path.join(tmp, "single", "s")
    for k in range(n):
        tname = rng.choice(["add", "idiv", "concat", "pick", "boom", "echo", "point", "maybe"])
        call = gen_call(rng, tname)
        h = gen_hex(rng, 40)
        opts = rng.choice([{}, {}, {"cache_scope": "NONE"}, {"cache_scope": "CSE"}])
        job = make_job(T, tname, call, h)
        stale_err = rng.random() < 0.3
        stale_out = bool(opts) and rng.random() < 0.5
        if stale_err:
            p = get_job_scratch_file(scratch, job, SCRATCH_ERROR)
            os.makedirs(os.path.dirname(p), exist_ok=True)
            open(p, "wb").write(b"stale")
        if stale_out:       # with --no-cache an old output must not be reported
            import pickle
            p = get_job_scratch_file(scratch, job, SCRATCH_OUTPUT)
            os.makedirs(os.path.dirname(p), exist_ok=True)
            pickle.dump("stale result", open(p, "wb"))
        cmd = get_oneshot_command(scratch, job, getattr(T, tname), call[0], call[1], job_options=opts)
        remote, raised = remote_outcome(client, cmd, scratch, job)
        local = local_outcome(getattr(T, tname), *call)
        case = {"kind": "single", "task": tname, "call": repr(call), "options": opts, "stale_error": stale_err, "stale_output": stale_out}
        ctx.case(key=("single", tname, repr(call), repr(opts)), kind="single-job", outcome=local[0] + ":" + type(local[1]).__name__, task=tname,
                 no_cache=bool(opts))
        if ("--no-cache" in cmd) != bool(opts):
            ctx.violation("C32-no-cache-flag", "--no-cache not passed exactly when the cache scope is not BACKEND", case=case,
                          expected=bool(opts), actual=cmd)
        if not same_outcome(local, remote):
            ctx.violation("C32-single-job-result", "job run through the scratch protocol differs from the local call", case=case,
                          expected=show(local), actual=show(remote))
        if local[0] == "ok" and os.path.exists(get_job_scratch_file(scratch, job, SCRATCH_ERROR)):
            ctx.violation("C32-stale-error-file", "stale error file survives a successful run", case=case, expected="removed", actual="present")
    shutil.rmtree(os.path.join(tmp, "single"), ignore_errors=True)


# ------------------------------------------------------------------ gather / reunite
def gen_world(rng, wid):
    """In-flight Batch jobs + ground truth: batch job id -> eval hash it was created for."""
    from redun.executors.aws_batch import get_batch_job_name
    jobs, truth, evalfiles = [], {}, {}
    pool = [gen_hex(rng, 40) for _ in range(6)]
    n = rng.choice([0, 1, 2, 3, 4, 6])
    for k in range(n):
        kind = rng.random()
        prefix = rng.choice(["redun-job", "redun-job", "redun-job-array", "redun-job-x_y", "redun-job--a"])
        if kind < 0.4:
            h = rng.choice(pool)
            jid = "w%d-single-%d" % (wid, k)
            jobs.append({"jobId": jid, "jobName": get_batch_job_name(prefix, h), "children": []})
            truth[jid] = h
        elif kind < 0.8:
            uid = gen_hex(rng, 32)
            m = rng.choice([1, 2, 3, 5])
            hashes = [rng.choice(pool) if rng.random() < 0.4 else gen_hex(rng, 40) for _ in range(m)]
            jid = "w%d-array-%d" % (wid, k)
            idxs = [i for i in range(m) if rng.random() < 0.8]       # only some children are still in flight
            rng.shuffle(idxs)
            if rng.random() < 0.06:
                idxs.append(m + rng.randrange(0, 2))                    # inconsistent listing: index beyond the file
            has_file = rng.random() < 0.85
            children = [{"jobId": "%s:%d" % (jid, i), "arrayProperties": {"index": i}} for i in idxs]
            jobs.append({"jobId": jid, "jobName": get_batch_job_name(prefix, uid, array=True), "children": children})
            if has_file:
                evalfiles[uid] = hashes
                for i in idxs:
                    if i < m:
                        truth["%s:%d" % (jid, i)] = hashes[i]
        else:
            jid = "w%d-other-%d" % (wid, k)
            jobs.append({"jobId": jid, "jobName": gen_unrelated(rng).replace("\n", "") if rng.random() < 0.7 else
                         "redun-job_headnode", "children": []})
    return jobs, truth, evalfiles, pool


def check_gather(ctx, T, n_worlds, tmp):
    from redun.config import Config
    from redun.executors.aws_batch import AWSBatchExecutor
    from redun.executors.scratch import SCRATCH_HASHES, get_array_scratch_file
    from redun.file import File
    rng = ctx.rng
    batch = Batch()
    for w in range(n_worlds):
        scratch = os.path.join(tmp, "gather%d" % w)
        jobs, truth, evalfiles, pool = gen_world(rng, w)
        for uid, hashes in evalfiles.items():
            f = File(get_array_scratch_file(scratch, uid, SCRATCH_HASHES))
            with f.open("w") as out:
                out.write("\n".join(hashes))            # exactly what write_array_job_scratch_files writes (checked in check_arrays)
        config = Config({"batch": {"image": "img", "queue": "q", "s3_scratch": scratch, "job_name_prefix": "redun-job",
                                   "code_package": False, "aws_region": "us-west-2"}})
        ex = AWSBatchExecutor("batch", None, config["batch"])
        ex.get_jobs = mock.Mock(return_value=[{"jobId": j["jobId"], "jobName": j["jobName"]} for j in jobs])
        by_id = {j["jobId"]: j["children"] for j in jobs}
        ex.get_array_child_jobs = mock.Mock(side_effect=lambda job_id, statuses=None: list(by_id[job_id]))
        try:
            ex.gather_inflight_jobs()
            impl = dict(ex.preexisting_batch_jobs)
        except IndexError:
            impl = "!IndexError"
        req = "gather %s %s" % (
            sx([[j["jobName"], j["jobId"], [[c["jobId"], c["arrayProperties"]["index"]] for c in j["children"]]] for j in jobs]),
            sx([[uid, hs] for uid, hs in evalfiles.items()]))
        case = {"kind": "gather", "jobs": jobs, "eval_files": evalfiles}
        ctx.case(key=("gather", req), sample={"jobs": [j["jobName"] for j in jobs][:4]}, kind="gather", n_jobs=len(jobs),
                 outcome="IndexError" if impl == "!IndexError" else "bindings=%d" % min(len(impl), 6))

        def cmp_gather(mo, impl=impl, case=case):
            m = mo if mo.startswith("!") else {k: v for k, v in unsx(mo)[0]}
            if m != impl:
                ctx.mismatch("gather_inflight_jobs: preexisting_batch_jobs differs from model gather", case=case, model=m, impl=impl)
        batch.add(req, cmp_gather)
        if impl == "!IndexError":
            continue
        # ---- oracle: a binding hash -> batch job only for a job created for that hash
        for h, jid in impl.items():
            if len(h) == 40 and all(c in HEX for c in h) and truth.get(jid) != h:       # keys that can be an eval hash
                ctx.violation("C32-reunite-wrong-hash", "gather_inflight_jobs binds an eval hash to a Batch job created for another hash",
                              case=case, expected={jid: truth.get(jid)}, actual={jid: h})
        # ---- reunite branch of _submit on the real executor
        ex.is_running = True
        ex._scheduler = mock.Mock()
        ex.arrayer.add_job = mock.Mock()
        ex._start = mock.Mock()
        bound = [k for k in sorted(impl) if len(k) == 40]
        for h in rng.sample(pool, 2) + rng.sample(bound, min(2, len(bound))) + [gen_hex(rng, 40)]:
            scope = rng.choice(["BACKEND", "BACKEND", "BACKEND", "CSE", "NONE"])
            alive = rng.random() < 0.8
            job = make_job(T, "add", ((1,), {}), h, options=None if scope == "BACKEND" else {"cache_scope": scope})
            pre_before = dict(ex.preexisting_batch_jobs)
            alive_ids = sorted(set(pre_before.values())) if alive else []
            with mock.patch("redun.executors.aws_batch.aws_describe_jobs",
                            side_effect=lambda ids, aws_region=None: iter([{"jobId": i} for i in ids if i in alive_ids])):
                ex._submit(job)
            attached = [jid for jid, jb in ex.pending_batch_jobs.items() if jb is job]
            req = "reunite %s %s %s %s" % (sx([[k, v] for k, v in pre_before.items()]), "T" if scope == "BACKEND" else "F", sx(h), sx(alive_ids))
            rcase = dict(case, eval_hash=h, cache_scope=scope, alive=alive)
            ctx.case(key=("reunite", req), kind="reunite", outcome="attached" if attached else "submitted", scope=scope, alive=alive)

            def cmp_reunite(mo, attached=attached, pre_after=dict(ex.preexisting_batch_jobs), rcase=rcase):
                mo = unsx(mo)[0]
                m_id = None if str(mo[0]) == "none" else mo[0]
                m_pre = {k: v for k, v in mo[1]}
                if [m_id] != (attached or [None]) or m_pre != pre_after:
                    ctx.mismatch("_submit reunite branch differs from model reunite", case=rcase, model=[m_id, m_pre], impl=[attached, pre_after])
            batch.add(req, cmp_reunite)
            for jid in attached:
                if truth.get(jid) != h:
                    ctx.violation("C32-reunite-wrong-hash", "_submit attached a job to a Batch job created for another eval hash", case=rcase,
                                  expected=truth.get(jid), actual=h)
            if attached and scope != "BACKEND":
                ctx.violation("C32-reunite-ignores-cache-scope", "job with cache scope %s was reunited" % scope, case=rcase,
                              expected="new submission", actual=attached)
            if (not attached) != (ex.arrayer.add_job.call_args_list[-1:] == [mock.call(job)]):
                ctx.violation("C32-reunite-or-submit", "job neither reunited nor handed to the arrayer exactly once", case=rcase,
                              expected="exactly one of them", actual={"attached": attached})
        shutil.rmtree(scratch, ignore_errors=True)
    batch.flush(ctx)


# ------------------------------------------------------------------ array elements that fail before the task is called
FLAKY_SRC = """
import os

if os.environ.get("VERIF_C32_IMPORT_FAIL") == "1":      # this worker lacks a dependency of the workflow script
    import verif_c32_missing_dependency  # noqa: F401

from redun import task


@task()
def inv(x, y=1):
    return (x * 10) // y
"""


def check_pretask(ctx, n_arrays, tmp, moddir):
    """Arrays whose elements are run one after the other as `redun oneshot --array-job`; some elements fail before the
    task is called (script import error on that worker, corrupt code package at that moment, unknown task)."""
    import tarfile

    from redun.cli import RedunClient
    from redun.executors.command import get_oneshot_command
    from redun.executors.scratch import (SCRATCH_ERROR, SCRATCH_OUTPUT, get_job_scratch_file, parse_job_error, parse_job_result,
                                         write_array_job_scratch_files)
    from redun.file import File
    rng = ctx.rng
    modname = "verif_c32_flaky"
    with open(os.path.join(moddir, modname + ".py"), "w") as f:
        f.write(FLAKY_SRC)
    sys.modules.pop(modname, None)
    F = __import__(modname)
    client = RedunClient()
    batch = Batch()
    corpus = [dict(n=4, kinds=["import", "none", "none", "none"], order=[0, 1, 2, 3], code=False, lookup=False),
              dict(n=3, kinds=["none", "code", "none"], order=[1, 0, 2], code=True, lookup=False),
              dict(n=2, kinds=["none", "none"], order=[0, 1], code=False, lookup=True)]
    for g in range(n_arrays):
        if g < len(corpus):
            spec = corpus[g]
        else:
            n = rng.choice([2, 3, 4, 5])
            code = rng.random() < 0.5
            kinds = [rng.choice(["none", "none", "none", "import", "code" if code else "import"]) for _ in range(n)]
            order = list(range(n))
            rng.shuffle(order)
            spec = dict(n=n, kinds=kinds, order=order, code=code, lookup=rng.random() < 0.12)
        n = spec["n"]
        scratch = os.path.join(tmp, "pre%d" % g, rng.choice(["s", "s/", "scratch dir"]))
        hashes = []
        while len(hashes) < n:
            h = gen_hex(rng, 40)
            if h not in hashes:
                hashes.append(h)
        calls = [((rng.choice([0, 1, 3, 7]),), rng.choice([{}, {"y": 2}, {"y": 0}, {"y": 3}])) for _ in range(n)]
        from redun.scheduler import Job
        jobs = []
        for c, h in zip(calls, hashes):
            j = Job(F.inv, F.inv(*c[0], **c[1]))
            j.eval_hash, j.args = h, c
            jobs.append(j)
        array_id = gen_hex(rng, 32)
        files = write_array_job_scratch_files(jobs, scratch, array_id)
        spec_files = [files.input_file, files.output_file, files.error_file, files.eval_file]
        code_path = os.path.join(tmp, "pre%d" % g, "code.tar.gz")
        if spec["code"]:
            marker = os.path.join(tmp, "pre%d" % g, "c32_code_marker.txt")
            open(marker, "w").write("code package\n")
            with tarfile.open(code_path, "w:gz") as tf:
                tf.add(marker, arcname="c32_code_marker.txt")
            good_code = open(code_path, "rb").read()
        cmd = get_oneshot_command(scratch, jobs[0], F.inv, array_uuid=array_id, code_file=File(code_path) if spec["code"] else None)
        if spec["lookup"]:
            cmd = cmd[:-1] + ["no_such_task_in_this_script"]
        case = {"kind": "array-pretask", "spec": spec, "calls": repr(calls), "hashes": hashes}
        stale = [i for i in range(n) if rng.random() < 0.25]
        for i in stale:
            p = get_job_scratch_file(scratch, jobs[i], SCRATCH_ERROR)
            os.makedirs(os.path.dirname(p), exist_ok=True)
            open(p, "wb").write(b"stale")
        var = rng.choice(ARRAY_VARS)
        for i in spec["order"]:
            kind = "lookup" if spec["lookup"] and spec["kinds"][i] == "none" else spec["kinds"][i]
            spec_before = [open(p, "rb").read() for p in spec_files]
            before = snapshot(scratch)
            env = {var: str(i)}
            if kind == "import":
                env["VERIF_C32_IMPORT_FAIL"] = "1"
            if kind == "code":
                open(code_path, "wb").write(b"this is not a tar archive")
            sys.modules.pop(modname, None)          # every element is a fresh worker process: the script is imported anew
            raised = None
            with mock.patch.dict(os.environ, env):
                for v in ARRAY_VARS:
                    if v != var:
                        os.environ.pop(v, None)
                try:
                    run_oneshot(client, cmd)
                except BaseException as e:  # noqa: BLE001
                    raised = e
            if kind == "code":
                open(code_path, "wb").write(good_code)
            for leftover in ("c32_code_marker.txt",):
                if os.path.exists(leftover):
                    os.remove(leftover)
            spec_after = [open(p, "rb").read() if os.path.exists(p) else None for p in spec_files]
            after = snapshot(scratch)
            changed = sorted(p for p in after if before.get(p) != after[p])
            own_err = get_job_scratch_file(scratch, jobs[i], SCRATCH_ERROR)
            own_out = get_job_scratch_file(scratch, jobs[i], SCRATCH_OUTPUT)
            # what the executor's monitor then reports for this job
            if raised is None:
                res, exists = parse_job_result(scratch, jobs[i])
                remote = ("ok", res) if exists else ("missing-output", None)
            else:
                remote = ("err", parse_job_error(scratch, jobs[i])[0])
            if kind == "none":
                local = local_outcome(F.inv, *calls[i])
                stage = "none" if local[0] == "ok" else "task"
            else:
                local = ("err", raised)          # the failure of this worker, as raised by the oneshot entry point
                stage = kind
            ecase = dict(case, index=i, failure=kind, var=var)
            ctx.case(key=("pretask", g, i, kind), sample={"kinds": spec["kinds"], "order": spec["order"], "index": i}, kind="array-pretask",
                     failure=stage, outcome=remote[0] + ":" + type(remote[1]).__name__, size=n, code_package=spec["code"])
            if spec_after != spec_before:
                ctx.violation("C32-array-spec-file-clobbered", "an array element changed one of the array's shared spec files "
                              "(input / output / error / eval_hashes)", case=ecase, expected="byte-identical before and after every element",
                              actual=[os.path.basename(p) for p, a, b in zip(spec_files, spec_before, spec_after) if a != b])
            if kind != "none" and (raised is None or type(remote[1]).__name__ in ("ExceptionNotFoundError", "ScratchError")
                                   or not same_outcome(local, remote)):
                ctx.violation("C32-pretask-failure-not-in-own-error-file", "an array element failed before the task was called but its "
                              "error is not recorded in its own error file", case=ecase, expected=show(local) if raised else "an error",
                              actual=show(remote))
            if kind == "none" and not same_outcome(local, remote):
                ctx.violation("C32-array-element-result", "array element run through the scratch protocol differs from the local call "
                              "(its outcome depends on other elements of the array)", case=ecase, expected=show(local), actual=show(remote))
            want = own_out if stage == "none" else own_err
            if changed != [want]:
                ctx.violation("C32-array-element-files", "array element did not write exactly its own output/error scratch file",
                              case=ecase, expected=[want], actual=changed)

            def cmp_ops(mo, want=want, stage=stage, changed=changed, ecase=ecase):
                ops = unsx(mo)[0] if not mo.startswith("!") else mo
                writes = [[str(o[0]), o[1]] for o in ops if str(o[0]) != "remove"] if isinstance(ops, list) else ops
                impl = [["woutput" if stage == "none" else "werror", p] for p in changed]
                if writes != impl:
                    ctx.mismatch("files written by an array element differ from model oneshotOps", case=ecase, model=writes, impl=impl)
            batch.add("ops %s %s i%d T %s" % (sx(scratch), sx(hashes), i, stage), cmp_ops)
        shutil.rmtree(os.path.join(tmp, "pre%d" % g), ignore_errors=True)
    sys.modules.pop(modname, None)
    batch.flush(ctx)


# ------------------------------------------------------------------ two-step histories: an earlier output exists
HIST_SRC = """
import os

from redun import File, task


@task()
def total(src, flag):
    if os.path.exists(flag):
        raise ValueError("cannot recompute", open(flag).read())
    data = File(src).read()
    return {"src": File(src), "n": len(data)}
"""


def canon_outcome(o):
    if o[0] == "ok" and isinstance(o[1], dict) and "src" in o[1]:
        return ("ok", o[1]["n"], o[1]["src"].path, o[1]["src"].hash)
    if o[0] == "err":
        return ("err", type(o[1]).__name__, repr(getattr(o[1], "args", None)))
    return (o[0], repr(o[1]))


def check_histories(ctx, n_hist, tmp, moddir):
    """Run the same job twice through oneshot: the first run succeeds and leaves an output holding a File; then the File
    is (or is not) changed and the task does (or does not) raise; afterwards the scratch files and the executors' status
    inference (docker.iter_job_status, AWSBatchExecutor._can_override_failed) must say what the local call says."""
    from redun.cli import RedunClient
    from redun.config import Config
    from redun.executors import aws_batch, docker
    from redun.executors.aws_batch import DOCKER_INSPECT_ERROR, AWSBatchExecutor
    from redun.executors.command import get_oneshot_command
    from redun.executors.scratch import (SCRATCH_ERROR, SCRATCH_OUTPUT, get_job_scratch_file, write_array_job_scratch_files)
    from redun.scheduler import Job
    rng = ctx.rng
    modname = "verif_c32_hist"
    with open(os.path.join(moddir, modname + ".py"), "w") as f:
        f.write(HIST_SRC)
    sys.modules.pop(modname, None)
    H = __import__(modname)
    client = RedunClient()
    batch = Batch()
    variants = ["invalid-raise", "invalid-raise", "invalid-ok", "valid", "valid-flag"]
    for g in range(n_hist):
        variant = "invalid-raise" if g == 0 else rng.choice(variants)
        array = g % 2 == 1
        base = os.path.join(tmp, "hist%d" % g)
        scratch = os.path.join(base, rng.choice(["s", "s/", "scratch dir"]))
        os.makedirs(base)
        src, flag = os.path.join(base, "data.txt"), os.path.join(base, "flag")
        open(src, "w").write("1 2 3\n")
        hashes = [gen_hex(rng, 40), gen_hex(rng, 40)]
        jobs = []
        for k, h in enumerate(hashes):
            sk = src if k == 0 else os.path.join(base, "other.txt")
            if k:
                open(sk, "w").write("9\n")
            j = Job(H.total, H.total(sk, flag))
            j.eval_hash, j.args = h, ((sk, flag), {})
            jobs.append(j)
        job = jobs[0]
        array_id = gen_hex(rng, 32)
        var = rng.choice(ARRAY_VARS)

        def run_once():
            if array:
                write_array_job_scratch_files(jobs, scratch, array_id)
                cmd = get_oneshot_command(scratch, job, H.total, array_uuid=array_id)
            else:
                cmd = get_oneshot_command(scratch, job, H.total, job.args[0], job.args[1])
            with mock.patch.dict(os.environ, {var: "0"} if array else {}):
                return remote_outcome(client, cmd, scratch, job)
        out_path = get_job_scratch_file(scratch, job, SCRATCH_OUTPUT)
        err_path = get_job_scratch_file(scratch, job, SCRATCH_ERROR)
        case = {"kind": "history", "variant": variant, "array": array}
        first, raised1 = run_once()
        local1 = local_outcome(H.total, (src, flag), {})
        if canon_outcome(first) != canon_outcome(local1) or not os.path.exists(out_path):
            ctx.violation("C32-single-job-result", "first oneshot run differs from the local call", case=case, expected=canon_outcome(local1),
                          actual=canon_outcome(first))
            continue
        # ---- between the runs
        if variant.startswith("invalid"):
            open(src, "w").write("1 2 3 4 5 6 7 8 9 10 11\n")       # the File inside the old output is no longer valid
        if variant in ("invalid-raise", "valid-flag"):
            open(flag, "w").write("upstream data withdrawn")
        out_before, err_before = os.path.exists(out_path), os.path.exists(err_path)
        second, raised2 = run_once()
        if variant in ("valid", "valid-flag"):
            # a still valid output of the same eval hash is reused by design: the task is not called again
            want, existing, stage = first, "T", "none"
        else:
            want = local_outcome(H.total, (src, flag), {})
            existing, stage = "F", ("none" if want[0] == "ok" else "task")
        out_after, err_after = os.path.exists(out_path), os.path.exists(err_path)
        ctx.case(key=("history", g, variant, array), sample={"variant": variant, "array": array}, kind="history", variant=variant, array_job=array,
                 outcome=canon_outcome(second)[0])
        hcase = dict(case, first=canon_outcome(first), scratch_files_after={"output": out_after, "error": err_after})
        if canon_outcome(second) != canon_outcome(want):
            ctx.violation("C32-rerun-result", "second oneshot run of the same job differs from the local call", case=hcase,
                          expected=canon_outcome(want), actual=canon_outcome(second))
        if want[0] == "err" and out_after:
            ctx.violation("C32-stale-output-after-failed-rerun", "the re-run task raised but the earlier, no longer valid output file is "
                          "still in the scratch directory next to the error file", case=hcase, expected="no output file", actual="output file present")
        # ---- executor-side status inference
        with mock.patch.object(docker.subprocess, "check_output", side_effect=lambda argv, *a, **k: b""):
            st = [x["status"] for x in docker.iter_job_status(scratch, {"container-1": job})]
        if st != [docker.SUCCEEDED if want[0] == "ok" else docker.FAILED]:
            ctx.violation("C32-status-inference-disagrees", "docker.iter_job_status infers another status from the scratch directory than "
                          "the local call has", case=hcase, expected="SUCCEEDED" if want[0] == "ok" else "FAILED", actual=st)
        config = Config({"batch": {"image": "img", "queue": "q", "s3_scratch": scratch, "code_package": False, "aws_region": "us-west-2"}})
        ex = AWSBatchExecutor("batch", None, config["batch"])
        ex.pending_batch_jobs["batch-1"] = job
        can, _reason = ex._can_override_failed({"jobId": "batch-1", "attempts": [{"container": {"reason": DOCKER_INSPECT_ERROR + " (x)"}}]})
        if bool(can) != (want[0] == "ok"):
            ctx.violation("C32-status-inference-disagrees", "AWSBatchExecutor._can_override_failed would turn a failed re-run into SUCCEEDED "
                          "(or not accept a successful one)", case=hcase, expected=want[0] == "ok", actual=bool(can))

        def cmp_rerun(mo, out_before=out_before, err_before=err_before, out_after=out_after, err_after=err_after, hcase=hcase,
                      out_path=out_path, err_path=err_path):
            present = {out_path: out_before, err_path: err_before}
            for op in unsx(mo)[0]:
                present[op[1]] = str(op[0]) != "remove"
            m = {"output": present.get(out_path), "error": present.get(err_path)}
            impl = {"output": out_after, "error": err_after}
            if m != impl:
                ctx.mismatch("scratch files after a re-run differ from model oneshotRerunOps", case=hcase, model=m, impl=impl)
        batch.add("rerun %s %s i0 T %s %s" % (sx(scratch), sx(hashes if array else hashes[:1]), existing, stage), cmp_rerun)
        shutil.rmtree(base, ignore_errors=True)
    sys.modules.pop(modname, None)
    batch.flush(ctx)


# ------------------------------------------------------------------ reuniting against a queue with jobs in every status
ALL_STATUSES = ["SUBMITTED", "PENDING", "RUNNABLE", "STARTING", "RUNNING", "SUCCEEDED", "FAILED"]
INFLIGHT = ALL_STATUSES[:5]


class FakePaginator:
    def __init__(self, client):
        self.client = client

    def paginate(self, jobQueue=None, jobStatus=None, arrayJobId=None):
        if arrayJobId is not None:
            parent = next(j for j in self.client.jobs if j["jobId"] == arrayJobId)
            found = [{"jobId": c["jobId"], "status": c["status"], "arrayProperties": {"index": c["index"]}}
                     for c in parent["children"] if c["status"] == jobStatus]
        else:
            found = [{"jobId": j["jobId"], "jobName": j["jobName"], "status": j["status"]}
                     for j in self.client.jobs if j["queue"] == jobQueue and j["status"] == jobStatus]
        yield {"jobSummaryList": found[:1]}         # two pages, like the real API may answer
        yield {"jobSummaryList": found[1:]}


class FakeBatchClient:
    """In-memory AWS Batch: list_jobs honours jobQueue / jobStatus / arrayJobId; describe_jobs knows every job it
    still retains, finished ones included."""

    def __init__(self, jobs, forgotten=()):
        self.jobs = jobs
        self.forgotten = set(forgotten)
        self.calls = []

    def get_paginator(self, name):
        assert name == "list_jobs", name
        return FakePaginator(self)

    def describe_jobs(self, jobs):
        known = {}
        for j in self.jobs:
            known[j["jobId"]] = {"jobId": j["jobId"], "jobName": j["jobName"], "status": j["status"]}
            for c in j["children"]:
                known[c["jobId"]] = {"jobId": c["jobId"], "jobName": j["jobName"], "status": c["status"]}
        return {"jobs": [known[i] for i in jobs if i in known and i not in self.forgotten]}


def gen_queue_world(rng, wid, exec_prefix, queue):
    """Jobs of a Batch queue in every status + ground truth: batch job id -> (eval hash it was created for, listed?)
    where listed = in flight, in the executor's queue, name starts with the executor's job_name_prefix."""
    from redun.executors.aws_batch import get_batch_job_name
    pool = [gen_hex(rng, 40) for _ in range(5)]
    jobs, truth, evalfiles = [], {}, {}
    # the scenario the property names: a finished job of an earlier run with the very name a new job would get
    if rng.random() < 0.7:
        h = pool[0]
        st = rng.choice(["SUCCEEDED", "SUCCEEDED", "FAILED"])
        jobs.append({"jobId": "w%d-old" % wid, "jobName": get_batch_job_name(exec_prefix, h), "queue": queue, "status": st, "children": []})
        truth["w%d-old" % wid] = (h, False)
    for k in range(rng.choice([0, 1, 2, 3, 5])):
        prefix = rng.choice([exec_prefix, exec_prefix, exec_prefix + "-x_y", exec_prefix + "-array", "other-prefix", exec_prefix[:-1]])
        q = queue if rng.random() < 0.85 else "other-queue"
        st = rng.choice(ALL_STATUSES)
        top_listed = q == queue and prefix.startswith(exec_prefix) and st in INFLIGHT
        if rng.random() < 0.55:
            h = rng.choice(pool)
            jid = "w%d-single-%d" % (wid, k)
            jobs.append({"jobId": jid, "jobName": get_batch_job_name(prefix, h), "queue": q, "status": st, "children": []})
            truth[jid] = (h, top_listed)
        else:
            uid = gen_hex(rng, 32)
            m = rng.choice([1, 2, 3, 4])
            hashes = [rng.choice(pool) if rng.random() < 0.5 else gen_hex(rng, 40) for _ in range(m)]
            jid = "w%d-array-%d" % (wid, k)
            children = [{"jobId": "%s:%d" % (jid, i), "index": i, "status": rng.choice(ALL_STATUSES)} for i in range(m)]
            rng.shuffle(children)
            jobs.append({"jobId": jid, "jobName": get_batch_job_name(prefix, uid, array=True), "queue": q, "status": st, "children": children})
            if rng.random() < 0.9:
                evalfiles[uid] = hashes
                for c in children:
                    truth[c["jobId"]] = (hashes[c["index"]], top_listed and c["status"] in INFLIGHT)
    rng.shuffle(jobs)
    return jobs, truth, evalfiles, pool


def check_queue(ctx, T, n_worlds, tmp):
    from redun.config import Config
    from redun.executors import aws_batch
    from redun.executors.aws_batch import AWSBatchExecutor
    from redun.executors.scratch import SCRATCH_HASHES, get_array_scratch_file
    from redun.file import File
    rng = ctx.rng
    batch = Batch()
    for w in range(n_worlds):
        scratch = os.path.join(tmp, "queue%d" % w)
        exec_prefix = rng.choice(["redun-job", "redun-job", "my-team-redun", "r"])
        queue = "queue"
        jobs, truth, evalfiles, pool = gen_queue_world(rng, w, exec_prefix, queue)
        for uid, hashes in evalfiles.items():
            with File(get_array_scratch_file(scratch, uid, SCRATCH_HASHES)).open("w") as out:
                out.write("\n".join(hashes))
        config = Config({"batch": {"image": "img", "queue": queue, "s3_scratch": scratch, "job_name_prefix": exec_prefix,
                                   "code_package": False, "aws_region": "us-west-2"}})
        forgotten = [j["jobId"] for j in jobs if rng.random() < 0.1]
        client = FakeBatchClient(jobs, forgotten)
        with mock.patch.object(aws_batch.aws_utils, "get_aws_client", side_effect=lambda service, aws_region=None: client):
            ex = AWSBatchExecutor("batch", None, config["batch"])
            ex._scheduler = mock.Mock()
            ex.arrayer.add_job = mock.Mock()

            def fake_start(ex=ex):
                ex.is_running = True
            ex._start = mock.Mock(side_effect=fake_start)
            snap, real_gather = {}, ex.gather_inflight_jobs

            def gather_and_snapshot(snap=snap, real_gather=real_gather, ex=ex):
                real_gather()
                snap.update(ex.preexisting_batch_jobs)
            ex.gather_inflight_jobs = gather_and_snapshot
            req = "gatherq %s %s %s %s" % (
                sx(queue), sx(exec_prefix),
                "(" + " ".join("(%s %s %s %s (%s))" % (sx(j["jobName"]), sx(j["jobId"]), sx(j["queue"]), j["status"],
                                                      " ".join("(%s i%d %s)" % (sx(c["jobId"]), c["index"], c["status"]) for c in j["children"]))
                               for j in jobs) + ")",
                sx([[uid, hs] for uid, hs in evalfiles.items()]))
            case = {"kind": "queue", "prefix": exec_prefix, "queue": queue, "jobs": jobs, "eval_files": evalfiles}
            first = True
            hashes = list(pool[:3]) + [gen_hex(rng, 40)]
            rng.shuffle(hashes)
            for h in hashes:
                scope = rng.choice(["BACKEND", "BACKEND", "BACKEND", "BACKEND", "CSE", "NONE"])
                job = make_job(T, "add", ((1,), {}), h, options=None if scope == "BACKEND" else {"cache_scope": scope})
                ex._submit(job)             # the first submission gathers the in-flight jobs (is_running is False)
                if first:
                    first = False
                    gathered = dict(snap)           # the table right after gather_inflight_jobs, before this job's lookup
                    ctx.case(key=("queue", req), sample={"jobs": [(j["jobName"], j["status"]) for j in jobs][:4]}, kind="queue-gather",
                             n_jobs=len(jobs), statuses="+".join(sorted({j["status"] for j in jobs}))[:60])

                    def cmp_gather(mo, impl=gathered, case=case):
                        m = mo if mo.startswith("!") else {k: v for k, v in unsx(mo)[0]}
                        if m != impl:
                            ctx.mismatch("gather_inflight_jobs against the queue: preexisting_batch_jobs differs from model gatherQueue",
                                         case=case, model=m, impl=impl)
                    batch.add(req, cmp_gather)
                    for hh, jid in gathered.items():
                        if len(hh) == 40 and all(ch in HEX for ch in hh) and truth.get(jid) != (hh, True):
                            ctx.violation("C32-gather-binds-unlisted-job", "gather_inflight_jobs binds an eval hash to a Batch job that is "
                                          "not in flight / not in this queue / not under this prefix / created for another hash",
                                          case=case, expected="only in-flight jobs of the queue created for that hash",
                                          actual={"hash": hh, "job": jid, "created_for_and_listed": truth.get(jid)})
                attached = [jid for jid, jb in ex.pending_batch_jobs.items() if jb is job]
                rcase = dict(case, eval_hash=h, cache_scope=scope)
                ctx.case(key=("queue-submit", req, h, scope), kind="queue-submit", outcome="attached" if attached else "submitted", scope=scope)
                for jid in attached:
                    if truth.get(jid) != (h, True):
                        ctx.violation("C32-reunite-with-finished-or-foreign-job", "_submit attached a redun job to a Batch job that is finished, "
                                      "in another queue / under another prefix, or was created for another eval hash", case=rcase,
                                      expected="a new submission (or an in-flight job created for this eval hash)",
                                      actual={"attached_to": jid, "status": next((x["status"] for j in jobs for x in [j] + j["children"]
                                                                                  if x["jobId"] == jid), None), "created_for_and_listed": truth.get(jid)})
                if attached and scope != "BACKEND":
                    ctx.violation("C32-reunite-ignores-cache-scope", "job with cache scope %s was reunited" % scope, case=rcase,
                                  expected="new submission", actual=attached)
                if (not attached) != (ex.arrayer.add_job.call_args_list[-1:] == [mock.call(job)]):
                    ctx.violation("C32-reunite-or-submit", "job neither reunited nor handed to the arrayer exactly once", case=rcase,
                                  expected="exactly one of them", actual={"attached": attached})
        shutil.rmtree(scratch, ignore_errors=True)
    batch.flush(ctx)


def run(ctx):
    tmp = tempfile.mkdtemp(prefix="verif-c32-")
    moddir = os.path.join(tmp, "mod")
    os.makedirs(moddir)
    modname = "verif_c32_tasks"
    with open(os.path.join(moddir, modname + ".py"), "w") as f:
        f.write(TASKS_SRC)
    sys.path.insert(0, moddir)
    cwd0 = os.getcwd()
    os.chdir(tmp)
    logging.disable(logging.CRITICAL)
    saved_env = {v: os.environ.pop(v) for v in ARRAY_VARS if v in os.environ}
    try:
        sys.modules.pop(modname, None)
        T = __import__(modname)
        check_names(ctx, ctx.n(1500, 40000))
        check_arrays(ctx, T, ctx.n(40, 1500), tmp)
        check_singles(ctx, T, ctx.n(150, 5000), tmp)
        check_pretask(ctx, ctx.n(12, 400), tmp, moddir)
        check_histories(ctx, ctx.n(16, 600), tmp, moddir)
        check_gather(ctx, T, ctx.n(40, 1500), tmp)
        check_queue(ctx, T, ctx.n(60, 1500), tmp)
    finally:
        logging.disable(logging.NOTSET)
        os.environ.update(saved_env)
        os.chdir(cwd0)
        if moddir in sys.path:
            sys.path.remove(moddir)
        try:
            from redun.utils import clear_import_paths
            clear_import_paths()
        except Exception:  # noqa: BLE001
            pass
        sys.modules.pop(modname, None)
        shutil.rmtree(tmp, ignore_errors=True)


def replay(ctx, case):
    print("replay case:", str(case.get("case"))[:600])
    run(ctx)
