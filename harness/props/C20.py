"""C20 — recorded call graphs are a consistent Merkle record of the run.
Model: lean/RedunModel/Model/Merkle.lean, theorems: lean/RedunModel/Props/C20.lean, driver: lean/Driver/C20.lean.
The tie is a whole-database audit after real (deterministically scheduled) runs on the in-memory backend."""
import json

from core import Raw, sx, unsx

ID = "C20"
READY = True
LEAN_MODULES = ["RedunModel.Props.C20"]
LEAN_DRIVERS = ["C20"]
THEOREMS = [
    "RedunModel.C20.sortH_perm",
    "RedunModel.C20.callHash_merkle",
    "RedunModel.C20.callHash_perm",
    "RedunModel.C20.merkle_run",
    "RedunModel.C20.finish_records_node",
    "RedunModel.C20.fresh_edges_mirror",
    "RedunModel.C20.fresh_node_had_no_edges",
    "RedunModel.C20.job_call_hash_recorded",
    "RedunModel.C20.dbMerkle_run_tree",
    "RedunModel.C20.job_row_after_finish",
    "RedunModel.C20.job_row_after_start",
    "RedunModel.C20.exec_root",
    "RedunModel.C20.tags_attached",
    "RedunModel.C20.tags_only_intended",
    "RedunModel.C20.finish_idempotent_nodes",
    "RedunModel.C20.values_keyed",
    "RedunModel.C20.edges_durable_with_node",
    "RedunModel.C20.retry_from_durable_same_graph",
    "RedunModel.C20.split_commit_loses_edges",
]
TRUSTED = [
    "hashes are symbolic: a call hash is its pre-image [CallNode, task, args, result, sorted kids]; task/args/value hashes are "
    "opaque atoms; SHA-512/160 collisions and the byte encoding (C14) are outside this property",
    "modelled, not verified: Python sorted() = a stable sort by a total order on the hex digests (the model sorts by a structural "
    "total order, proved lawful; the theorems show the id does not depend on the order of the children, so the two agree up to the "
    "order in which the sorted children are listed); sqlite/SQLAlchemy: a query sees the rows added earlier in the same session, "
    "primary keys are unique; pickle round trip of values is exercised by the audit, not modelled",
    "the job tree fed to the model is observed on the scheduler's Job objects by wrapping Job.__init__/resolve/reject and "
    "Scheduler._exec/_resolve/_reject_job_main_thread from the harness (no edit in /repo); the executor and the event queue are "
    "replaced by deterministic ones (task functions run on the scheduler thread, completion order chosen by the seed)",
]
ASSUMPTIONS = [
    "fault histories: call trees in which every job records provenance and all calls are distinct (so the recovered graph can be "
    "compared row by row with the fault-free one), run on a sqlite file with tasks inline on the scheduler thread (ctl_db); one "
    "fault per history: a transient OperationalError at one writing commit (absorbed by db_retry, or followed by a re-run when it "
    "escapes), or a process death right after one writing commit followed by a re-run on the same file; Argument / "
    "CallSubtreeTask rows are not part of this oracle (C22 owns them)",
    "programs: trees of calls of 8 real tasks interpreting a data spec (leaf / failure / parallel children / dataflow join / catch "
    "/ apply_tags / staged children), task variants with check_valid=shallow, cache=False, definition-level tags (also on a shallow task), prov=False or tags at the call; "
    "1-3 executions per database (replay, mutated program, cache=False run), each by a fresh Scheduler on the same backend",
    "no resource limits, no context, no handles/files, no script tasks, local in-process execution only (one scheduler thread)",
    "the schedule-independence oracle is applied only to programs without failing jobs (which children a failed parent had seen "
    "is timing dependent by design and belongs to C07)",
]
RULE = ("one case = one database history (1-3 executions of generated call trees under a seeded completion order). After every "
        "execution all CallNode/CallEdge/Job/Execution/Tag/Value rows are read back; every digest is replaced by its logged "
        "pre-image and compared with the model's prediction from the observed job tree; independently every call hash is "
        "recomputed with redun's hash_struct from the observed tree, every value is deserialized and re-hashed, tags are "
        "compared with the program's intent. distinct = distinct (specs, policies); a history with a single leaf job is trivial. "
        "Fault histories (cases tagged fault=...): per program one fault-free run in which the database right after EVERY writing "
        "commit must already be Merkle-consistent on its rows, then for every commit position (quick: all positions of one corpus "
        "program, a seeded sample of 4 for 2 generated ones; thorough: all) a transient-error history and a process-death + re-run "
        "history, after which every CallNode must be hash(task, args, result, sorted children of its CallEdge rows), child jobs' "
        "nodes must be edge children of their parent's node, and CallNode/CallEdge rows must equal the fault-free run's")

LEVEL_TEXT = (
    "Proved in Lean 4 on the recorder model (Model/Merkle.lean; symbolic hashes), all universally quantified, full strength: "
    "callHash_merkle (every job tree: a job that ended has hash(task, args, result, sorted child hashes), recursively), "
    "sortH_perm / callHash_perm (the id does not depend on the order of the children; the structural order used for sorting is "
    "proved to be a total order), merkle_run (from the empty database, after ANY sequence of job starts/ends of any trees and "
    "executions: every CallNode id is the pre-image of its own fields and a child list, every CallEdge sits at a position of that "
    "list and points to a recorded node, ids unique), finish_records_node, fresh_edges_mirror + fresh_node_had_no_edges (edges of a "
    "freshly recorded node = exactly the recorded slots of child_jobs with their positions), dbMerkle_run_tree (induction over "
    "trees: when every job records provenance all ids are recomputable from the rows alone), job_row_after_start / "
    "job_row_after_finish / exec_root (Job.parent_id, call_hash, cached, Execution.job_id mirror the tree; collapsed and "
    "cache-served jobs, with a value or with an error served by CSE, point to the node handed over), job_call_hash_recorded (the Job->CallNode foreign key), tags_attached / "
    "tags_only_intended, finish_idempotent_nodes (replays, duplicates), values_keyed; commit structure of record_call_node: "
    "edges_durable_with_node (in every durable state a node written by the call has exactly its edges), "
    "retry_from_durable_same_graph (a second attempt from any durable state ends with the uninterrupted graph), "
    "split_commit_loses_edges (contrast, not the code: committing the node before its edges loses them on retry). "
    "No _partial / _refuted theorem. "
    "Tie: the job tree observed on the real scheduler (Job objects, not rows) is replayed by the model driver and all "
    "CallNode/CallEdge/Job/Execution/Tag rows are compared after every execution with digests replaced by logged pre-images; the "
    "property oracle recomputes every call hash with redun's hash_struct from the observed tree, checks edges/parents/roots/tags "
    "against the executed tree and the program, deserializes and re-hashes every Value row, and compares the node set under a "
    "second completion order. The commit structure is tied by the fault histories (every durable state of a fault-free run, one "
    "transient error / one process death at every commit position, recovery, whole-database Merkle check on the rows).")
LEVEL_NOTE = (
    "Modelled, not verified: SHA-512/160 and bencode (C14), pickle (the audit found that value hashes depend on object identity: "
    "known finding C20-value-key-pickle-aliasing), sqlite transaction semantics. The job tree (which jobs exist, who collapses onto "
    "whom, which hash the cache hands over, completion order) is an INPUT of the model, observed per run: the evaluation machine "
    "itself is C01/C06 territory. Of the commit structure only record_call_node's is modelled (node + edges in one commit); other recorders' crash points are C22's. The model cannot exhibit threads, limits, contexts "
    "(context tags on CallNodes), handles/files, remote executors. Found and fixed through this check: a job collapsed onto a "
    "prov=False twin crashed the run with a foreign-key error (commit d273f7b).")
TECHNIQUE = "Lean 4 proof on a hand-written recorder model + whole-database differential audit of real deterministic runs"

KINDS = ["leaf", "fail", "par", "comb", "catch", "tags", "tags2", "then"]


# ------------------------------------------------------------------ generator
def gen_spec(rng, depth, labels, pool):
    """pool: sub-specs already generated in this history; reusing one makes equal calls in different places
    (expression-level duplicates under one parent, CSE hits / collapses across parents)"""
    if pool and rng.random() < 0.3:
        return rng.choice(pool)
    k = rng.random()
    lab = rng.choice(labels)
    if depth <= 0 or k < 0.28:
        s = ("fail", lab, ()) if rng.random() < 0.18 else ("leaf", lab, ())
    else:
        if k < 0.50:
            kind, n = "par", rng.choice([1, 2, 2, 3])
        elif k < 0.62:
            kind, n = "comb", rng.choice([1, 2, 3])
        elif k < 0.76:
            kind, n = "catch", 1
        elif k < 0.82:
            kind, n = "tags", rng.choice([0, 1, 1])
        elif k < 0.88:
            # two tagged values in one job; half of the time two different calls that return the same value
            lab2 = rng.choice(labels)
            s = ("tags2", lab, ((rng.choice(["A", "T"]), "", ("leaf", lab2, ())),
                                ("B", "", ("leaf", lab2 if rng.random() < 0.5 else rng.choice(labels), ()))))
            pool.append(s)
            return s
        else:
            kind, n = "then", rng.choice([2, 3])
        s = (kind, lab, tuple(gen_call(rng, depth - 1, labels, pool) for _ in range(n)))
    pool.append(s)
    return s


def gen_call(rng, depth, labels, pool):
    variant = rng.choice(["A", "A", "A", "A", "B", "B", "S", "N", "T", "T", "U"])
    k = rng.random()
    opt = "np" if k < 0.1 else ("tg" if k < 0.22 else "")
    return (variant, opt, gen_spec(rng, depth, labels, pool))


def mutate(rng, spec, labels):
    """Replace one sub-spec (or a label) so that the next execution shares part of the tree."""
    kind, lab, calls = spec
    if kind == "tags2":
        # kept whole: with a failing child the job is rejected while its other apply_tags may or may not have completed,
        # so which of its tags are recorded is timing dependent (not demanded either way)
        return (kind, rng.choice(labels), calls)
    if not calls or rng.random() < 0.3:
        return (kind, rng.choice(labels), calls) if rng.random() < 0.5 else gen_spec(rng, 1, labels, [])
    i = rng.randrange(len(calls))
    v, o, s = calls[i]
    calls = calls[:i] + ((v, o, mutate(rng, s, labels)),) + calls[i + 1:]
    return (kind, lab, calls)


def gen_history(rng):
    labels = list(range(rng.choice([2, 3, 5])))
    depth = rng.choice([1, 2, 2, 3, 3])
    root_variant = rng.choice(["A", "A", "A", "B", "S", "T", "U"])
    root_opt = "np" if rng.random() < 0.04 else ""
    pool = []
    spec = gen_spec(rng, depth, labels, pool)
    execs = [dict(call=(root_variant, root_opt, spec), policy=rng.choice(["fifo", "lifo", "rand", "rand"]), cache=True)]
    for _ in range(rng.choice([0, 1, 1, 2])):
        k = rng.random()
        prev = execs[-1]["call"]
        if k < 0.4:
            c = prev
        elif k < 0.85:
            c = (prev[0], prev[1], mutate(rng, prev[2], labels))
        else:
            c = (rng.choice(["A", "B"]), "", ("par", 0, (prev, gen_call(rng, 1, labels, pool))))
        execs.append(dict(call=c, policy=rng.choice(["fifo", "lifo", "rand"]), cache=rng.random() > 0.15))
    return execs


def leaf(n):
    return ("leaf", n, ())


def S(kind, label, *calls):
    return (kind, label, tuple(calls))


def c(variant, spec, opt=""):
    return (variant, opt, spec)


def E(call, policy="fifo", cache=True):
    return dict(call=call, policy=policy, cache=cache)


_FAILING = S("par", 9, c("A", leaf(1)), c("A", S("fail", 7)))
_P1 = c("A", S("par", 0, c("A", S("catch", 1, c("A", S("par", 2, c("A", leaf(3)), c("B", S("fail", 4)))))),
               c("T", S("tags", 5, c("A", leaf(6))))))
_P2 = c("A", S("par", 0, c("A", leaf(1)), c("B", S("fail", 2)), c("A", S("par", 3, c("A", leaf(4))))))
_P3 = c("S", S("comb", 0, c("A", leaf(1)), c("N", leaf(2))))
CORPUS = [
    # duplicates in different parents (CSE collapse / CSE hit), a prov=False twin of a recorded call
    [E(c("A", S("par", 0, c("A", S("par", 1, c("A", leaf(1)))), c("B", S("par", 1, c("A", leaf(1)))), c("A", leaf(1), "np"),
            c("B", S("par", 2, c("A", leaf(1), "np"))))))],
    # failure caught + tags, replayed
    [E(_P1, "lifo"), E(_P1, "fifo")],
    # failure not caught (the execution fails, siblings may never end), replayed
    [E(_P2, "fifo"), E(_P2, "lifo")],
    # two failing twins in different parents (collapse onto a failing job), staged children
    [E(c("A", S("par", 0, c("A", S("catch", 1, c("A", _FAILING))), c("B", S("catch", 1, c("A", _FAILING))),
            c("A", S("then", 2, c("A", leaf(1)), c("A", leaf(5)), c("B", leaf(1)))))), "rand")],
    # shallow (ultimate reduction) replay, then a cache=False run
    [E(_P3), E(_P3), E(_P3, "lifo", False)],
    # tagged calls (definition-level: T, U; call-level: "tg") duplicated in different parents: one twin is served by CSE
    # (collapse or same-execution hit) and must still get its own job tags
    [E(c("A", S("par", 0, c("A", S("par", 1, c("T", leaf(1)), c("A", leaf(2), "tg"))), c("B", S("then", 2, c("A", leaf(3)), c("T", leaf(1)),
            c("A", leaf(2), "tg"), c("A", leaf(2))))))), E(c("A", S("par", 0, c("B", S("par", 1, c("T", leaf(1)), c("A", leaf(2), "tg"))),
            c("A", S("par", 2, c("T", leaf(1)))))), "lifo")],
    # a tagged shallow-validity task replayed in a second execution (ultimate-reduction hit), also below another root
    [E(c("U", S("par", 0, c("A", leaf(1))))), E(c("U", S("par", 0, c("A", leaf(1))))),
     E(c("A", S("par", 5, c("U", S("par", 0, c("A", leaf(1))), "tg"), c("U", S("par", 0, c("A", leaf(1)))))), "lifo")],
    # one job applies two different tag lists to two values that hash equally (results of two different calls), and to two
    # different values; replayed (single reduction re-evaluates both apply_tags)
    [E(c("A", S("par", 0, c("A", S("tags2", 1, c("A", leaf(4)), c("B", leaf(4)))), c("B", S("tags2", 2, c("A", leaf(4)), c("B", leaf(5))))))),
     E(c("A", S("par", 0, c("A", S("tags2", 1, c("A", leaf(4)), c("B", leaf(4)))), c("B", S("tags2", 2, c("A", leaf(4)), c("B", leaf(5)))))), "lifo")],
    # root without provenance; a single leaf
    [E(c("A", S("par", 0, c("A", leaf(1))), "np"))],
    [E(c("A", leaf(0)))],
]


# ------------------------------------------------------------------ running one history on the real code
def is_hit(r):
    """the job ended carrying a call hash handed over by the cache or by a CSE twin: a value in _resolve_job_main_thread,
    or an error in _reject_job_main_thread (`job.was_cached and job.call_hash`: the error was served by CSE)"""
    return bool(r.pre_call_hash) and (r.entered == "resolve" or (r.entered == "reject" and bool(r.was_cached)))


class Names:
    """digest / uuid -> small index (first occurrence), per class of atom"""

    def __init__(self):
        self.tab = {}

    def get(self, cls, x):
        t = self.tab.setdefault(cls, {})
        if x not in t:
            t[x] = len(t)
        return t[x]


def canon_term(t):
    """(C t a r kids...) with kids in canonical order (sorted by rendering), recursively; returns a string"""
    if isinstance(t, list) and t and t[0] == "C":
        kids = sorted(canon_term(k) for k in t[4:])
        return "(C %s %s %s%s)" % (sx(t[1]), sx(t[2]), sx(t[3]), "".join(" " + k for k in kids))
    return sx(t) if not isinstance(t, list) else "(" + " ".join(canon_term(x) for x in t) + ")"


class Audit:
    def __init__(self, ctx, history):
        self.ctx = ctx
        self.history = history
        self.names = Names()
        self.first_rec = {}
        self.backend = None
        self.stats = dict(jobs=0, hits=0, collapsed=0, refs=0, noprov=0, failed=0, unfinished=0, cached_single=0, nodes=0, edges=0,
                          tags=0, values=0, exec_failed=0)

    # -- digests -> terms
    def term(self, digest, raw=False):
        """pre-image term of a call hash, as nested python lists (raw) or canonical text"""
        pre = self.log.pre.get(digest)
        if not (isinstance(pre, list) and len(pre) == 5 and pre[0] == "CallNode"):
            t = [Raw("?"), self.names.get("unknown", digest)]
        else:
            t = [Raw("C"), self.names.get("T", pre[1]), self.names.get("A", pre[2]), self.names.get("V", pre[3])] + \
                [self.term(k, raw=True) for k in pre[4]]
        return t if raw else canon_term(t)

    def term_in(self, digest):
        """term in the syntax the driver parses (kids in logged order)"""
        def r(t):
            return "(" + " ".join(x if isinstance(x, Raw) else (r(x) if isinstance(x, list) else sx(x)) for x in t) + ")"
        return r(self.term(digest, raw=True))

    def vh(self, value):
        return self.registry.get_hash(value)

    def result_hash(self, r):
        if r.outcome == "ok":
            return self.vh(r.result)
        if r.outcome == "fail":
            return r.result_hash          # computed by the watch when the job entered _reject_job_main_thread
        return None

    # -- intended tags of a job, from the program (spec = first positional argument of the variant tasks)
    def intent(self, r):
        import gm_tasks as T
        vt, jt, et, tt = [], [], [], []
        # the tags the call specifies: tags given at the call replace the definition-level ones on the job;
        # the definition-level tags always go to the task.  Holds for EVERY job that ended with provenance,
        # whether it ran, was served by CSE / the cache, or collapsed into a twin.
        task_tags = T.TASK_TAGS.get(r.task_name, [])
        call_opts = getattr(r.expr_obj, "_options", None) or {}
        jt.extend(call_opts["tags"] if "tags" in call_opts else task_tags)
        tt.extend(task_tags)
        spec = None
        if r.task_name in ("gm.tA", "gm.tB", "gm.tS", "gm.tN", "gm.tT", "gm.tU") and r.eval_args:
            spec = r.eval_args[0][0]
        body_evaluated = r.outcome == "ok" and not is_hit(r)
        if spec is not None and spec[0] == "tags2" and body_evaluated:
            # two apply_tags in one job; the two values may hash equally: BOTH tag lists belong to that value
            v0, v1 = r.result
            vt.append((self.vh(v0), "vk", spec[1]))
            vt.append((self.vh(v1), "vk2", spec[1]))
            vt.append((self.vh(v1), "vk3", spec[1] + 1))
            jt.append(("jk2", spec[1]))
        if spec is not None and spec[0] == "tags" and body_evaluated:
            vt.append((self.vh(r.result), "vk", spec[1]))
            jt.append(("jk", spec[1]))
            et.append(("ek", spec[1]))
        return vt, jt, et, tt

    def tagk(self, k):
        return self.names.get("K", json.dumps(k, sort_keys=True))

    # -- observed tree -> driver syntax
    def tree(self, jid, listed=True, seen=True):
        w, N = self.watch, self.names
        r = w.jobs[jid]
        self.stats["jobs"] += 1
        kids = []
        own = [j for j in w.order if w.jobs[j].parent_id == jid]
        if r.outcome is None:
            fin = "un"
            self.stats["unfinished"] += 1
            kids = [self.tree(j, True, False) for j in own]
        else:
            if is_hit(r):
                fin = "(hit %s)" % self.term_in(r.pre_call_hash)
                self.stats["hits"] += 1
            else:
                fin = r.outcome
            if r.outcome == "fail":
                self.stats["failed"] += 1
            listed_ids = set()
            for cid, chash in r.children:
                c = w.jobs[cid]
                if c.parent_id == jid and cid not in listed_ids:
                    listed_ids.add(cid)
                    final = c.call_hash
                    if chash is not None and chash != final:
                        self.inexpressible = "child call_hash changed after the parent ended"
                    kids.append(self.tree(cid, True, chash is not None or final is None))
                else:
                    self.stats["refs"] += 1
                    kids.append("(R %s)" % ("N" if chash is None else self.term_in(chash)))
            for j in own:
                if j not in listed_ids:
                    self.stats["collapsed"] += 1
                    kids.append(self.tree(j, False, False))
        if not r.prov and r.prov is not None:
            self.stats["noprov"] += 1
        if r.was_cached and fin == "ok":
            self.stats["cached_single"] += 1
        prov = r.prov if r.prov is not None else self.prov_guess(r)
        rh = self.result_hash(r)
        vt, jt, et, tt = self.intent(r) if r.outcome else ([], [], [], [])
        return "(J %s %s %s %s %s %s %s %s %s (%s) (%s) (%s) (%s) (%s))" % (
            sx(N.get("J", jid)), sx(N.get("T", r.task_hash)), sx(N.get("A", r.args_hash) if r.args_hash else 0),
            sx(N.get("V", rh) if rh else 0), sx(bool(prov)), sx(bool(r.was_cached)), sx(listed), sx(seen), fin,
            " ".join("(%s %s %s)" % (sx(N.get("V", a)), sx(self.tagk(k)), sx(self.tagk(v))) for a, k, v in vt),
            " ".join("(%s %s)" % (sx(self.tagk(k)), sx(self.tagk(v))) for k, v in jt),
            " ".join("(%s %s)" % (sx(self.tagk(k)), sx(self.tagk(v))) for k, v in et),
            " ".join("(%s %s)" % (sx(self.tagk(k)), sx(self.tagk(v))) for k, v in tt),
            " ".join(kids))

    def prov_guess(self, r):
        """a job that never ended has no snapshot; its provenance flag is the one the scheduler will compute:
        prov=False at the call, or forced by a parent without provenance"""
        return self.unfinished_prov.get(r.id, True)

    # -- database -> canonical rows
    def dump_db(self):
        from redun.backends.db import CallEdge, CallNode, Execution, Tag
        from redun.backends.db import Job as DbJob
        ses, N = self.backend.session, self.names
        ses.expire_all()
        out = {"nodes": [], "edges": [], "jobs": [], "execs": [], "tags": []}
        for n in ses.query(CallNode).all():
            out["nodes"].append("(%s %s %s %s)" % (self.term(n.call_hash), sx(N.get("T", n.task_hash)), sx(N.get("A", n.args_hash)),
                                                   sx(N.get("V", n.value_hash))))
        for e in ses.query(CallEdge).all():
            out["edges"].append("(%s %s %s)" % (self.term(e.parent_id), self.term(e.child_id), sx(e.call_order)))
        for j in ses.query(DbJob).all():
            out["jobs"].append("(%s %s %s %s %s %s %s)" % (
                sx(N.get("J", j.id)), "N" if j.parent_id is None else sx(N.get("J", j.parent_id)), sx(N.get("E", j.execution_id)),
                sx(N.get("T", j.task_hash)), "N" if j.call_hash is None else self.term(j.call_hash), sx(bool(j.cached)),
                sx(j.end_time is not None)))
        for e in ses.query(Execution).all():
            out["execs"].append("(%s %s)" % (sx(N.get("E", e.id)), sx(N.get("J", e.job_id))))
        kind = {"Value": ("value", "V"), "Job": ("job", "J"), "Execution": ("exec", "E"), "Task": ("task", "T"),
                "CallNode": ("callnode", "unknown")}
        for t in ses.query(Tag).all():
            k, cls = kind[t.entity_type.name]
            out["tags"].append("(%s %s %s %s)" % (k, sx(N.get(cls, t.entity_id)), sx(self.tagk(t.key)), sx(self.tagk(t.value))))
        for k in out:
            out[k].sort()
        return out

    @staticmethod
    def parse_model_dump(text):
        out = {}
        for tab in unsx(text):
            name = str(tab[0])
            rows = []
            for row in tab[1:]:
                rows.append("(" + " ".join(canon_term(x) if isinstance(x, list) else (x if isinstance(x, Raw) else sx(x))
                                           for x in row) + ")")
            out[name] = sorted(rows)
        return out

    # -- the run
    def execute(self):
        """Runs the history on the real code.  Returns the driver request and fills self.snapshots (one per execution)."""
        import gm_common as G
        import gm_tasks as T
        ctx = self.ctx
        self.snapshots, self.exec_reqs, self.exec_info = [], [], []
        self.inexpressible = None
        self.unfinished_prov = {}
        with G.instrumented() as (log, watch):
            self.log, self.watch = log, watch
            backend = None
            for ex in self.history:
                n0, e0 = len(watch.order), len(watch.events)
                run = G.CtlRun(ctx.rng, ex["policy"], backend=backend)
                backend = self.backend = run.backend
                self.registry = run.scheduler.type_registry
                variant, opt, spec = ex["call"]
                res = run.run(T.call((variant, opt, spec)), cache=ex["cache"])
                if res[0] == "err" and not (isinstance(res[1], ValueError) and str(res[1]).startswith("gm")):
                    # the only failures the programs contain are ValueError("gm<n>"); anything else came out of the
                    # scheduler / recorder itself (e.g. sqlite IntegrityError when a Job row references a missing CallNode)
                    sig = "C20-recorder-error-" + type(res[1]).__name__
                    ctx.violation(sig, "the execution was aborted by an error raised while recording the call graph: "
                                  + str(res[1])[:200].replace("\n", " "), {"history": self.history, "execution": len(self.exec_reqs)},
                                  expected="run ends with the program's own result or ValueError", actual=type(res[1]).__name__)
                    try:
                        backend.session.rollback()
                    except Exception:  # noqa: BLE001
                        pass
                    self.inexpressible = "aborted by recorder error"
                    break
                new_jobs = watch.order[n0:]
                roots = [j for j in new_jobs if watch.jobs[j].parent_id is None]
                assert len(roots) == 1, roots
                # provenance of jobs that never ended: from the call option / inherited
                for j in new_jobs:
                    r = watch.jobs[j]
                    if r.prov is None:
                        p = watch.jobs.get(r.parent_id)
                        pprov = True if p is None else (p.prov if p.prov is not None else self.unfinished_prov.get(p.id, True))
                        own = r.expr_obj._options.get("prov", True) if r.expr_obj is not None and hasattr(r.expr_obj, "_options") else True
                        self.unfinished_prov[j] = bool(pprov and own)
                eid = self.names.get("E", watch.jobs[roots[0]].execution_id)
                tree = self.tree(roots[0])
                evs = " ".join("(%s %s)" % (k, sx(self.names.get("J", j))) for k, j in watch.events[e0:])
                self.exec_reqs.append("(exec %s %s (%s))" % (sx(eid), tree, evs))
                self.exec_info.append(dict(res=res, root=roots[0], jobs=new_jobs, exec_id=watch.jobs[roots[0]].execution_id,
                                           nodes_before=self.nodes_seen if hasattr(self, "nodes_seen") else set()))
                if res[0] == "err":
                    self.stats["exec_failed"] += 1
                self.oracle(len(self.exec_info) - 1)
                self.snapshots.append(self.dump_db())
        if self.backend is not None:
            G.release(self.backend)
        return "(session " + " ".join(self.exec_reqs) + ")"

    # -- property oracle on the real database (independent of the model)
    def oracle(self, k):
        from redun.backends.db import CallEdge, CallNode, Execution, Tag, Value
        from redun.backends.db import Job as DbJob
        import redun.hashing as hashing
        hs = getattr(hashing.hash_struct, "__wrapped__", hashing.hash_struct)
        ctx, w, info = self.ctx, self.watch, self.exec_info[k]
        ses = self.backend.session
        ses.expire_all()
        case = {"history": self.history, "execution": k}
        nodes = {n.call_hash: n for n in ses.query(CallNode).all()}
        edges = {}
        for e in ses.query(CallEdge).all():
            edges.setdefault(e.parent_id, []).append((e.call_order, e.child_id))
        jobs = {j.id: j for j in ses.query(DbJob).all()}
        before = info["nodes_before"]
        slots = {}                 # call hash -> set of (order, child hash) seen in some job's child list
        recorded_now = set(before)
        first_rec = self.first_rec
        for jid in [j for kind, j in w.events if kind == "F" and j in set(info["jobs"])]:
            r = w.jobs[jid]
            kid_hashes = [h for _, h in r.children if h]
            hit = is_hit(r)
            if not r.prov:
                if jid in jobs:
                    ctx.violation("C20-job-row-without-provenance", "a job that does not record provenance has a Job row", case,
                                  expected="no row", actual=w.jobs[jid].task_name)
                continue
            row = jobs.get(jid)
            if row is None:
                ctx.violation("C20-job-row-missing", "a job that ended with provenance has no Job row", case, expected=r.task_name)
                continue
            if row.call_hash != r.call_hash or bool(row.cached) != bool(r.was_cached) or row.end_time is None:
                ctx.violation("C20-job-row-call-hash", "Job row does not carry the job's call hash / cached flag / end", case,
                              expected=(r.call_hash, r.was_cached), actual=(row.call_hash, row.cached, row.end_time))
            node = nodes.get(r.call_hash)
            if node is None:
                ctx.violation("C20-node-missing", "a job that ended with provenance has no CallNode", case, expected=r.task_name)
                continue
            if node.task_hash != r.task_hash or node.args_hash != r.args_hash:
                ctx.violation("C20-node-fields", "CallNode task/args hash differ from the job's", case,
                              expected=(r.task_hash, r.args_hash), actual=(node.task_hash, node.args_hash))
            rh = self.result_hash(r)
            if hit and r.outcome == "fail":
                # an error served by CSE: the shared node holds the ErrorValue recorded by the job that raised it (its
                # traceback, hence its hash, is that job's); it must be the same error
                rh = node.value_hash
                vrow = ses.get(Value, node.value_hash)
                try:
                    stored_val = self.registry.deserialize(vrow.type, self.backend._get_value_data(vrow)[0])
                    same = type(stored_val).__name__ == "ErrorValue" and repr(stored_val.error) == repr(r.error)
                except Exception:  # noqa: BLE001
                    same = False
                if not same:
                    ctx.violation("C20-node-result", "the CallNode shared by a job whose error was served by CSE does not hold "
                                  "that error", case, expected=repr(r.error), actual=node.value_hash)
            if node.value_hash != rh:
                same_value = False
                if hit and r.outcome == "ok" and plain(r.result):
                    vrow = ses.get(Value, node.value_hash)
                    if vrow is not None:
                        stored = self.backend._get_value_data(vrow)[0]
                        same_value = pickle_identity_only(stored, r.result, self.registry.serialize(r.result))
                if same_value:
                    ctx.violation("C20-value-key-pickle-aliasing", "the value a cache-served job received re-hashes to another "
                                  "key than the one recorded for the same (equal) value", case, expected=rh, actual=node.value_hash)
                else:
                    ctx.violation("C20-node-result", "CallNode.value_hash is not the hash of the job's result", case,
                                  expected=rh, actual=node.value_hash)
            if not hit:
                want = hs(["CallNode", r.task_hash, r.args_hash, rh, sorted(kid_hashes)])
                if want != r.call_hash:
                    ctx.violation("C20-merkle-hash", "call hash is not hash(task, args, result, sorted child call hashes) of the "
                                  "executed tree", case, expected=want, actual=r.call_hash)
                for n, h in enumerate(kid_hashes):
                    slots.setdefault(r.call_hash, set()).add((n, h))
                if r.call_hash not in recorded_now:
                    # this job is the first writer of the node: its edges must mirror its child list
                    want_edges = sorted((n, h) for n, h in enumerate(kid_hashes) if h in recorded_now)
                    got_edges = sorted(edges.get(r.call_hash, []))
                    if want_edges != got_edges:
                        ctx.violation("C20-edges-mirror", "CallEdge rows of a freshly recorded node differ from the job's recorded "
                                      "children (position, child hash)", case, expected=want_edges, actual=got_edges)
                    # own children that ended with provenance are recorded before their parent
                    for cid, h in r.children:
                        c = w.jobs[cid]
                        if h and c.prov and (kid_hashes.index(h), h) not in edges.get(r.call_hash, []) \
                                and all(x != h for _, x in edges.get(r.call_hash, [])):
                            ctx.violation("C20-edge-missing", "no CallEdge to a child job that ended with provenance", case,
                                          expected=h)
                if r.call_hash not in recorded_now:
                    first_rec[r.call_hash] = len(first_rec)
                recorded_now.add(r.call_hash)
            else:
                if r.pre_call_hash not in nodes:
                    ctx.violation("C20-hit-node-missing", "cache handed over a call hash without CallNode", case)
        self.nodes_seen = set(nodes)
        # parent links, execution root, no unknown jobs
        for jid in info["jobs"]:
            r = w.jobs[jid]
            row = jobs.get(jid)
            prov = r.prov if r.prov is not None else self.unfinished_prov.get(jid, True)
            if row is not None:
                if row.parent_id != r.parent_id or row.execution_id != r.execution_id or row.task_hash != r.task_hash:
                    ctx.violation("C20-job-parent", "Job row parent / execution / task differ from the executed tree", case,
                                  expected=(r.parent_id, r.execution_id), actual=(row.parent_id, row.execution_id))
                if not r.started:
                    ctx.violation("C20-job-row-unstarted", "Job row for a job that never started", case)
            elif r.started and prov:
                ctx.violation("C20-job-row-missing", "a started job with provenance has no Job row", case, expected=r.task_name)
        for jid in jobs:
            if jid not in w.jobs:
                ctx.violation("C20-job-unknown", "Job row for a job the scheduler never created", case, actual=jid)
        ex = ses.query(Execution).filter_by(id=info["exec_id"]).one_or_none()
        root = w.jobs[info["root"]]
        root_prov = root.prov if root.prov is not None else self.unfinished_prov.get(root.id, True)
        if root_prov and root.started:
            if ex is None or ex.job_id != info["root"]:
                ctx.violation("C20-exec-root", "Execution.job_id is not the root job", case, expected=info["root"],
                              actual=ex and ex.job_id)
        # database-wide: every node is the pre-image of its own fields; edges are closed and positional
        for h, n in nodes.items():
            pre = self.log.pre.get(h)
            if not pre or pre[:4] != ["CallNode", n.task_hash, n.args_hash, n.value_hash] or pre[4] != sorted(pre[4]) \
                    or hs(pre) != h:
                ctx.violation("C20-merkle-db", "CallNode id is not the hash of its own fields and sorted children", case,
                              expected=pre, actual=(h, n.task_hash, n.args_hash, n.value_hash))
                continue
            es = sorted(edges.get(h, []))
            if any(c not in nodes for _, c in es):
                ctx.violation("C20-edge-dangling", "CallEdge to a call hash without CallNode", case, actual=es)
            if all(c in nodes for c in pre[4]) and h not in before and sorted(c for _, c in es) != pre[4]:
                # all children are recorded nodes: the id can be recomputed from the rows alone ...
                # unless a child was recorded only after this node (a prov=False child whose twin was recorded later)
                late = [c for c in pre[4] if c not in [x for _, x in es]]
                if not all(self.recorded_after(c, h) for c in late):
                    ctx.violation("C20-merkle-db-edges", "children in CallEdge rows are not the children in the id", case,
                                  expected=pre[4], actual=es)
            for n_, c in es:
                if h in slots and (n_, c) not in slots[h]:
                    ctx.violation("C20-edge-spurious", "CallEdge (position, child) matches no slot of the recording job", case,
                                  expected=sorted(slots[h]), actual=(n_, c))
        # values: key = hash of the deserialized value
        for v in ses.query(Value).all():
            self.stats["values"] += 1
            data = val = None
            try:
                data, has = self.backend._get_value_data(v)
                val = self.registry.deserialize(v.type, data)
                got = self.registry.get_hash(val)
            except Exception as e:  # noqa: BLE001
                got = "!" + type(e).__name__
            if got != v.value_hash:
                if data is not None and pickle_identity_only(data, val, self.registry.serialize(val)):
                    # equal plain data, different pickle bytes: the original object graph shared (or did not share) equal
                    # sub-objects differently from the unpickled one
                    ctx.violation("C20-value-key-pickle-aliasing", "a recorded container value does not re-hash to its key: "
                                  "pickle memoization makes the bytes depend on which equal atoms are the same object", case,
                                  expected=v.value_hash, actual=(got, v.type, repr(val)[:120]))
                else:
                    ctx.violation("C20-value-key", "a recorded value does not deserialize to a value whose hash is its key", case,
                                  expected=v.value_hash, actual=(got, v.type, repr(val)[:120]))
        # tags
        want = set()
        for jid in [j for kind, j in w.events if kind == "F"]:
            r = w.jobs[jid]
            if not r.prov:
                continue
            vt, jt, et, tt = self.intent(r)
            want |= {("Value", a, k, json.dumps(v)) for a, k, v in vt}
            want |= {("Job", jid, k, json.dumps(v)) for k, v in jt}
            want |= {("Execution", r.execution_id, k, json.dumps(v)) for k, v in et}
            want |= {("Task", r.task_hash, k, json.dumps(v)) for k, v in tt}
        got = {(t.entity_type.name, t.entity_id, t.key, json.dumps(t.value)) for t in ses.query(Tag).all()}
        if want - got:
            ctx.violation("C20-tag-missing", "a tag applied during the run is not attached to the intended entity", case,
                          expected=sorted(want - got)[:4], actual=sorted(got - want)[:4])
        elif got - want:
            ctx.violation("C20-tag-spurious", "a tag row that no job applied", case, expected=None, actual=sorted(got - want)[:4])
        self.stats["nodes"], self.stats["edges"], self.stats["tags"] = len(nodes), sum(map(len, edges.values())), len(got)

    def sem_nodes(self):
        """every recorded node by content instead of by value hash: (task, received arguments, result, children) with
        values written out (repr) - what the node set looks like if equal values had equal hashes"""
        w = self.watch
        by_hash = {}
        for jid in w.finish_order:
            r = w.jobs[jid]
            if r.call_hash and not is_hit(r):
                by_hash.setdefault(r.call_hash, r)
        memo = {}

        def sem(h):
            if h not in memo:
                r = by_hash.get(h)
                if r is None:
                    memo[h] = ("?", h)
                else:
                    res = repr(r.result) if r.outcome == "ok" else "!" + repr(r.error)
                    memo[h] = (r.task_name, repr(r.eval_args), res, tuple(sorted(repr(sem(k)) for _, k in r.children if k)))
            return memo[h]
        return {repr(sem(h)) for h in self.nodes_seen}

    def recorded_after(self, child, parent):
        """was the CallNode `child` first written after the CallNode `parent`?"""
        return self.first_rec.get(child, 1 << 60) > self.first_rec.get(parent, -1)


def plain(v):
    """plain data: ints, strings, bytes, None, bools and lists / tuples / dicts of plain data"""
    if v is None or isinstance(v, (bool, int, str, bytes)):
        return True
    if isinstance(v, (list, tuple)):
        return all(plain(x) for x in v)
    if isinstance(v, dict):
        return all(plain(k) and plain(x) for k, x in v.items())
    return False


def pickle_identity_only(stored, value, reserialized):
    """Two different pickles of *equal plain data*: the bytes (hence the value hash) differ only in how pickle's memo was
    used, i.e. in which equal sub-objects were one object when the value was first serialized (a str computed by a task vs the
    equal str read back from the cache; the same list object placed twice vs two equal lists)."""
    import pickle
    try:
        return stored != reserialized and plain(value) and pickle.loads(stored) == value == pickle.loads(reserialized)
    except Exception:  # noqa: BLE001
        return False


def has_fail(call):
    _, _, (kind, _, calls) = call
    return kind == "fail" or any(has_fail(c) for c in calls)


def size(call):
    return 1 + sum(size(c) for c in call[2][2])


def run_history(ctx, history, pending, check_schedule=True):
    a = Audit(ctx, history)
    req = a.execute()
    trivial = all(size(e["call"]) == 1 for e in history)
    ctx.case(key=None if trivial else repr(history),
             sample={"history": repr(history)[:300], "stats": dict(a.stats)},
             executions=len(history), collapsed=min(a.stats["collapsed"], 3), hits=min(a.stats["hits"], 5),
             noprov=min(a.stats["noprov"], 3), failed_jobs=min(a.stats["failed"], 3), exec_failed=a.stats["exec_failed"],
             unfinished=min(a.stats["unfinished"], 2), single_reduction=min(a.stats["cached_single"], 3),
             jobs=(a.stats["jobs"] // 5) * 5, tags=min(a.stats["tags"], 6))
    for k in ("nodes", "edges", "values"):
        ctx.count("rows_" + k, "total", a.stats[k])
    if a.inexpressible:
        ctx.count("skipped", a.inexpressible)
        return a
    a.request = req
    pending.append(a)
    keep = a                    # only request / snapshots / history are needed for the comparison with the model
    # schedule independence of the ids (the role of sorted()): same history under another completion order
    if check_schedule and not any(has_fail(e["call"]) for e in history):
        other = [dict(e, policy={"fifo": "lifo", "lifo": "rand", "rand": "fifo"}[e["policy"]]) for e in history]
        b = Audit(ctx, other)
        b.execute()
        if b.inexpressible:
            keep.watch = keep.log = keep.backend = keep.registry = keep.exec_info = None
            return a
        # names are per audit; compare the digests instead (two runs of the real code, no model involved)
        d1, d2 = a.nodes_seen, b.nodes_seen
        ctx.count("schedule_pairs", "compared")
        if d1 != d2:
            if a.sem_nodes() == b.sem_nodes():
                # same tasks, arguments, results and children everywhere: only hashes of equal values differ
                ctx.violation("C20-value-key-pickle-aliasing", "call hashes of a failure-free history change with the completion "
                              "order although every node has equal content: equal result values got different value hashes",
                              {"history": history, "other": other}, expected=len(d1), actual=len(d2))
            else:
                ctx.violation("C20-id-depends-on-completion-order", "the set of call hashes of a failure-free history changes with "
                              "the completion order", {"history": history, "other": other}, expected=len(d1), actual=len(d2))
    keep.watch = keep.log = keep.backend = keep.registry = keep.exec_info = None
    return a


def compare(ctx, a, reply):
    if reply in ("bad-op", "bad-value"):
        ctx.mismatch("model driver rejected the request", case=a.request[:2000], model=reply, impl="")
        return
    dumps = reply.split(" | ")
    for k, (m, snap) in enumerate(zip(dumps, a.snapshots)):
        md = Audit.parse_model_dump(m)
        for tab in ("nodes", "edges", "jobs", "execs", "tags"):
            if md.get(tab, []) != snap[tab]:
                ms, im = set(md.get(tab, [])), set(snap[tab])
                ctx.mismatch("table %s after execution %d differs from the model" % (tab, k),
                             case={"history": a.history, "request": a.request[:4000]},
                             model=sorted(ms - im)[:6], impl=sorted(im - ms)[:6])
                return


def flush(ctx, pending):
    """one driver process for all histories"""
    replies = ctx.model("C20", [a.request for a in pending])
    for a, reply in zip(pending, replies):
        compare(ctx, a, reply)
    del pending[:]


def replay_pickle_aliasing_witness(ctx):
    """the known finding, replayed directly on the real backend on every run: a list holding two equal lists, one computed and
    one read back through pickle, is recorded under a key it does not re-hash to"""
    import pickle
    import gm_common as G
    backend = G.fresh_backend()
    x = ["c", [0, 1]]
    y = pickle.loads(pickle.dumps(x, protocol=3))
    value = [x, y]
    key = backend.record_value(value)
    row_value, ok = backend.get_value(key)
    rehash = backend.type_registry.get_hash(row_value)
    G.release(backend)
    ctx.case(key="witness-pickle-aliasing", witness="pickle-aliasing")
    ctx.expect_known("C20-value-key-pickle-aliasing", reproduced=(ok and row_value == value and rehash != key),
                     case={"value": "[x, pickle.loads(pickle.dumps(x))] with x = ['c', [0, 1]]", "key": key, "rehash": rehash},
                     what="a recorded container value does not re-hash to its key: the value hash is the hash of the pickle bytes, "
                          "which depend on which equal sub-objects are one object")


# ------------------------------------------------------------------ fault histories (commit structure of record_call_node)
def gen_fault_call(rng, depth, counter):
    """call trees for the fault histories: every job records provenance, every leaf has its own label (no equal calls: the
    graph of a recovered run must be comparable row by row with the fault-free run), no `comb` (its string results would bring in
    the pickle-aliasing finding)"""
    counter[0] += 1
    lab = counter[0]
    variant = rng.choice(["A", "A", "B", "T", "S"])
    k = rng.random()
    if depth <= 0 or k < 0.3:
        return (variant, "", ("leaf", lab, ()))
    if k < 0.65:
        kind, n = "par", rng.choice([1, 2, 3])
    elif k < 0.8:
        kind, n = "then", 2
    elif k < 0.9:
        kind, n = "tags", 1
    else:
        return (variant, "", ("catch", lab, ((rng.choice(["A", "B"]), "", ("par", lab + 500, (
            gen_fault_call(rng, 0, counter), ("A", "", ("fail", lab + 700, ()))))),)))
    return (variant, "", (kind, lab, tuple(gen_fault_call(rng, depth - 1, counter) for _ in range(n))))


FAULT_CORPUS = [
    c("A", S("par", 1, c("A", leaf(2)), c("B", leaf(3)))),                            # a parent with two child calls
    c("A", S("par", 1, c("A", leaf(2)), c("B", S("par", 4, c("A", leaf(5)))))),       # parent, child, grandchild
    c("A", S("par", 1, c("A", leaf(2)), c("B", leaf(3)), c("A", S("par", 4, c("A", leaf(5)))))),
    c("A", S("then", 1, c("A", S("par", 2, c("A", leaf(3)))), c("T", S("tags", 4, c("A", leaf(5)))))),
]


def read_graph(db_path):
    import sqlite3
    con = sqlite3.connect(db_path)
    try:
        nodes = {r[0]: r[1:] for r in con.execute("select call_hash, task_hash, args_hash, value_hash from call_node")}
        edges = sorted(tuple(r) for r in con.execute("select parent_id, child_id, call_order from call_edge"))
        jobs = [tuple(r) for r in con.execute("select id, parent_id, call_hash, end_time from job")]
        return nodes, edges, jobs
    finally:
        con.close()


def graph_defects(nodes, edges, jobs=None):
    """whole-database Merkle check on the rows alone (programs of the fault histories record every job): every CallNode id is
    hash(task, args, result, sorted children of its CallEdge rows); edges are closed; with `jobs`: the node of every ended
    child job is a CallEdge child of the node of its ended parent job"""
    import redun.hashing as hashing
    hs = getattr(hashing.hash_struct, "__wrapped__", hashing.hash_struct)
    kids = {}
    out = []
    for p, ch, n in edges:
        kids.setdefault(p, []).append(ch)
        if p not in nodes or ch not in nodes:
            out.append(("edge-dangling", p[:8], ch[:8], n))
    for h, (t, a, v) in nodes.items():
        if hs(["CallNode", t, a, v, sorted(kids.get(h, []))]) != h:
            out.append(("node-is-not-hash-of-its-rows", h[:8], len(kids.get(h, []))))
    if jobs is not None:
        call = {j[0]: j[2] for j in jobs if j[2] and j[3]}
        for jid, parent, ch, end in jobs:
            if parent in call and ch and end and ch not in kids.get(call[parent], []):
                # a parent that failed may have ended before this child did; its node then rightly lacks the child
                if ("node-is-not-hash-of-its-rows", call[parent][:8], len(kids.get(call[parent], []))) in out:
                    out.append(("child-job-node-is-not-an-edge-child", call[parent][:8], ch[:8]))
    return out


def fault_program(ctx, call, positions, label):
    """fault-free run (every durable state checked), then one history per commit position: a transient OperationalError at
    that commit (db_retry), and a process death right after it followed by a re-run on the same file"""
    import os
    import shutil
    import tempfile
    import ctl_db as D
    import gm_tasks as T
    case0 = {"fault_program": call}
    tmp = tempfile.mkdtemp(prefix="c20f", dir="/dev/shm" if os.path.isdir("/dev/shm") else None)
    n_hist = 0
    try:
        # a migrated, empty database file: copied for every history (running the alembic migrations costs 0.25 s)
        template = os.path.join(tmp, "template.db")
        D.close_scheduler(D.new_scheduler(template))

        def attempt(path, tap_factory):
            """-> (outcome, tap) ; outcome 'ok' | 'err:<type>' | 'crash'"""
            if not os.path.exists(path):
                shutil.copyfile(template, path)
            s = D.new_scheduler(path)
            s.log = lambda *a, **k: None
            tap = tap_factory(s.backend) if tap_factory else None
            try:
                s.run(T.call(call))
                out = "ok"
            except D.Crash:
                out = "crash"
            except Exception as e:  # noqa: BLE001
                out = "err:" + type(e).__name__
            finally:
                if tap is not None:
                    tap.remove()
                D.close_scheduler(s)
            return out, tap

        # --- fault-free run; every durable state (after each writing commit) must already be Merkle-consistent
        base = os.path.join(tmp, "base.db")
        durable_bad = []

        def on_commit(k):
            nodes, edges, _ = read_graph(base)
            d = graph_defects(nodes, edges)
            if d and not durable_bad:
                durable_bad.append((k, d[:3]))

        out0, tap0 = attempt(base, lambda b: D.CommitTap(b, on_commit=on_commit))
        ncommits = tap0.n
        ctx.case(key=("durable", repr(call)), fault="none", commits=min(ncommits // 10 * 10, 90))
        if durable_bad:
            ctx.violation("C20-durable-node-without-edges", "a durable state of a fault-free run (the database right after a commit) "
                          "holds a CallNode that is not the hash of its own rows and CallEdge children", dict(case0, commit=durable_bad[0][0]),
                          expected="every committed CallNode comes with its CallEdges", actual=durable_bad[0][1], kind="crash_point")
        nodes0, edges0, jobs0 = read_graph(base)
        want = (sorted(nodes0.items()), edges0)
        d0 = graph_defects(nodes0, edges0, jobs0)
        if d0:
            ctx.violation("C20-merkle-db-rows", "after a fault-free run a CallNode is not the hash of its rows / a child job's node "
                          "is not an edge child", case0, expected=[], actual=d0[:4])
        if out0.startswith("err") and out0 != "err:ValueError":
            ctx.mismatch("harness: the fault-free run of a fault program failed", case0, model="ok", impl=out0)
            return 0
        # --- one fault per commit position
        for k in positions(ncommits):
            for mode in ("transient", "death"):
                path = os.path.join(tmp, "f.db")
                for suffix in ("", "-wal", "-shm", "-journal"):
                    if os.path.exists(path + suffix):
                        os.remove(path + suffix)
                if mode == "transient":
                    out, tap = attempt(path, lambda b: D.FaultTap(b, k, "commit"))
                    fired = tap.fired_at is not None
                else:
                    out, tap = attempt(path, lambda b: D.CommitTap(b, crash_after=k))
                    fired = out == "crash"
                recovered = False
                if out != "ok" and out != out0:
                    # the process died, or the error was not absorbed by db_retry: run the workflow again on the same file
                    out2, _ = attempt(path, None)
                    recovered = True
                    if out2 != out0:
                        ctx.violation("C20-rerun-after-fault-fails", "the re-run after a fault ends differently from the fault-free run",
                                      dict(case0, commit=k, fault=mode), expected=out0, actual=out2, kind="crash_point")
                        continue
                n_hist += 1
                ctx.case(key=(label, mode, k, repr(call)), fault=mode, fired=fired, rerun=recovered)
                nodes, edges, jobs = read_graph(path)
                case = dict(case0, commit=k, fault=mode)
                d = graph_defects(nodes, edges, jobs)
                if d:
                    ctx.violation("C20-node-without-edges-after-fault", "after a fault at one commit and recovery (db_retry or re-run on "
                                  "the same database) a CallNode is not hash(task, args, result, sorted children of its CallEdge rows)",
                                  case, expected="same CallNode/CallEdge rows as the fault-free run", actual=d[:4], kind="crash_point")
                elif (sorted(nodes.items()), edges) != want and not has_fail(call):
                    # (with a failing job the comparison is not demanded: which children a failed parent had seen when it was
                    # rejected differs between a run and a re-run that finds some of them in the cache - C07's subject)
                    lost_e = [e for e in want[1] if e not in edges]
                    extra_e = [e for e in edges if e not in want[1]]
                    ctx.violation("C20-graph-differs-after-fault", "after a fault at one commit and recovery the CallNode / CallEdge rows "
                                  "differ from those of the fault-free run", case, expected=dict(nodes=len(want[0]), edges=len(want[1])),
                                  actual=dict(nodes=len(nodes), lost_edges=[(p[:8], c_[:8], n) for p, c_, n in lost_e][:4],
                                              extra_edges=[(p[:8], c_[:8], n) for p, c_, n in extra_e][:4]), kind="crash_point")
    finally:
        shutil.rmtree(tmp, ignore_errors=True)
    return n_hist


def fault_histories(ctx):
    import logging
    import ctl_db as D
    D.quiet()                       # db_retry logs every injected error
    try:
        _fault_histories(ctx)
    finally:
        logging.disable(logging.NOTSET)
        logging.getLogger("redun").setLevel(logging.INFO)


def _fault_histories(ctx):
    rng = ctx.rng
    every = lambda n: range(1, n + 1)                                       # noqa: E731
    for i, call in enumerate(FAULT_CORPUS[: ctx.n(1, 4)]):
        fault_program(ctx, call, every, "corpus%d" % i)
    for i in range(ctx.n(2, 8)):
        call = gen_fault_call(rng, rng.choice([1, 2]), [10 * i])
        # generated programs: a seeded sample of the commit positions (all of them in the thorough tier)
        if ctx.tier == "quick":
            pos = lambda n: sorted(rng.sample(range(1, n + 1), min(n, 4)))   # noqa: E731
        else:
            pos = every
        fault_program(ctx, call, pos, "gen%d" % i)


def run(ctx):
    rng = ctx.rng
    pending = []
    replay_pickle_aliasing_witness(ctx)
    fault_histories(ctx)
    for h in CORPUS:
        run_history(ctx, h, pending)
    for _ in range(ctx.n(45, 800)):
        run_history(ctx, gen_history(rng), pending)
    flush(ctx, pending)


def replay(ctx, case):
    c = case.get("case") or {}

    def tup(x):
        return tuple(tup(y) for y in x) if isinstance(x, list) else x
    if isinstance(c, dict) and c.get("fault_program") is not None:
        call = tup(c["fault_program"])
        k = c.get("commit")
        print("replay fault history:", call, "commit", k, c.get("fault"))
        import logging
        import ctl_db as D
        D.quiet()
        try:
            fault_program(ctx, call, (lambda n: [k] if k and k <= n else range(1, n + 1)), "replay")
        finally:
            logging.disable(logging.NOTSET)
        return
    h = c.get("history") if isinstance(c, dict) else None
    if h is None:
        print("replay: no history in the case; running the normal check")
        return run(ctx)

    def tup(x):
        return tuple(tup(y) for y in x) if isinstance(x, list) else x
    h = [dict(call=tup(e["call"]), policy=e["policy"], cache=e["cache"]) for e in h]
    print("replay history:", h)
    pending = []
    run_history(ctx, h, pending)
    flush(ctx, pending)
