"""C31 — value storage location is transparent (Value row / value store / FileCache file).
Model: lean/RedunModel/Model/ValueStore.lean."""
import json
import logging
import os
import shutil
import sys
import tempfile

ID = "C31"
READY = True
LEAN_MODULES = ["RedunModel.Props.C31"]
LEAN_DRIVERS = ["C31"]
THEOREMS = [
    "RedunModel.C31.inv_init",
    "RedunModel.C31.inv_record",
    "RedunModel.C31.inv_env",
    "RedunModel.C31.reachable_inv",
    "RedunModel.C31.roundtrip",
    "RedunModel.C31.roundtrip_reachable",
    "RedunModel.C31.location_transparent",
    "RedunModel.C31.too_large_rejected",
    "RedunModel.C31.within_limit_accepted",
    "RedunModel.C31.never_a_different_value",
    "RedunModel.C31.missing_is_absent",
    "RedunModel.C31.outage_is_absent",
    "RedunModel.C31.missing_file_cache_is_absent",
    "RedunModel.C31.record_twice",
    "RedunModel.C31.record_again_same_answer",
    "RedunModel.C31.rerecord_heals",
    "RedunModel.C31.serialize_repairs_partial_file",
    "RedunModel.C31.rerecord_after_faulted_first_write",
    "RedunModel.C31.put_existing_is_noop",
    "RedunModel.C31.rerecord_store_unchanged",
    "RedunModel.C31.watch_reads_value",
    "RedunModel.C31.get_never_fails_with_store",
    "RedunModel.C31.zero_length_remark",
]
TRUSTED = [
    "hashes are symbolic: a value hash is (kind, serialised bytes) — hash_tag_bytes('Value', data) as a perfect hash; the "
    "tie maps real digests back to (tag, data) through a hook on redun.value.hash_tag_bytes",
    "modelled, not verified: pickle round trip (pickle_loads(pickle_dumps(v)) == v), sqlite row insert/lookup by primary "
    "key, file write/read/exists of the value store and FileCache files, sys.getsizeof(bytes) = len + 33 (checked at run "
    "time), hash_bytes as the injective naming function of FileCache files",
]
ASSUMPTIONS = [
    "values are small picklable python values (bytes, str, list, dict, int) and instances of one FileCache-registered "
    "class; serialisations are non-empty (a zero-byte serialisation is indistinguishable from the placeholder: remark "
    "zero_length_remark, outside the quantifier)",
    "thresholds are per record call (value_store_min_size, max_value_size set on the backend before the call); a value "
    "store may be attached to a backend that had none, never detached (a placeholder row without a configured store "
    "raises AssertionError: mirrored by the model, not generated)",
    "bytes go missing by deleting the whole store file / FileCache file of one value, or by an injected ENOSPC inside the "
    "write of a FileCache file (file left existing and empty); such a fault is always followed by a record of the same "
    "value before the next read (a read of the partial file in between raises in redun — pickle of a partial file — and "
    "is not staged)",
    "the store is a local (non-atomic) directory. A re-record may be staged with a window inside the store's write of that "
    "object (harness wrapper around LocalFileSystem._open for that one path): the other backend reads the value, or the "
    "write fails with ENOSPC, between open-for-writing and close. Staged only when the object exists; demanded only for a "
    "value recorded before whose bytes were never deleted: the read gives the value, and after the fault the value still "
    "reads back (first writes and healing writes of a missing object are not atomic in redun and are not staged)",
    "two backends (own engine, session and ValueStore object each) share one sqlite file and one store directory and take "
    "turns, never concurrently (the IntegrityError branch of record_value is not exercised); the model has one shared "
    "state and no per-backend state; a read may happen while the store directory is moved away (absent then; the state "
    "is unchanged and later reads must answer from the store again)",
    "the oracle demands of a re-record after deleted bytes: a call that offloads (store configured, getsizeof >= min) "
    "restores the store object, any call restores the FileCache file — then the value must read back (rerecord_heals); at "
    "workflow level (real Scheduler, value store, thread executor): run, run, delete all store objects, run, run, run must "
    "execute the task 1,0,1,0,0 times with the same result",
]
RULE = ("histories (6-14 ops) of record / get (by either of two backends sharing the database and the store) / get during a "
        "store outage / delete store file / delete FileCache file / attach store over 3-4 values per "
        "case, thresholds chosen at len(data)+33 -1/0/+1, 0, 100, huge (min) and len(data) -1/0/+1, small, default (max); "
        "after every op the reply and the placement of every value (row inline / placeholder, store files, FileCache files) "
        "are compared with the model; the oracle re-reads every recorded value. distinct = distinct history texts; "
        "non-trivial = a record that offloads or is rejected, or a deletion")
LEVEL_TEXT = ("Proved in Lean for all values, thresholds and reachable backend states (full strength): roundtrip / "
              "roundtrip_reachable (get(record v) = v with key hash(v), for every threshold configuration, in every state "
              "reachable by records, store attachment and FileCache deletions), location_transparent (same answer with and "
              "without a store, any thresholds), too_large_rejected (error, no row, no store file) and within_limit_accepted, "
              "never_a_different_value (any successful read returns a value whose hash is the requested hash), "
              "missing_is_absent / missing_file_cache_is_absent, record_twice (idempotent) / record_again_same_answer / "
              "rerecord_heals. Tied to /repo by replaying histories on a real RedunBackendDb (sqlite) with a real ValueStore "
              "and FileCache directory.")
LEVEL_NOTE = ("SQL, pickle and the filesystem are modelled as finite maps; concurrency (IntegrityError path), remote value "
              "store paths (s3 etc.) and partially written files are outside the model.")
TECHNIQUE = "Lean 4 proof (invariant over reachable states) + differential replay of record/get/delete histories"

_S = {"types": None}


def types():
    if _S["types"] is None:
        from redun.value import FileCache

        class Blob:
            def __init__(self, data):
                self.data = data

            def __eq__(self, other):
                return isinstance(other, Blob) and other.data == self.data

            def __hash__(self):
                return hash(self.data)
        Blob.__module__ = __name__
        Blob.__qualname__ = "Blob"
        globals()["Blob"] = Blob

        class BlobType(FileCache):
            type = Blob
            type_name = "verif_gj_c31.Blob"
            base_path = "."
        _S["types"] = (Blob, BlobType)
    return _S["types"]


# ---------------------------------------------------------------------- generator
def gen_value(rng):
    k = rng.random()
    if k < 0.3:
        return ("blob", bytes(rng.randrange(256) for _ in range(rng.choice([0, 1, 3, 20, 60]))))
    if k < 0.5:
        return ("py", bytes(rng.randrange(256) for _ in range(rng.choice([0, 1, 5, 40, 90]))))
    if k < 0.65:
        return ("py", "".join(rng.choice("abé日 x") for _ in range(rng.choice([0, 1, 7, 30]))))
    if k < 0.8:
        return ("py", [rng.randrange(-5, 300) for _ in range(rng.choice([0, 1, 4, 25]))])
    if k < 0.9:
        return ("py", {"k%d" % i: rng.randrange(10) for i in range(rng.choice([0, 1, 3]))})
    return ("py", rng.choice([0, 1, -1, 10 ** 12, None, True, 1.5]))


def gen_case(rng, nops, datalen):
    """datalen(value) -> len of its serialisation (needs the real serializer; values only)"""
    store = rng.random() < 0.6
    vals = []
    while len(vals) < rng.choice([2, 3, 4]):
        v = gen_value(rng)
        if v not in vals:
            vals.append(v)
    ops = []
    for _ in range(nops):
        k = rng.random()
        i = rng.randrange(len(vals))
        n = datalen(vals[i])
        if k < 0.45:
            mn = rng.choice([0, 0, n + 33 - 1, n + 33, n + 33 + 1, 100, 10 ** 9])
            mx = rng.choice([n - 1, n, n + 1, 10, 10 ** 9, 10 ** 9, 10 ** 9])
            ops.append(("record", i, max(mn, 0), max(mx, 0), rng.randrange(2)))
        elif k < 0.62:
            ops.append(("get", i, rng.randrange(2)))
        elif k < 0.70:
            a = rng.randrange(2)
            ops.append((rng.choice(["recordwatch", "recordwatch", "recordfault"]), i, rng.choice([0, 0, n + 33, 10 ** 9]),
                        rng.choice([10 ** 9, 10 ** 9, n - 1]) if n else 10 ** 9, a))
            ops.append(("get", i, 1 - a))
        elif k < 0.75:
            ops.append(("getaway", i, rng.randrange(2)))
            ops.append(("get", i, rng.randrange(2)))
        elif k < 0.86:
            ops.append(("dropstore", i))
            if rng.random() < 0.5:
                a = rng.randrange(2)
                ops.append(("get", i, a))                       # backend a sees the object missing ...
                ops.append(("record", i, rng.choice([0, 0, n + 33, 10 ** 9]), 10 ** 9, rng.randrange(2)))   # ... someone re-records
                ops.append(("get", i, a))
        elif k < 0.93:
            blobs = [j for j, v in enumerate(vals) if v[0] == "blob"]
            if blobs and rng.random() < 0.5:
                j = rng.choice(blobs)            # interrupted write of the FileCache file, then recorded again, then read
                ops.append(("faultfc", j, rng.randrange(2)))
                ops.append(("record", j, rng.choice([0, 10 ** 9]), 10 ** 9, rng.randrange(2)))
                ops.append(("get", j, rng.randrange(2)))
            else:
                ops.append(("dropfc", rng.choice(blobs)) if blobs else ("get", i))
        else:
            ops.append(("attach",))
    return dict(store=store, vals=vals, ops=ops)


BIG = 10 ** 9
CORPUS = [
    # offloaded, read back, bytes deleted -> absent, recorded again -> back
    dict(store=True, vals=[("py", b"x" * 50)], ops=[("record", 0, 0, BIG), ("get", 0), ("dropstore", 0), ("get", 0),
                                                       ("record", 0, 0, BIG), ("get", 0)]),
    # deleted bytes, re-recorded below the threshold: the placeholder row stays, still absent (not a different value)
    dict(store=True, vals=[("py", b"x" * 50)], ops=[("record", 0, 0, BIG), ("dropstore", 0), ("record", 0, BIG, BIG), ("get", 0)]),
    # thresholds exactly at getsizeof(data) = len + 33 (len(pickle(b"x"*50)) computed at run time: see thresholds())
    dict(store=True, vals=[("py", b"y" * 50), ("py", b"z" * 50)], ops=[("record@", 0, "eq"), ("record@", 1, "above"), ("get", 0), ("get", 1)]),
    # too large: rejected, nothing written; exactly at the limit: accepted
    dict(store=True, vals=[("py", b"q" * 30), ("py", b"r" * 30)], ops=[("record@", 0, "toolarge"), ("get", 0), ("record@", 1, "atlimit"), ("get", 1)]),
    dict(store=False, vals=[("py", [1, 2, 3])], ops=[("record", 0, 0, 3), ("get", 0), ("record", 0, 0, BIG), ("get", 0)]),
    # first without a store, then with one: the inline row wins, the store file is written as well
    dict(store=False, vals=[("py", "hello")], ops=[("record", 0, 0, BIG), ("attach",), ("record", 0, 0, BIG), ("get", 0), ("dropstore", 0), ("get", 0)]),
    # FileCache: file deleted -> absent; recorded again -> back; file name itself offloaded to the store
    dict(store=True, vals=[("blob", b"payload")], ops=[("record", 0, BIG, BIG), ("get", 0), ("dropfc", 0), ("get", 0), ("record", 0, BIG, BIG), ("get", 0)]),
    dict(store=True, vals=[("blob", b"payload2")], ops=[("record", 0, 0, BIG), ("get", 0), ("dropstore", 0), ("get", 0), ("record", 0, 0, BIG),
                                                           ("dropfc", 0), ("get", 0)]),
    # recorded twice under different configurations
    dict(store=True, vals=[("py", {"a": 1})], ops=[("record", 0, BIG, BIG), ("record", 0, 0, BIG), ("get", 0), ("record", 0, BIG, BIG), ("get", 0)]),
    # two backends on one database + one store: A records, the object is deleted, A reads absent, B re-records it,
    # A re-records (a no-op for A: the object exists), A must read the value back
    dict(store=True, vals=[("py", b"w" * 60)], ops=[("record", 0, 0, BIG, 0), ("get", 0, 0), ("dropstore", 0), ("get", 0, 0), ("record", 0, 0, BIG, 1),
                                                       ("get", 0, 1), ("record", 0, 0, BIG, 0), ("get", 0, 0)]),
    dict(store=True, vals=[("blob", b"shared")], ops=[("record", 0, 0, BIG, 1), ("dropstore", 0), ("get", 0, 0), ("get", 0, 1), ("record", 0, 0, BIG, 0),
                                                        ("get", 0, 1), ("get", 0, 0)]),
    # the store directory is moved away during one read and moved back: absent then, present afterwards
    dict(store=True, vals=[("py", "v" * 70), ("py", [1, 2])], ops=[("record", 0, 0, BIG, 0), ("record", 1, BIG, BIG, 0), ("getaway", 0, 0), ("getaway", 1, 0),
                                                                    ("get", 0, 0), ("get", 0, 1), ("getaway", 0, 1), ("record", 0, 0, BIG, 1), ("get", 0, 1)]),
    # an offloaded value is recorded AGAIN while the other backend reads it inside the store's write window, and again with a
    # write fault (ENOSPC) inside that window: the value must stay readable (the unchanged code never reopens an existing object)
    dict(store=True, vals=[("py", b"u" * 80)], ops=[("record", 0, 0, BIG, 0), ("get", 0, 1), ("recordwatch", 0, 0, BIG, 0), ("get", 0, 1),
                                                       ("recordwatch", 0, 0, BIG, 1), ("recordfault", 0, 0, BIG, 0), ("get", 0, 1), ("get", 0, 0),
                                                       ("record", 0, 0, BIG, 1), ("get", 0, 0)]),
    dict(store=True, vals=[("blob", b"big payload"), ("py", "t" * 90)], ops=[("record", 0, 0, BIG, 1), ("record", 1, 0, BIG, 1), ("recordfault", 1, 0, BIG, 1),
                                                                               ("get", 1, 0), ("recordwatch", 0, 0, BIG, 0), ("get", 0, 1), ("recordwatch", 1, 0, 5, 0),
                                                                               ("get", 1, 1)]),
    # the FIRST write of a FileCache file is interrupted (file exists, partial); recording again must repair it
    dict(store=True, vals=[("blob", b"first write fails")], ops=[("faultfc", 0, 0), ("record", 0, BIG, BIG, 0), ("get", 0, 1), ("get", 0, 0)]),
    dict(store=False, vals=[("blob", b"p2"), ("py", 3)], ops=[("record", 0, 0, BIG, 0), ("get", 0, 0), ("faultfc", 0, 1), ("record", 0, 0, BIG, 1),
                                                                ("get", 0, 0), ("faultfc", 0, 0), ("record", 0, 0, BIG, 0), ("get", 0, 1)]),
    # never recorded
    dict(store=True, vals=[("py", 5), ("blob", b"")], ops=[("get", 0), ("get", 1), ("dropstore", 0), ("record", 1, 0, BIG), ("get", 1)]),
]


# ---------------------------------------------------------------------- real side
class Real:
    def __init__(self):
        import redun.value as rv
        from redun.backends.db import RedunBackendDb
        from redun.backends.db import Value as ValueRow
        from redun.backends.value_store import ValueStore
        from redun.hashing import hash_bytes
        from redun.utils import pickle_dumps
        self.rv, self.ValueRow, self.ValueStore = rv, ValueRow, ValueStore
        self.pickle_dumps, self.hash_bytes = pickle_dumps, hash_bytes
        self.Blob, self.BlobType = types()
        self.root = os.path.realpath(tempfile.mkdtemp(prefix="verif-gJ-c31-"))
        self.vs_dir, self.fc_dir = os.path.join(self.root, "vs"), os.path.join(self.root, "fc")
        self.BlobType.base_path = self.fc_dir
        self.pre = {}                       # digest -> data bytes (argument of hash_tag_bytes("Value", data))
        self._orig_htb = rv.hash_tag_bytes

        def htb(tag, data):
            d = self._orig_htb(tag, data)
            if tag == "Value":
                self.pre[d] = bytes(data)
            return d
        rv.hash_tag_bytes = htb
        # a window inside the value store's write of ONE object: between "opened for writing" and "closed" the harness can
        # let the other backend read (interleaving) or make the write fail with ENOSPC (fault).  Armed per op.
        import errno
        import redun.file as rf
        self.rf, self.arm = rf, None
        self._orig_open = rf.LocalFileSystem._open
        real = self

        class Window:
            def __init__(self, f, arm):
                self._f, self._arm = f, arm

            def write(self, data):
                if self._arm["mode"] == "fault0":          # the write fails before a single byte is on disk
                    self._arm["fired"] = True
                    raise OSError(errno.ENOSPC, "No space left on device (injected)")
                half = len(data) // 2
                self._f.write(data[:half])
                self._f.flush()
                arm = self._arm
                if arm["mode"] == "fault":
                    arm["fired"] = True
                    raise OSError(errno.ENOSPC, "No space left on device (injected)")
                if not arm["fired"]:
                    arm["fired"] = True
                    arm["result"] = arm["reader"]()
                return self._f.write(data[half:])

            def close(self):
                self._f.close()

            def __enter__(self):
                return self

            def __exit__(self, *exc):
                self.close()

            def __getattr__(self, name):
                return getattr(self._f, name)

        def _open(fs, path, mode, **kw):
            arm = real.arm
            stream = real._orig_open(fs, path, mode, **kw)
            if arm is not None and path == arm["path"] and set(mode) & set("wax+"):
                arm["opened"] = True
                return Window(stream, arm)
            return stream
        rf.LocalFileSystem._open = _open
        # two backends ("processes") sharing one sqlite file and one value store directory; each has its own ValueStore
        # object, session and engine
        uri = "sqlite:///" + os.path.join(self.root, "redun.db")
        self.backends = [RedunBackendDb(db_uri=uri), RedunBackendDb(db_uri=uri)]
        for be in self.backends:
            be.load()
        self.backend = self.backends[0]

    def close(self):
        self.rv.hash_tag_bytes = self._orig_htb
        self.rf.LocalFileSystem._open = self._orig_open
        shutil.rmtree(self.root, ignore_errors=True)

    def reset(self, store):
        b = self.backend
        b.session.query(self.ValueRow).delete()
        b.session.commit()
        for d in (self.vs_dir, self.fc_dir):
            shutil.rmtree(d, ignore_errors=True)
        os.makedirs(self.fc_dir)
        shutil.rmtree(self.vs_dir + ".away", ignore_errors=True)
        for be in self.backends:
            be.session.rollback()
            be.value_store = self.ValueStore(self.vs_dir) if store else None
        self.kind = {}                      # digest -> "T"/"F" (FileCache kind or not)

    def obj(self, v):
        return self.Blob(v[1]) if v[0] == "blob" else v[1]

    def payload(self, v):
        return self.pickle_dumps(self.obj(v))

    def fname(self, v):
        return os.path.join(self.fc_dir, self.hash_bytes(self.payload(v))).encode("utf8")

    def data(self, v):
        """the bytes record_value will store / hash for this value (input preparation only)"""
        return self.fname(v) if v[0] == "blob" else self.payload(v)

    def digest(self, v):
        d = self._orig_htb("Value", self.data(v))
        self.pre.setdefault(d, self.data(v))
        self.kind.setdefault(d, "T" if v[0] == "blob" else "F")
        return d

    def r_key(self, digest):
        if digest not in self.pre:
            return "(?%s)" % digest
        return "(%s b%s)" % (self.kind.get(digest, "?"), self.pre[digest].hex())

    def r_val(self, x):
        if isinstance(x, self.Blob):
            return "(fc b%s)" % self.pickle_dumps(x).hex()
        return "(plain b%s)" % self.pickle_dumps(x).hex()

    def dump(self):
        b = self.backend
        b.session.rollback()
        rows = sorted("(%s %s)" % (self.r_key(r.value_hash), "placeholder" if len(r.value) == 0 else "inline")
                      for r in b.session.query(self.ValueRow).all())
        st = []
        if os.path.isdir(self.vs_dir):
            for d, _, files in os.walk(self.vs_dir):
                for f in files:
                    st.append(self.r_key(os.path.basename(d) + f))
        fc = sorted("b" + os.path.join(self.fc_dir, f).encode().hex() for f in os.listdir(self.fc_dir))
        return "((db%s) (store%s) (fc%s))" % ("".join(" " + x for x in rows), "".join(" " + x for x in sorted(st)),
                                               "".join(" " + x for x in fc))


def thresholds(n, which):
    return {"eq": (n + 33, BIG), "above": (n + 34, BIG), "toolarge": (0, n - 1), "atlimit": (0, n)}[which]


def concretise(real, case):
    """resolve the symbolic corpus thresholds (`record@`) with the real serialisation length"""
    ops = []
    for op in case["ops"]:
        if op[0] == "record@":
            mn, mx = thresholds(len(real.data(case["vals"][op[1]])), op[2])
            ops.append(("record", op[1], mn, mx))
        else:
            ops.append(tuple(op))
    return dict(store=case["store"], vals=[tuple(v) for v in case["vals"]], ops=ops)


def model_lines(real, case):
    lines = ["(init %s)" % ("T" if case["store"] else "F")]
    vals = case["vals"]
    for v in vals:
        if v[0] == "blob":
            lines.append("(name b%s b%s)" % (real.payload(v).hex(), real.fname(v).hex()))

    def mval(v):
        return "(%s b%s)" % ("fc" if v[0] == "blob" else "plain", real.payload(v).hex())

    def mkey(v):
        return "(%s b%s)" % ("T" if v[0] == "blob" else "F", real.data(v).hex())
    per_op = []
    for op in case["ops"]:
        k = op[0]
        if k == "record":
            per_op.append("(record %s i%d i%d)" % (mval(vals[op[1]]), op[2], op[3]))
        elif k == "recordwatch":
            per_op.append("(recordwatch %s i%d i%d)" % (mval(vals[op[1]]), op[2], op[3]))
        elif k == "recordfault":       # the unchanged code never writes an existing object: the fault cannot strike
            per_op.append("(record %s i%d i%d)" % (mval(vals[op[1]]), op[2], op[3]))
        elif k == "faultfc":
            per_op.append("(faultfc b%s)" % real.payload(vals[op[1]]).hex())
        elif k == "get":
            per_op.append("(get %s)" % mkey(vals[op[1]]))
        elif k == "getaway":
            per_op.append("(getaway %s)" % mkey(vals[op[1]]))
        elif k == "dropstore":
            per_op.append("(dropstore %s)" % mkey(vals[op[1]]))
        elif k == "dropfc":
            per_op.append("(dropfc b%s)" % real.fname(vals[op[1]]).hex())
        elif k == "attach":
            per_op.append("(attach)")
        else:
            raise ValueError(op)
    return lines, per_op


def run_case(ctx, real, case, replies, n_pre, per_op, label):
    b = real.backend
    real.reset(case["store"])
    vals = case["vals"]
    jcase = {"label": label, "store": case["store"], "vals": [[v[0], repr(v[1])] for v in vals],
             "ops": [list(o) for o in case["ops"]], "lines": per_op}
    it = iter(replies[n_pre:])
    recorded = {}          # digest -> value spec (what a successful read must return)
    dropped = set()        # digests whose offloaded bytes / FileCache file the harness deleted and nothing restored
    lost_store = set()     # ... of these: the value-store object was deleted (restored by a record call that offloads)
    lost_fc = set()        # ... of these: the FileCache file was deleted (restored by any record call: serialize() rewrites it)
    diverged = False
    for n, op in enumerate(case["ops"]):
        k = op[0]
        who = {"record": 4, "recordwatch": 4, "recordfault": 4, "get": 2, "getaway": 2}.get(k)
        widx = op[who] if who is not None and len(op) > who else 0
        b = real.backends[widx]
        before = real.dump()
        if k in ("record", "recordwatch", "recordfault"):
            v = vals[op[1]]
            dg = real.digest(v)
            b.value_store_min_size, b._max_value_size = op[2], op[3]
            ndata = len(real.data(v))
            intact = dg in recorded and dg not in dropped          # recorded before, bytes never deleted since
            obj_path = os.path.join(real.vs_dir, dg[:2], dg[2:])
            arm = None
            if k != "record" and os.path.exists(obj_path):
                other = real.backends[1 - widx]

                def reader(other=other, dg=dg):
                    try:
                        got, ok = other.get_value(dg)
                        return real.r_val(got) if ok else "absent"
                    except Exception as e:  # noqa: BLE001
                        return "!" + type(e).__name__
                arm = real.arm = {"path": obj_path, "mode": "watch" if k == "recordwatch" else "fault", "reader": reader,
                                  "fired": False, "opened": False, "result": None}
            try:
                try:
                    h = b.record_value(real.obj(v))
                finally:
                    real.arm = None
                real.kind.setdefault(h, "T" if v[0] == "blob" else "F")
                out = "(ok %s)" % real.r_key(h)
                if ndata > op[3]:
                    ctx.violation("C31-too-large-accepted", "a value larger than max_value_size was recorded", case=jcase,
                                  expected="RedunDatabaseError", actual=out, kind="history")
                if h != dg:
                    ctx.violation("C31-record-returns-other-hash", "record_value returned a hash that is not the value's hash",
                                  case=jcase, expected=dg, actual=h, kind="history")
                already = dg in recorded
                recorded[dg] = v
                # what this call must have repaired: the FileCache file always (serialize() writes it), the value-store
                # object when this call offloads (store configured and getsizeof(data) >= min)
                lost_fc.discard(dg)
                if b.value_store is not None and ndata + 33 >= op[2]:
                    lost_store.discard(dg)
                repaired = dg in dropped and dg not in lost_store and dg not in lost_fc
                if repaired:
                    dropped.discard(dg)
                # read back
                try:
                    got, ok = b.get_value(h)
                    if not ok and repaired:
                        ctx.violation("C31-rerecord-does-not-restore-missing-bytes", "the offloaded bytes of a value had been "
                                      "deleted; recording the value again (with a configuration that offloads) returned its hash "
                                      "but get_value still reads it as absent", case=jcase, expected=repr(v), actual="absent",
                                      kind="history")
                    if ok:
                        if real.pickle_dumps(got) != real.payload(v):
                            ctx.violation("C31-readback-differs", "get_value(record_value(v)) is a different value", case=jcase,
                                          expected=repr(v), actual=repr(got)[:200], kind="history")
                        dropped.discard(dg)
                    elif dg not in dropped:
                        ctx.violation("C31-readback-absent-after-record", "a value just recorded (bytes never deleted) reads as "
                                      "absent", case=jcase, expected=repr(v), actual="absent", kind="history")
                except Exception as e:  # noqa: BLE001
                    ctx.violation("C31-readback-raises", "get_value raised %s after record_value" % type(e).__name__, case=jcase,
                                  expected=repr(v), actual="!" + type(e).__name__, kind="history")
                if already and dg not in dropped:
                    after = real.dump()
                    if k == "record" and n > 0 and case["ops"][n - 1] == op and after != before:
                        ctx.violation("C31-record-twice-changes-state", "recording the same value twice with the same "
                                      "configuration changed the stored state", case=jcase, expected=before, actual=after,
                                      kind="history")
            except Exception as e:  # noqa: BLE001
                out = "!" + type(e).__name__
                if ndata <= op[3] and not (arm is not None and arm["mode"] == "fault" and arm["fired"]):
                    ctx.violation("C31-record-raises", "record_value raised %s for a value within max_value_size" % type(e).__name__,
                                  case=jcase, expected="recorded", actual=out, kind="history")
                else:
                    after = real.dump()
                    if after.split(" (fc")[0] != before.split(" (fc")[0]:
                        ctx.violation("C31-too-large-wrote-state", "a rejected (too large) value left rows or store files behind",
                                      case=jcase, expected=before, actual=after, kind="history")
            if k == "recordwatch":
                if arm is None:
                    rd = "-"                       # no existing object: a first write, nothing staged
                else:
                    # not fired = the recorder never had the object open for writing: there was no window, the state the
                    # reader would have seen is the current one
                    rd = arm["result"] if arm["fired"] else arm["reader"]()
                    if intact and rd != real.r_val(real.obj(v)):
                        ctx.violation("C31-read-during-rerecord-fails", "a recorded value with intact bytes was read by another "
                                      "backend while it was being recorded again: the read gave %s" % rd, case=jcase,
                                      expected=real.r_val(real.obj(v)), actual=rd, kind="history")
                out = out + " " + rd
            if k == "recordfault" and arm is not None and arm["fired"] and intact:
                try:
                    got, ok = real.backends[1 - widx].get_value(dg)
                    state = "the value" if ok and real.pickle_dumps(got) == real.payload(v) else ("absent" if not ok else "another value")
                except Exception as e:  # noqa: BLE001
                    state = "!" + type(e).__name__
                if state != "the value":
                    ctx.violation("C31-failed-rerecord-destroys-recorded-value", "a write fault (ENOSPC) during the re-recording of "
                                  "an intact offloaded value left it unreadable: get_value gives %s" % state, case=jcase,
                                  expected=repr(v), actual=state, kind="history")
        elif k in ("get", "getaway"):
            v = vals[op[1]]
            dg = real.digest(v)
            away = k == "getaway" and os.path.isdir(real.vs_dir)
            try:
                if away:
                    os.rename(real.vs_dir, real.vs_dir + ".away")     # the store is unreachable during this read
                try:
                    got, ok = b.get_value(dg)
                finally:
                    if away:
                        os.rename(real.vs_dir + ".away", real.vs_dir)
                if away and not ok:
                    dropped_now = True
                else:
                    dropped_now = False
                out = real.r_val(got) if ok else "absent"
                if ok and real.pickle_dumps(got) != real.payload(v):
                    ctx.violation("C31-read-returns-different-value", "get_value(h) returned a value that is not the value with "
                                  "hash h", case=jcase, expected=repr(v), actual=repr(got)[:200], kind="history")
                if not ok and dg in recorded and dg not in dropped and not dropped_now:
                    ctx.violation("C31-recorded-value-absent", "a recorded value whose bytes were never deleted reads as absent",
                                  case=jcase, expected=repr(v), actual="absent", kind="history")
                if ok and dg not in recorded:
                    ctx.violation("C31-unrecorded-value-present", "a value never recorded reads as present", case=jcase,
                                  expected="absent", actual=out, kind="history")
            except Exception as e:  # noqa: BLE001
                out = "!" + type(e).__name__
                ctx.violation("C31-missing-bytes-not-absent" if dg in dropped else "C31-get-raises",
                              "get_value raised %s instead of returning a value or absent" % type(e).__name__, case=jcase,
                              expected="value or absent", actual=out, kind="history")
        elif k == "faultfc":
            # record_value of a FileCache value; the write of its file fails (ENOSPC) right after the file was opened
            v = vals[op[1]]
            dg = real.digest(v)
            b = real.backends[op[2] if len(op) > 2 else 0]
            b.value_store_min_size, b._max_value_size = 0, BIG
            real.arm = {"path": real.fname(v).decode(), "mode": "fault0", "reader": None, "fired": False, "opened": False,
                        "result": None}
            try:
                b.record_value(real.obj(v))
                out = "(recorded)"
            except Exception as e:  # noqa: BLE001
                out = "!" + type(e).__name__
            finally:
                real.arm = None
            dropped.add(dg)                 # the file now holds a partial (empty) serialisation: the bytes are damaged ...
            lost_fc.add(dg)                 # ... until a record call rewrites the file
        elif k == "dropstore":
            dg = real.digest(vals[op[1]])
            p = os.path.join(real.vs_dir, dg[:2], dg[2:])
            if os.path.exists(p):
                os.remove(p)
                rows = [r for r in b.session.query(real.ValueRow).filter_by(value_hash=dg).all()]
                if rows and len(rows[0].value) == 0:
                    dropped.add(dg)
                    lost_store.add(dg)
            out = "ok"
        elif k == "dropfc":
            v = vals[op[1]]
            p = real.fname(v).decode()
            if os.path.exists(p):
                os.remove(p)
                dropped.add(real.digest(v))
                lost_fc.add(real.digest(v))
            out = "ok"
        elif k == "attach":
            for be in real.backends:
                if be.value_store is None:
                    be.value_store = real.ValueStore(real.vs_dir)
            out = "ok"
        else:
            raise ValueError(op)
        for be in real.backends:
            be.session.rollback()            # end any open read transaction, expire cached rows
        dump = real.dump()
        m_out, m_dump = next(it), next(it)
        if not diverged and (out != m_out or dump != m_dump):
            diverged = True
            ctx.mismatch("C31 op %d %s: model and real backend disagree" % (n, k), case=jcase,
                         model={"reply": m_out, "dump": m_dump}, impl={"reply": out, "dump": dump})


def run_cases(ctx, real, cases):
    lines, meta = [], []
    for label, case in cases:
        pre, per_op = model_lines(real, case)
        start = len(lines)
        lines += pre
        for ln in per_op:
            lines += [ln, "(dump)"]
        meta.append((start, len(lines), len(pre), per_op))
    replies = ctx.model("C31", lines)
    bad = [r for r in replies if r.startswith("bad-")]
    if bad:
        ctx.mismatch("model driver rejected a generated request", case=None, model=bad[0], impl=None)
    for (label, case), (a, bnd, n_pre, per_op) in zip(cases, meta):
        kinds = [o[0] for o in case["ops"]]
        nontrivial = any(k in ("dropstore", "dropfc") for k in kinds) or any(
            o[0] == "record" and (o[3] < 10 ** 6 or (case["store"] and o[2] < 10 ** 6)) for o in case["ops"])
        ctx.case(key="\n".join(lines[a:bnd]) if nontrivial else None, sample={"label": label, "ops": per_op[:8]},
                 store=case["store"], n_ops=len(kinds))
        for kd in kinds:
            ctx.count("op", kd)
        for v in case["vals"]:
            ctx.count("value", v[0] if v[0] == "blob" else type(v[1]).__name__)
        run_case(ctx, real, case, replies[a:bnd], n_pre, per_op, label)


def workflow_oracle(ctx, values):
    """Workflow level, on the real scheduler: a task whose cached result (offloaded to the value store) lost its bytes
    re-executes exactly once and is then served from the cache again.  Compares execution counts only."""
    from redun import Scheduler, task
    from redun.backends.db import RedunBackendDb
    from redun.backends.value_store import ValueStore
    root = os.path.realpath(tempfile.mkdtemp(prefix="verif-gJ-c31wf-"))
    count = [0]
    if _S.get("wf_task") is None:
        def produce(i: int, payload):
            _S["wf_count"][0] += 1
            return [payload, i]
        _S["wf_task"] = task(namespace="verif_gj_c31", name="produce")(produce)
    _S["wf_count"] = count
    produce = _S["wf_task"]
    try:
        for i, payload in enumerate(values):
            for min_size in (0, 64):
                vs = os.path.join(root, "vs-%d-%d" % (i, min_size))
                backend = RedunBackendDb(db_uri="sqlite:///:memory:")
                sched = Scheduler(backend=backend)
                sched.load()
                backend.value_store = ValueStore(vs)
                backend.value_store_min_size = min_size
                counts, results, err = [], [], None
                try:
                    for step in range(5):
                        if step == 2:
                            n_files = sum(len(f) for _, _, f in os.walk(vs))
                            shutil.rmtree(vs, ignore_errors=True)        # every offloaded byte is gone
                        before = count[0]
                        results.append(sched.run(produce(i, payload)))
                        counts.append(count[0] - before)
                except Exception as e:  # noqa: BLE001
                    err = e
                case = {"workflow": "produce(%d, %r)" % (i, payload), "value_store_min_size": min_size,
                        "steps": "run, run, delete every value-store object, run, run, run", "offloaded_objects_deleted": n_files if len(counts) >= 2 else None}
                want = [1, 0, 1 if n_files else 0, 0, 0] if err is None or len(counts) >= 2 else None
                ctx.case(key=("workflow", i, min_size), sample=None, workflow="lost-bytes-reexecute")
                if err is not None:
                    ctx.violation("C31-workflow-raises-after-lost-bytes", "scheduler.run raised %s" % type(err).__name__, case=case,
                                  expected=want, actual=counts, kind="history")
                elif counts != want or any(r != [payload, i] for r in results):
                    ctx.violation("C31-lost-bytes-result-not-recached", "executions per run after the cached result lost its "
                                  "offloaded bytes (expected: re-execute once, then cached again) or a wrong result", case=case,
                                  expected=want, actual=counts, kind="history")
    finally:
        shutil.rmtree(root, ignore_errors=True)


def run(ctx):
    import redun.logging  # noqa: F401  (sets the level at import; silence it afterwards)
    logging.getLogger("redun").setLevel(logging.CRITICAL)
    if sys.getsizeof(b"") != 33:
        ctx.note("sys.getsizeof(b'') = %d, the model's overhead constant is 33" % sys.getsizeof(b""))
    real = Real()
    try:
        real.reset(False)
        cases = [("corpus-%d" % i, concretise(real, c)) for i, c in enumerate(CORPUS)]
        rng = ctx.rng
        for i in range(ctx.n(220, 4000)):
            cases.append(("gen-%d" % i, gen_case(rng, rng.choice([6, 8, 10, 14]), lambda v: len(real.data(v)))))
        run_cases(ctx, real, cases)
    finally:
        real.close()
    workflow_oracle(ctx, [b"x" * 200, "y" * 300, list(range(60))])


def replay(ctx, case):
    c = case.get("case") or {}
    if isinstance(c, dict) and "workflow" in c:
        import redun.logging  # noqa: F401
        logging.getLogger("redun").setLevel(logging.CRITICAL)
        print("replay: workflow", c)
        return workflow_oracle(ctx, [b"x" * 200, "y" * 300, list(range(60))])
    if not isinstance(c, dict) or "ops" not in c:
        ctx.note("replay file has no history; running the normal check")
        return run(ctx)
    import ast
    vals = [(k, ast.literal_eval(r)) for k, r in c["vals"]]
    cs = dict(store=c["store"], vals=vals, ops=[tuple(o) for o in c["ops"]])
    print("replay:", json.dumps(c.get("lines")))
    import redun.logging  # noqa: F401
    logging.getLogger("redun").setLevel(logging.CRITICAL)
    real = Real()
    try:
        real.reset(False)
        run_cases(ctx, real, [("replay", cs)])
    finally:
        real.close()
