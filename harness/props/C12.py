"""C12 — failures propagate (same class and message, the failing job and all its ancestors recorded FAILED) and are never
replayed from the backend cache in a later execution.  Models: lean/RedunModel/Model/EvalCore.lean (propagation),
lean/RedunModel/Model/CacheLookup.lean (lookup decision of check_cache / _get_cache)."""
import itertools
import random
import time

ID = "C12"
READY = True
LEAN_MODULES = ["RedunModel.Props.C12"]
LEAN_DRIVERS = ["C01"]
THEOREMS = [
    "RedunModel.C12.Demand.propagates",
    "RedunModel.C12.propagates",
    "RedunModel.C12.ancestors_fail",
    "RedunModel.C12.raising_body_fails",
    "RedunModel.C12.not_swallowed_list",
    "RedunModel.C12.not_swallowed_call",
    "RedunModel.C12.not_swallowed_default",
    "RedunModel.C12.error_only_from_cse",
    "RedunModel.C12.cse_needs_same_execution",
    "RedunModel.C12.not_replayed",
    "RedunModel.C12.not_replayed_async",
]
TRUSTED = [
    "modelled, not verified: the three database look-ups behind check_cache (same-execution query, call-node query with the "
    "subtree-task filter, Evaluation row) are inputs of the lookup model; the harness computes them with the backend's own "
    "primitives (get_call_cache, _get_call_node, get_eval_cache) and an ORM query stating the CSE condition",
    "task library and Python semantics as in C01",
]
ASSUMPTIONS = [
    "'a failed call is executed again' is checked for calls whose own task function raised; a job that fails because a child "
    "failed is legitimately re-derived from its cached single reduction, and an error handled by an enclosing `catch` is "
    "legitimately replayed through catch's own documented cache of the recovery expression",
    "errors that cannot be pickled are only propagated, not recovered: catch(...) of such an error hashes/pickles the recover "
    "expression that holds it and fails with TypeError on the unchanged tree (outside this property)",
    "a job that forked a thread and returned it has legitimately concluded (DONE) although the thread fails later: the FAILED "
    "chain is then required from the raising job up to that forking job, and at the root",
    "programs as in C01, error leaves at every depth; two consecutive executions on one in-memory backend under the "
    "controlled executor with a seeded completion order; plus failing sub-workflows run through subrun(e, new_execution=b) "
    "twice on one file backend with real thread executors (execution counter: the raising leaves' own call log)",
]
RULE = ("generated programs with raising leaves at any depth (C01 generator, error probability 0.15-0.4, plus a corpus of failing "
        "shapes); each is executed twice on one backend. Checked per execution: outcome admissible for the model; if run raised "
        "E: the root job row is FAILED with E and some job whose function raised E has only FAILED-with-E ancestors. Checked for "
        "execution 2: every lookup that made a job cached with an ErrorValue was a CSE hit preceded by a real call in the same "
        "execution; every call that raised in execution 1 and is reached again is executed again. Every check_cache / _get_cache "
        "call is replayed on the Lean lookup model (plus all 48 option combinations on sampled keys). distinct = program text; "
        "trivial = program without an error outcome in either execution")
LEVEL_TEXT = ("Proved in Lean, all full strength for the modelled forms, every task table / expression / depth: Demand.propagates, "
              "propagates (an error of any evaluation the root demands through containers, arguments, defaults, operators, cond/"
              "seq/map_/apply_tags/join_thread/subrun and job after job, with no catch in between, is an outcome of the root with "
              "the same class and message), ancestors_fail (every expression on the way, i.e. every ancestor job, fails with it), "
              "raising_body_fails, not_swallowed_list / not_swallowed_call (a failing demanded term cannot turn into a value). On "
              "the lookup model: error_only_from_cse, cse_needs_same_execution, not_replayed / not_replayed_async (for every "
              "backend content and all cache options, a lookup in an execution that has not yet run the call never makes the job "
              "cached with an error).")
LEVEL_NOTE = ("Finding fixed by findings_proposed/C12-subrun-error-recorded-as-success.fix.diff: a failure below subrun(e, new_execution="
              "False) came back inside a successful _subrun_root_task result, was recorded as a success and replayed by ultimate "
              "reduction in the next execution (not an ErrorValue lookup, hence outside not_replayed; the mechanism is C38."
              "subrun_shallow_replays_ultimate); the Lean model of subrun mirrors the repaired code (the task fails). "
              "The recording of FAILED job rows and the event-loop path reject_job -> parent promise are not in the Lean model (the "
              "big-step relation has no jobs); they are checked on the real code only (Job rows read back). 'The workflow stops' is "
              "observed as run() raising under the controlled executor without further completions. Which of several failing "
              "siblings' errors is raised is timing dependent by design; any of them is accepted. not_swallowed_* is proved for "
              "the structural frames only (containers, call arguments); for frames that depend on evaluated values (task body "
              "result, selected branch) it would need determinism of the argument values.")
TECHNIQUE = "Lean 4 proofs on a big-step model and a lookup decision table + two-execution differential runs on the real Scheduler with call counting"

FUEL = 120
SCOPES = ["none", "cse", "backend"]
CVS = ["full", "shallow"]


def corpus():
    from redun.functools import map_, seq
    from redun.scheduler import catch, catch_all, cond

    from props import _evallib as L
    return {
        "leaf": L.raiser("V", 1),
        "deep": L.fail_after(3, "S"),
        "deep-under-args": L.add(L.inc(L.fail_after(2, "K")), b=L.inc(1)),
        "in-list": [L.inc(1), L.fail_after(1, "L"), L.inc(2)],
        "in-dict-value": {"a": L.inc(1), "b": L.raiser("Z", 2)},
        "in-dict-key": {L.raiser("T", 3): 1},
        "in-default": L.dflt_fail(1),
        "in-kwarg": L.kwonly(1, m=L.raiser("V", 4)),
        "in-op": L.inc(1) + L.raiser("V", 5),
        "op-itself": L.mklist(2)[7],
        "in-task-result": L.fail_in_list(3, 1),
        "same-call-twice": [L.raiser("V", 6), L.inc(L.raiser("V", 6))],
        "same-call-twice-seq": seq([L.guard(1, 1), L.maybe_fail(1, 1)]),
        "two-different": [L.raiser("V", 7), L.raiser("K", 8)],
        "cond-test": cond(L.raiser("V", 9), 1, 2),
        "cond-branch": cond(L.inc(0), L.raiser("K", 10), 2),
        "seq-second": seq([L.inc(1), L.raiser("L", 11), L.inc(3)]),
        "map-element": map_(L.maybe_fail.partial(bad=2), [1, 2, 3]),
        "catch-miss": catch(L.raiser("K", 12), ValueError, L.rec_zero),
        "catch-recover-raises": catch(L.raiser("V", 13), ValueError, L.rec_raise),
        "caught-then-uncaught": [catch(L.raiser("V", 14), ValueError, L.rec_zero), L.raiser("V", 14)],
        "catch_all-reraise": catch_all([L.raiser("V", 15), L.inc(1)]),
        "catch_all-recover-raises": catch_all([L.raiser("V", 16), L.inc(1)], ValueError, L.rec_count_raise),
        "fork-fail-join": L.fork_fail_join("S"),
        "shallow-leaf": L.s_raiser("V", 17),
        "shallow-deep": L.inc(L.s_fail_after(2, "K")),
        "shallow-in-list": [L.s_inc(1), L.s_raiser("L", 18)],
        # an error that cannot be pickled is recorded through the Exception(repr(error)) fallback, and still propagates as itself
        "unpicklable-leaf": L.busy(1),
        "unpicklable-deep": {"result": L.pair([L.inc(1), L.busy(2)], 3)},
        "unpicklable-lambda-leaf": L.busy_lambda(4),                                    # pickle: PicklingError
        "unpicklable-lambda-deep": {"result": L.pair([L.inc(1), L.busy_lambda(5)], 3)},
        "unpicklable-local-leaf": L.busy_local(6),                                      # pickle: AttributeError
        "unpicklable-local-deep": L.add(L.inc(L.busy_local(7)), b=L.inc(1)),
        "success": L.add(L.inc(1), b=L.twice(3)),
        "caught": L.guard(2, 2),
    }


class Probe:
    """wraps backend.check_cache and scheduler._get_cache of one scheduler; logs every lookup with the facts the lookup
    model needs (computed with the backend's own primitives before the real call)"""

    def __init__(self, sched):
        self.sched = sched
        self.be = sched.backend
        self.log = []           # dicts, in call order
        self.last = None
        self.execution = 0
        self.real_check = self.be.check_cache
        self.real_get = sched._get_cache
        self.be.check_cache = self.check_cache
        sched._get_cache = self.get_cache

    def restore(self):
        self.be.check_cache = self.real_check

    def fact(self, pair):
        result, is_cached = pair
        from redun.scheduler import ErrorValue
        return isinstance(result, ErrorValue) if is_cached else None

    def facts(self, task_hash, args_hash, eval_hash, execution_id, scheduler_task_hashes, context_hash):
        from redun.backends.db import CallNode
        from redun.backends.db import Job as JobRow
        be = self.be
        cse = None
        if not context_hash:
            node = (be.session.query(CallNode).join(JobRow, CallNode.call_hash == JobRow.call_hash)
                    .filter(JobRow.task_hash == task_hash, JobRow.execution_id == execution_id, CallNode.args_hash == args_hash)
                    .order_by(JobRow.start_time.desc()).first())
            if node is not None:
                cse = self.fact(be.get_call_cache(node.call_hash))
        ult = None
        node2 = be._get_call_node(task_hash, args_hash, scheduler_task_hashes, context_hash)
        if node2 is not None:
            ult = self.fact(be.get_call_cache(node2.call_hash))
        single = self.fact(be.get_eval_cache(eval_hash))
        return cse, ult, single

    def check_cache(self, task_hash, args_hash, eval_hash, execution_id, scheduler_task_hashes, cache_scope, check_valid,
                    context_hash=None, allowed_cache_results=None):
        from redun.scheduler import ErrorValue
        from redun.task import CacheResult
        f = self.facts(task_hash, args_hash, eval_hash, execution_id, scheduler_task_hashes, context_hash)
        out = self.real_check(task_hash, args_hash, eval_hash, execution_id, scheduler_task_hashes, cache_scope, check_valid,
                              context_hash, allowed_cache_results)
        result, call_hash, cache_type = out
        al = set(CacheResult) if allowed_cache_results is None else set(allowed_cache_results)
        self.last = dict(scope=cache_scope.name.lower(), cv=check_valid.name.lower(),
                         allowed=(CacheResult.CSE in al, CacheResult.SINGLE in al, CacheResult.ULTIMATE in al), facts=f,
                         ctype=cache_type.name.lower(),
                         is_err=(None if cache_type == CacheResult.MISS else isinstance(result, ErrorValue)),
                         task_hash=task_hash, args_hash=args_hash, eval_hash=eval_hash, context=bool(context_hash))
        return out

    def get_cache(self, job):
        from redun.scheduler import ErrorValue
        self.last = None
        out = self.real_get(job)
        result, was_cached, call_hash = out
        rec = dict(self.last or {})
        rec.update(task=job.task.fullname, key=(job.task.fullname, job.eval_hash), was_cached=was_cached,
                   served_error=isinstance(result, ErrorValue), execution=self.execution, job_id=job.id,
                   n_calls_before=len(self.sched_calls()))
        self.log.append(rec)
        return out

    def sched_calls(self):
        ex = self.sched.executors.get("default")
        return ex.ctl.calls if hasattr(ex, "ctl") else []


def b(x):
    return "T" if x else "F"


def fact_sx(x):
    return "N" if x is None else b(x)


def job_rows(sched, execution_id):
    """-> {job id: (parent id, status, error canon or None, task fullname)} for one execution"""
    from redun.backends.db import Job as JobRow
    from redun.scheduler import ErrorValue

    from props import _evalgen as G
    rows = {}
    for j in sched.backend.session.query(JobRow).filter(JobRow.execution_id == execution_id).all():
        err = None
        status = j.status
        if status == "FAILED":
            v = j.call_node.value.value_parsed
            if isinstance(v, ErrorValue):
                err = G.canon_error(v.error)
        rows[j.id] = (j.parent_id, status, err, j.task.fullname if j.task else None)
    return rows


def execution_ids(sched):
    from redun.backends.db import Execution
    return [e.id for e in sched.backend.session.query(Execution).all()]


def check_failed_rows(ctx, G, name, sx, k, outcome, rows, done, log):
    """run k raised `outcome`: root FAILED with it; a job whose function raised it has only FAILED-with-it ancestors"""
    case = {"program": name, "expr": sx, "execution": k}
    # an error that cannot be serialised is recorded as Exception(repr(error)) (documented fallback of _reject_job_main_thread)
    alt = ("err", "Exception", "%s(%r)" % (outcome[1], outcome[2]))
    rows = {jid: (r[0], r[1], outcome if r[2] == alt else r[2], r[3]) for jid, r in rows.items()}
    roots = [jid for jid, r in rows.items() if r[0] is None]
    if len(roots) != 1:
        ctx.violation("C12-root-job-rows", "execution does not have exactly one root job row", case=case, expected=1, actual=len(roots))
        return
    root = roots[0]
    if rows[root][1] != "FAILED" or rows[root][2] != outcome:
        ctx.violation("C12-root-not-recorded-failed", "run raised but the root job is not recorded FAILED with that error",
                      case=case, expected=G.show(outcome), actual=repr(rows[root][1:3]), kind="history")
    # the failing jobs: those whose task function raised the error, and their same-execution (CSE) twins
    keys = {(job.task.fullname, job.eval_hash) for job, res in done if res == outcome}
    origin = [job.id for job, res in done if res == outcome and job.id in rows]
    origin += [rec["job_id"] for rec in log if rec["key"] in keys and rec["job_id"] in rows and rec["job_id"] not in origin]
    if not origin:
        return
    ok_chain = False
    worst = None
    for jid in origin:
        cur, good = jid, True
        while cur is not None:
            r = rows.get(cur)
            if r is not None and r[1] in ("DONE", "CACHED") and (r[3] or "").startswith(FORKERS):
                break       # the job that forked the thread has legitimately concluded (see ASSUMPTIONS); the error travels on
                            # through join_thread, and the root (checked above) is failed
            if r is None or r[1] != "FAILED" or r[2] != outcome:
                good = False
                worst = (cur, r and r[1:])
                break
            cur = r[0]
        ok_chain = ok_chain or good
    if not ok_chain:
        ctx.violation("C12-ancestor-not-failed", "the raising job or one of its ancestors is not recorded FAILED with the raised error",
                      case=case, expected="FAILED " + G.show(outcome), actual=repr(worst), kind="history")


def flush_lookups(ctx, pending):
    """one model call for the lookup decisions of all programs"""
    lines = [ln for _, _, ls, _ in pending for ln in ls]
    replies = ctx.model("C01", lines) if lines else []
    i = 0
    for name, sx, ls, expect in pending:
        for (what, rec, real), mod in zip(expect, replies[i:i + len(ls)]):
            ctx.count("lookup-model", what + ":" + real.split()[0])
            if mod != real:
                ctx.mismatch("%s decision differs from the lookup model" % what,
                             case={"program": name, "expr": sx, "lookup": {k: v for k, v in rec.items() if k not in ("key",)}},
                             model=mod, impl=real, signature="C12-lookup-decision")
        i += len(ls)
    del pending[:]


FORKERS = ("ev.fork_", "ev.forker")
SAME_SCHED = ("in-list", "two-different", "same-call-twice", "same-call-twice-seq", "caught-then-uncaught", "deep", "map-element")
CPU_BUDGET_QUICK, CPU_BUDGET_THOROUGH = 5.0, 330.0       # seconds of process CPU for the generated stream (not wall clock)
PICKLING = "C12-picklingerror-escapes-error-recording"
STALE = "C12-stale-completion-event-crashes-next-execution"
SUBRUN_REPLAY = "C12-failure-under-extended-subrun-replayed-from-cache"


RAISERS = ("ev.raiser", "ev.s_raiser", "ev.a_fail", "ev.busy")


def async_corpus():
    """cached async tasks (cache=True, check_valid="shallow": the only caching mode redun allows for them) that fail, or await a
    call that fails; real executors (the controlled executor cannot run coroutines)"""
    from props import _evallib as L
    return {
        "async-leaf": [L.a_fail(201)],
        "async-leaf-under-sync": L.add(L.inc(L.a_fail(202)), b=1),
        "async-ancestor": L.a_await_fail("K", 203),
        "async-ancestor-deep": L.pair(L.a_await_fail("V", 204), 1),
        "async-ok": L.a_twice(1),
    }


def run_async(ctx, G, R, name, e, sx, reply, pending, executions=3):
    """`executions` consecutive executions on one backend (a new Scheduler object each, real thread / async executors): in EVERY
    execution the failing body runs again, the chain from the failing call to the root is recorded FAILED, and no lookup makes a job
    cached with an ErrorValue unless it is a same-execution hit"""
    from props import _evallib as L
    outs, has_unk = G.parse_outs(reply)
    base = R.free_scheduler()
    expr = R.clone(e)
    known = set()
    for k in range(1, executions + 1):
        from redun import Scheduler
        sched = Scheduler(config=base.config, backend=base.backend)
        probe = Probe(sched)
        probe.execution = k
        del L.CALL_LOG[:]
        o, _ = R.run_free(expr, sched=sched, timeout=90)
        probe.restore()
        ran = list(L.CALL_LOG)
        new = [x for x in execution_ids(base) if x not in known]
        known.update(new)
        case = {"program": name, "expr": sx, "execution": k, "async_case": True, "executions": executions}
        if o not in outs and not has_unk:
            ctx.violation("C12-wrong-error-raised" if o[0] == "err" else "C12-failure-swallowed",
                          "run does not raise the error the rules prescribe", case=case, expected=sorted(map(G.show, outs)),
                          actual=G.show(o))
        if o[0] == "err":
            by_leaf = any("%s-%s" % (c[1], c[2]) == o[2] for c in ran)
            leaf_error = o[2][:2] in ("V-", "K-", "L-", "S-", "Z-", "T-", "B-")
            if leaf_error and not by_leaf:
                ctx.violation("C12-failed-call-replayed", "execution %d raises the error of a failed call whose body was not executed in "
                              "this execution (served from the backend cache)" % k, case=case,
                              expected="the raising task body runs in every execution", actual="not executed; ran: %r" % (ran,),
                              kind="history")
            if len(new) == 1:
                rows = job_rows(base, new[0])
                leaves = [jid for jid, r in rows.items() if r[3] in RAISERS and r[1] == "FAILED" and r[2] == o]
                if leaf_error and not leaves:
                    ctx.violation("C12-failing-call-has-no-job", "the raising call has no FAILED job row in this execution", case=case,
                                  expected="a FAILED job of the raising task", actual=sorted((r[3], r[1]) for r in rows.values()),
                                  kind="history")
                else:
                    check_failed_rows(ctx, G, name, sx, k, o, rows, [], [])
                    for jid in leaves[:1]:
                        cur = jid
                        while cur is not None:
                            r = rows[cur]
                            if r[1] != "FAILED" or r[2] != o:
                                ctx.violation("C12-ancestor-not-failed", "an ancestor of the raising job is not recorded FAILED with "
                                              "the raised error", case=case, expected="FAILED " + G.show(o), actual=repr(r[1:]),
                                              kind="history")
                                break
                            cur = r[0]
        for rec in probe.log:
            if rec["served_error"] and rec["was_cached"] and rec.get("ctype") != "cse":
                ctx.violation("C12-error-replayed-from-backend", "a lookup made a job cached with an ErrorValue that is not a "
                              "same-execution (CSE) hit", case=dict(case, task=rec["task"]), expected="cse or miss",
                              actual=rec.get("ctype"), kind="history")
            if "ctype" in rec and not rec.get("context") and rec["ctype"] != "miss":
                pending.append((name, sx, ["(getcache %s %s T)" % (rec["ctype"], b(rec["is_err"]))],
                                [("_get_cache(async run)", rec, "hit" if rec["was_cached"] else "miss")]))
        ctx.case(key=("async", sx, k) if o[0] == "err" else None, mode="async", outcome1=o[0], execution=k,
                 leaf_executed=("yes" if ran else "no"),
                 sample={"program": name, "expr": sx[:200], "execution": k, "outcome": G.show(o)[:120], "bodies_run": ran[:4]})


def subrun_corpus():
    from props import _evallib as L
    return {
        "sub-leaf": L.raiser("V", 101),
        "sub-deep": L.fail_after(2, "K"),
        "sub-in-args": L.add(L.inc(L.raiser("L", 102)), b=L.inc(1)),
        "sub-in-list": [L.inc(1), L.fail_after(1, "S")],
        "sub-shallow": L.inc(L.s_raiser("Z", 103)),
        "sub-ok": L.twice(1),
    }


def run_subrun(ctx, G, R, name, e, sx, reply, ne, cache=True):
    """subrun(e, new_execution=ne) twice on one file backend (a new Scheduler object each time, real thread executors);
    execution counter = the raising leaves' own log.  A failure under a sub-scheduler is a failed call like any other:
    the later execution must run it again."""
    from redun.scheduler import subrun

    from props import C38
    from props import _evallib as L
    outs, has_unk = G.parse_outs(reply)
    box = C38.Box(R)
    try:
        outcomes, ran = [], []
        for k in (1, 2):
            sched = box.scheduler()
            del L.CALL_LOG[:]
            o, _ = R.run_free(subrun(R.clone(e), executor="default", new_execution=ne), sched=sched, timeout=90, cache=cache)
            outcomes.append(o)
            ran.append(list(L.CALL_LOG))
        case = {"program": name, "expr": sx, "new_execution": ne, "cache": cache, "subrun": True,
                "leaf_calls": [len(ran[0]), len(ran[1])]}
        for k, o in enumerate(outcomes, 1):
            if o not in outs and not has_unk:
                ctx.violation("C12-subrun-outcome-differs", "run through subrun does not raise the error the rules prescribe",
                              case=dict(case, execution=k), expected=sorted(map(G.show, outs)), actual=G.show(o))
        o2 = outcomes[1]
        if o2[0] == "err":
            leaf = [c for c in ran[1] if "%s-%s" % (c[1], c[2]) == o2[2]]
            raised_by_leaf = any("%s-%s" % (c[1], c[2]) == o2[2] for c in ran[0] + ran[1])
            if raised_by_leaf and not leaf:
                ctx.violation(SUBRUN_REPLAY, "execution 2 raises the error of a failed call without executing that call again: the "
                              "failure was replayed from the backend cache (the sub-scheduler's failure was recorded as a successful "
                              "subrun_root_task result)", case=dict(case, execution=2),
                              expected="the raising task runs again in execution 2", actual="0 executions in execution 2",
                              kind="history")
            if raised_by_leaf:
                ctx.count("subrun-failure", "ne=%s: failed leaf %s in execution 2" % (ne, "re-executed" if leaf else "NOT re-executed"))
            else:
                ctx.count("subrun-failure", "ne=%s: error not raised by a logged leaf" % ne)
        ctx.case(key=("subrun", sx, ne, cache) if outcomes[0][0] == "err" else None, mode="subrun", outcome1=outcomes[0][0],
                 outcome2=outcomes[1][0], sample={"program": name, "expr": sx[:200], "new_execution": ne,
                                                  "leaf_calls": [len(ran[0]), len(ran[1])]})
    finally:
        box.close()


def run_same_scheduler(ctx, G, R, name, expr, sx, reply, seed):
    """execution 2 on the SAME Scheduler object: jobs still in flight when execution 1 failed complete before run() returns
    (executor.stop() waits for them) and their completion events stay queued; the next execution must not be disturbed"""
    outs, has_unk = G.parse_outs(reply)
    ctl = R.RecCtl(rng=random.Random(seed))
    sched = R.fresh_scheduler(ctl)
    e = R.clone(expr)
    o1, _, _ = R.run_ctl(e, seed, sched=sched, ctl=ctl)
    left = len(ctl.inflight)
    while ctl.inflight:                 # what LocalExecutor.stop() amounts to: running jobs finish, done_job/reject_job enqueue
        ctl.complete_next()
    o2, _, _ = R.run_ctl(e, seed, sched=sched, ctl=ctl)
    ctx.count("same-scheduler", "stale-completions=%d" % min(left, 3))
    for k, o in ((1, o1), (2, o2)):
        if o in outs or has_unk:
            continue
        sig = PICKLING if (o[0] == "err" and o[1] == "PicklingError") else \
            STALE if (k == 2 and left and o[0] == "err" and o[1] == "KeyError" and o[2].startswith("!(Job(")) else \
            "C12-same-scheduler-outcome-differs"
        case = {"program": name, "expr": sx, "execution": k, "schedule_seed": seed, "same_scheduler": True, "stale_completions": left}
        ctx.mismatch("outcome of execution %d on a reused Scheduler is not among the outcomes the rules allow" % k, case=case,
                     model=sorted(map(G.show, outs)), impl=G.show(o), signature=sig)
        ctx.violation(sig, "a later execution on the same Scheduler object does not evaluate the workflow (completion events of "
                      "jobs that were still running when the earlier execution failed are processed by it)", case=case,
                      expected=sorted(map(G.show, outs)), actual=G.show(o), kind="history")
    ctx.case(key=("same", sx) if left else None, mode="same-scheduler", outcome1=o1[0], outcome2=o2[0])


def run_two(ctx, G, R, name, expr, sx, reply, seed, pending, probe_all=False):
    outs, has_unk = G.parse_outs(reply)
    sched = R.fresh_scheduler()
    e = R.clone(expr)
    outcomes, dones, calls, eids, logs, inflight_end = [], [], [], [], [], []
    known = set()
    for k in (1, 2):
        # execution 2 = a new Scheduler object on the same backend (a later `redun run` on the same database)
        ctl = R.RecCtl(rng=random.Random(seed + k))
        s_k = R.sibling_scheduler(sched, ctl)
        probe = Probe(s_k)
        probe.execution = k
        o, _, _ = R.run_ctl(e, seed, sched=s_k, ctl=ctl)
        outcomes.append(o)
        dones.append(list(ctl.done))
        calls.append(list(ctl.calls))
        logs.append(probe)
        inflight_end.append({j.id for j in ctl.inflight})
        probe.restore()
        new = [x for x in execution_ids(sched) if x not in known]
        known.update(new)
        eids.append(new[0] if len(new) == 1 else None)
    all_log = logs[0].log + logs[1].log
    exec_ids = [x for x in eids if x]
    # (a) outcome admissible
    skip_rows = set()
    for k, o in enumerate(outcomes, 1):
        if o in outs:
            continue
        if has_unk:
            ctx.count("inconclusive", "model-unk")
            continue
        kinds = {x[0] for x in outs}
        if o[0] == "err" and o[1] == "PicklingError":
            sig = PICKLING
            skip_rows.add(k)
        elif o[0] == "ok" and kinds == {"err"}:
            sig = "C12-failure-swallowed"
        elif o[0] == "err":
            sig = "C12-wrong-error-raised"
        else:
            sig = "C12-outcome-differs"
        case = {"program": name, "expr": sx, "execution": k, "schedule_seed": seed}
        ctx.mismatch("outcome of execution %d is not among the outcomes the reduction rules allow" % k, case=case,
                     model=sorted(map(G.show, outs)), impl=G.show(o), signature=sig)
        ctx.violation(sig, "run does not raise the error (or return the value) the rules prescribe", case=case,
                      expected=sorted(map(G.show, outs)), actual=G.show(o))
    # (b) FAILED rows along the failing path
    for k, o in enumerate(outcomes, 1):
        if o[0] != "err" or k in skip_rows:
            continue
        if eids[k - 1] is None:
            ctx.violation("C12-no-execution-row", "a failed run did not record exactly one Execution",
                          case={"program": name, "expr": sx, "execution": k}, expected=1, actual="0 or several")
            continue
        check_failed_rows(ctx, G, name, sx, k, o, job_rows(sched, eids[k - 1]), dones[k - 1], logs[k - 1].log)
    # (c) no replay of failures
    raised1 = {(job.task.fullname, job.eval_hash) for job, res in dones[0] if res != "ok"}
    called2 = {}
    for job, res in dones[1]:
        called2.setdefault((job.task.fullname, job.eval_hash), []).append(res)
    executed_before = {}
    for rec in all_log:
        case = {"program": name, "expr": sx, "execution": rec["execution"], "task": rec["task"], "schedule_seed": seed}
        if rec["served_error"] and rec["was_cached"]:
            ctx.count("lookups", "error-served-by-cse")
            if rec.get("ctype") != "cse":
                ctx.violation("C12-error-replayed-from-backend", "a lookup made a job cached with an ErrorValue that is not a "
                              "same-execution (CSE) hit", case=case, expected="cse or miss", actual=rec.get("ctype"), kind="history")
            elif not any(c[0] == rec["task"] for c in calls[rec["execution"] - 1][:rec["n_calls_before"]]):
                ctx.violation("C12-cse-error-without-call", "an ErrorValue was served as a CSE hit although the task was not "
                              "called earlier in this execution", case=case, expected="an earlier call", actual="none",
                              kind="history")
        if rec["execution"] == 2 and rec["key"] in raised1:
            if rec["was_cached"] and rec.get("ctype") != "cse":
                ctx.violation("C12-failed-call-replayed", "a call that raised in execution 1 is served from the backend cache in "
                              "execution 2", case=case, expected="executed again", actual=rec.get("ctype"), kind="history")
            elif not rec["was_cached"]:
                if rec["key"] in called2:
                    ctx.count("lookups", "failed-call-executed-again")
                elif rec["job_id"] in inflight_end[1]:
                    ctx.count("lookups", "failed-call-submitted-again-workflow-ended-first")
                else:
                    ctx.count("lookups", "failed-call-missed-again-not-submitted")
    # (d) lookup decisions against the Lean model
    lines, expect = [], []
    for rec in all_log:
        if "ctype" not in rec or rec.get("context"):
            continue
        if rec["facts"][2] is True:
            ctx.mismatch("the Evaluation (single reduction) table holds an ErrorValue: set_cache was called for a failure",
                         case={"program": name, "expr": sx, "task": rec["task"]}, model="never written", impl="ErrorValue row",
                         signature="C12-error-in-evaluation-table")
        lines.append("(checkcache %s %s %s %s %s %s %s %s)" % ((rec["scope"], rec["cv"]) + tuple(map(b, rec["allowed"])) +
                                                                 tuple(map(fact_sx, rec["facts"]))))
        expect.append(("check_cache", rec, "%s %s" % (rec["ctype"], fact_sx(rec["is_err"]))))
        if rec["ctype"] != "miss":
            lines.append("(getcache %s %s T)" % (rec["ctype"], b(rec["is_err"])))
            expect.append(("_get_cache", rec, "hit" if rec["was_cached"] else "miss"))
        elif rec["was_cached"]:
            ctx.violation("C12-cached-on-miss", "_get_cache reports cached although check_cache missed",
                          case={"program": name, "expr": sx}, expected="miss", actual="cached")
    # all option combinations on one key (real check_cache called directly), for a sample of the programs
    if probe_all:
        from redun.task import CacheCheckValid, CacheResult, CacheScope
        seen = {}
        for rec in all_log:
            if "eval_hash" in rec and not rec.get("context"):
                seen.setdefault(rec["eval_hash"], rec)
        keys = list(seen.values())
        ctx.rng.shuffle(keys)
        probe = Probe(sched)
        for rec in keys[:1]:
            for scope, cv, bits in itertools.product(CacheScope, CacheCheckValid, itertools.product([True, False], repeat=3)):
                al = {c for c, on in zip((CacheResult.CSE, CacheResult.SINGLE, CacheResult.ULTIMATE), bits) if on}
                for eid in exec_ids:
                    probe.last = None
                    probe.check_cache(rec["task_hash"], rec["args_hash"], rec["eval_hash"], eid,
                                      sched.task_registry.task_hashes, scope, cv, None, al)
                    r2 = probe.last
                    lines.append("(checkcache %s %s %s %s %s %s %s %s)" % ((r2["scope"], r2["cv"]) + tuple(map(b, r2["allowed"])) +
                                                                             tuple(map(fact_sx, r2["facts"]))))
                    expect.append(("check_cache(all options)", r2, "%s %s" % (r2["ctype"], fact_sx(r2["is_err"]))))
        probe.restore()
    pending.append((name, sx, lines, expect))
    failing = any(o[0] == "err" for o in outcomes)
    ctx.case(key=(sx if failing else None), sample={"program": name, "expr": sx[:300], "execution1": G.show(outcomes[0])[:150],
                                                    "execution2": G.show(outcomes[1])[:150],
                                                    "calls": [len(calls[0]), len(calls[1])]},
             outcome1=outcomes[0][0], outcome2=outcomes[1][0], raised_leaves=min(len(raised1), 3),
             reexecuted=("yes" if any(k in called2 for k in raised1) else ("n/a" if not raised1 else "no")))


def run(ctx):
    from props import _evalgen as G
    from props import _evalrun as R
    rng = ctx.rng
    progs = [(name, e, G.to_sx(e)) for name, e in corpus().items()]
    base = rng.getrandbits(48)
    t_cpu = None
    for i in range(ctx.n(45, 1300)):
        prng = random.Random(base + i)
        gen = G.Gen(prng, p_err=prng.choice([0.15, 0.25, 0.4]), max_fan=3 if ctx.tier == "quick" else 4)
        for _ in range(30):
            try:
                e = gen.program(prng.choice([1, 2, 2, 3, 3]) if ctx.tier == "quick" else prng.choice([2, 3, 3, 4]))
                sx = G.to_sx(e)
                break
            except G.Unsupported:
                pass
        else:
            continue
        progs.append(("g%d" % i, e, sx))
    replies = ctx.model("C01", ["(eval i%d %s)" % (FUEL, sx) for _, _, sx in progs])
    n_all = ctx.n(3, 200)
    pending = []
    ncorpus = len(corpus())
    cpu_budget = CPU_BUDGET_QUICK if ctx.tier == "quick" else CPU_BUDGET_THOROUGH
    for i, ((name, e, sx), rep) in enumerate(zip(progs, replies)):
        if i >= ncorpus and t_cpu is None:
            t_cpu = time.process_time()         # the budget covers the generated stream only
        if i >= ncorpus and time.process_time() - t_cpu > cpu_budget * ctx.search_boost:
            ctx.note("CPU budget reached after %d of %d programs (corpus always runs in full)" % (i, len(progs)))
            ctx.count("budget", "generated programs skipped", len(progs) - i)
            break
        run_two(ctx, G, R, name, e, sx, rep, rng.getrandbits(30), pending, probe_all=(i % max(1, len(progs) // n_all) == 0))
        if name in SAME_SCHED or (i >= ncorpus and i % 4 == 0):
            run_same_scheduler(ctx, G, R, name, e, sx, rep, rng.getrandbits(30))
    flush_lookups(ctx, pending)
    # cached async tasks that fail (real executors)
    asy = [(n, e, G.to_sx(e)) for n, e in async_corpus().items()]
    areps = ctx.model("C01", ["(eval i%d %s)" % (FUEL, sx) for _, _, sx in asy])
    for (name, e, sx), rep in zip(asy, areps):
        run_async(ctx, G, R, name, e, sx, rep, pending, executions=2 if ctx.tier == "quick" else 3)
    flush_lookups(ctx, pending)
    # failures below a sub-scheduler (file backend, real executors)
    sub = [(n, e, G.to_sx(e)) for n, e in subrun_corpus().items()]
    for i in range(ctx.n(1, 40)):
        prng = random.Random(base * 3 + i)
        gen = G.Gen(prng, p_err=0.4, max_fan=2)
        for _ in range(30):
            try:
                e = gen.program(2)
                sub.append(("s%d" % i, e, G.to_sx(e)))
                break
            except G.Unsupported:
                pass
    reps = ctx.model("C01", ["(eval i%d %s)" % (FUEL, sx) for _, _, sx in sub])
    for i, ((name, e, sx), rep) in enumerate(zip(sub, reps)):
        if ctx.tier == "quick" and name not in ("sub-leaf", "sub-deep", "sub-ok"):
            continue
        run_subrun(ctx, G, R, name, e, sx, rep, ne=False)
        if i % 3 == 0 and ctx.tier != "quick" or name == "sub-deep":
            run_subrun(ctx, G, R, name, e, sx, rep, ne=True)


def replay(ctx, case):
    from props import _evalgen as G
    from props import _evalrun as R
    c = case.get("case") or {}
    sx = c.get("expr")
    if not sx:
        return run(ctx)
    e = G.from_sx(sx)
    sx2 = G.to_sx(e)
    rep = ctx.model("C01", ["(eval i%d %s)" % (FUEL, sx2)])[0]
    print("replay program:", sx2[:500])
    print("model outcomes:", rep[:500])
    if c.get("async_case"):
        pending = []
        run_async(ctx, G, R, c.get("program", "replay"), e, sx2, rep, pending, executions=int(c.get("executions", 3)))
        return flush_lookups(ctx, pending)
    if c.get("subrun"):
        return run_subrun(ctx, G, R, c.get("program", "replay"), e, sx2, rep, ne=bool(c.get("new_execution")),
                          cache=bool(c.get("cache", True)))
    if c.get("same_scheduler"):
        return run_same_scheduler(ctx, G, R, c.get("program", "replay"), e, sx2, rep, c.get("schedule_seed", 0))
    pending = []
    run_two(ctx, G, R, c.get("program", "replay"), e, sx2, rep, c.get("schedule_seed", 0), pending, probe_all=True)
    flush_lookups(ctx, pending)
