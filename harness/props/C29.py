"""C29 — script tasks run exactly the given (dedented) command, under the default shell unless the text has a
shebang; the here-document wrapper reproduces the command byte for byte; script() stages inputs before and
unstages outputs after the command and returns a value shaped like `outputs`.
Model: lean/RedunModel/Model/Script.lean."""
import collections
import os
import shutil
import subprocess
import sys
import tempfile

from core import sx, unsx

ID = "C29"
READY = True
LEAN_MODULES = ["RedunModel.Props.C29"]
LEAN_DRIVERS = ["C29"]
THEOREMS = [
    "RedunModel.C29.eof_fuel_suffices",
    "RedunModel.C29.eof_not_a_line",
    "RedunModel.C29.eof_is_first_free_candidate",
    "RedunModel.C29.heredoc_roundtrip",
    "RedunModel.C29.wrapped_runs_exact_text",
    "RedunModel.C29.shebang_kept",
    "RedunModel.C29.default_shell_prepended",
    "RedunModel.C29.prepared_has_interpreter",
    "RedunModel.C29.stage_before_unstage_after",
    "RedunModel.C29.every_input_staged",
    "RedunModel.C29.every_output_unstaged",
    "RedunModel.C29.output_shape",
    "RedunModel.C29.output_leaves",
    "RedunModel.C29.input_args_shape",
    "RedunModel.C29.second_prepare_keeps_command",
    "RedunModel.C29.no_command_iff_same_string",
    "RedunModel.C29.distinct_paths_staged_in",
    "RedunModel.C29.distinct_paths_unstaged_out",
]
TRUSTED = [
    "modelled, not verified: str.split('\\n'), '\\n'.join, str(int), str.strip (CPython's White_Space table), "
    "textwrap.dedent (transcribed from CPython 3.12 textwrap.py), shlex.quote/join, os.path.join/basename in File.stage",
    "bash semantics assumed in the model: a here-document whose delimiter word is double-quoted is not expanded and ends "
    "at the first line equal to the delimiter (bash manual 3.6.6); the correspondence runs GNU bash 5.2 on the really "
    "generated wrapper and compares the bytes that reached the temp file with the model's reader",
    "the script task's process environment (mktemp, chmod, cp, the interpreter named by the shebang) is outside the model",
]
ASSUMPTIONS = [
    "command texts are valid UTF-8 without NUL (bash drops NUL bytes in here-documents) and without lone surrogates",
    "eof_prefix is alphanumeric in the bash tie and in heredoc_roundtrip (script() always uses the default 'EOF'); "
    "the get_command_eof theorems hold for every prefix",
    "end-to-end runs without tempdir use pairs whose two sides are different files or the same string (GNU cp refuses to copy a "
    "file onto itself, so a pair spelled differently but naming one file in the command's cwd fails in the unchanged code too)",
    "staging paths are local paths (no URL scheme, no newline): cloud file systems render other copy commands and are "
    "outside the model; every leaf of `inputs` is a Staging object (anything else raises AttributeError in the code and "
    "in the model); sets among inputs/outputs have at most one element (iteration order of object sets is address based)",
]
RULE = ("four case families from one PRNG: (text) command texts from a line grammar over-representing EOF/EOF1/EOF<n> lines, "
        "trailing blanks/CR, quotes, $VAR, backticks, backslash-newline, shebangs and mixed space/tab indentation -> "
        "prepare_command, get_command_eof, get_wrapped_command, shlex.quote compared with the model byte for byte and the "
        "terminator checked against the command's lines; (bash) self-printing commands (#!/bin/cat, `cat \"$0\"` under bash/sh/"
        "python3 shebangs or the default shell) wrapped by the real get_wrapped_command and executed by real bash (stdin=/dev/null, "
        "own process group, 20 s limit; a hang is a violation, not an infrastructure error): stdout must be the harness's own "
        "dedent(text).strip() under the default shell / own shebang + '\\n', and equal the model's prepare and here-document "
        "reader; commands that really run (literal tabs in data and indentation, `<<-` here-documents with tab-indented "
        "terminators, nested blocks, first line right after the quotes) whose exit code and stdout are compared with running the "
        "dedented text directly; (script) generated nested "
        "inputs/outputs of File/IFile/ContentFile/Dir/Staging* leaves -> script(...) call expression (full command, input "
        "args, preprocessed outputs) and postprocess_script compared with the model, plus ordering/shape oracles; "
        "(e2e) script() run by a real Scheduler in a temp dir with local file and directory staging pairs, with and without "
        "tempdir=True, incl. pairs spelled differently on the two sides (relative vs absolute, './x' vs 'x') that name the same "
        "file only in the scheduler's cwd: the command itself tests that every input is present in its working directory and no "
        "output is yet at its remote path, afterwards remote files, stdout and the returned structure are checked; for (script) "
        "the expected copy commands are derived by the harness from the directory the command runs in, not from render_stage. distinct = distinct case payloads; trivial = single-line text without blanks/EOF")
LEVEL_TEXT = ("Proved in Lean (all full strength, for every command text / prefix / nested structure): get_command_eof terminates "
              "within len(lines)+1 iterations and returns the first candidate that is not a line of the command "
              "(eof_fuel_suffices, eof_not_a_line, eof_is_first_free_candidate); a bash here-document reader applied to "
              "get_wrapped_command(cmd) yields exactly cmd+'\\n' (heredoc_roundtrip, wrapped_runs_exact_text); prepare_command "
              "= strip∘dedent, keeps a shebang and otherwise prepends the default shell (shebang_kept, default_shell_prepended, "
              "prepared_has_interpreter); in script()'s command_parts every input's stage command precedes the wrapped command "
              "and every output's unstage command follows it (stage_before_unstage_after, every_input_staged, "
              "every_output_unstaged); a pair renders no copy command exactly when its two path strings are equal, every other pair is "
              "copied in / out with or without tempdir (no_command_iff_same_string, distinct_paths_staged_in, "
              "distinct_paths_unstaged_out); the value returned by postprocess_script has the shape of `outputs` with staging pairs "
              "↦ remote file, File('-') ↦ stdout, self-staged Files ↦ themselves (output_shape, output_leaves); and the second "
              "prepare_command that script_task applies to the full command leaves the user's command inside the here-document "
              "unchanged (second_prepare_keeps_command). Tied to /repo by byte-exact comparison of the model with the real "
              "functions and by executing the real wrapper with GNU bash.")
LEVEL_NOTE = ("partial: the runtime part (bash itself, mktemp/chmod/cp, the interpreter started by the shebang, the Scheduler "
              "running script_task and postprocess_script) is exercised by the tie only; bash's here-document rule, "
              "textwrap.dedent, str.strip and shlex.quote are transcribed into the model and trusted; cloud file systems "
              "(s3/gs/az copy commands, as_mount) are not modelled.")
TECHNIQUE = "Lean 4 proof over an executable model + model/implementation correspondence check incl. real bash execution"

NT = collections.namedtuple("NT", ["a", "b"])

# ------------------------------------------------------------------ text generator
EOFISH = ["EOF", "EOF1", "EOF2", "EOF3", "EOF10", "EOF11", "EOF01", " EOF", "EOF ", "EOF\r", "\tEOF", "EOFX", "EOF1 ",
          "E", "EO", "EOF-1", "eof", "\"EOF\"", "EOF\\"]
SAFE_LINES = ["echo hi", "echo \"$HOME\"", "echo '$x'", "x=`echo back`", "echo $(echo sub)", "echo a \\", "true", ":",
              "y=\"a b\"", "echo ${y:-z}", "echo \\$notvar", "echo 'single'\"double\"", "# comment", "cat <<EOF", "cat <<\"EOF\"",
              "cat <<'EOF1'", ")", "(", "echo é日本", "echo tab\there", "echo trailing  ", "echo cr\r", "\x0c", "\x0b",
              "\u00a0", "\u2003x", "echo \\", "\\", "$", "`", "'", "\"", "exit 0", "echo $0 $1 $@", "!", "echo !!"]
BLANKS = ["", " ", "  ", "\t", " \t ", "    "]
SHEBANGS = ["#!/bin/sh", "#!/bin/bash", "#!/usr/bin/env bash", "#!/usr/bin/env python3", "#!/bin/cat", "#! /bin/sh", "#!",
            "#!/usr/bin/env bash\nset -exo pipefail"]
INDENTS = ["", "", " ", "  ", "    ", "\t", "\t\t", " \t", "\t ", "        "]


def gen_lines(rng, n):
    out = []
    for _ in range(n):
        k = rng.random()
        if k < 0.35:
            out.append(rng.choice(EOFISH))
        elif k < 0.8:
            out.append(rng.choice(SAFE_LINES))
        elif k < 0.92:
            out.append(rng.choice(BLANKS))
        else:
            out.append("".join(rng.choice("EOF01 \t$`'\"\\ae\r") for _ in range(rng.randrange(0, 7))))
    return out


def gen_text(rng):
    """Arbitrary command text (never executed)."""
    k = rng.random()
    if k < 0.08:
        n = rng.randrange(1, 14)            # a chain EOF, EOF1, ..., EOF<n-1> in random order
        lines = ["EOF"] + ["EOF%d" % i for i in range(1, n)]
        rng.shuffle(lines)
        if rng.random() < 0.5:
            lines.insert(rng.randrange(len(lines) + 1), rng.choice(SAFE_LINES))
    else:
        lines = gen_lines(rng, rng.choice([0, 1, 1, 2, 3, 4, 6, 9]))
    if rng.random() < 0.3:
        lines.insert(0, rng.choice(SHEBANGS))
    # indentation (exercises dedent): common indent, or per-line indents
    k = rng.random()
    if k < 0.35:
        ind = rng.choice(INDENTS)
        lines = [ind + ln if (ln.strip(" \t") or rng.random() < 0.3) else ln for ln in lines]
    elif k < 0.55:
        lines = [rng.choice(INDENTS) + ln for ln in lines]
    # surrounding blank lines as in a triple-quoted string
    if rng.random() < 0.5:
        lines = [rng.choice(BLANKS)] * rng.randrange(0, 3) + lines + [rng.choice(BLANKS)] * rng.randrange(0, 3)
    return "\n".join(lines)


def text_trivial(t):
    return "\n" not in t and "EOF" not in t and t == t.strip()


# ------------------------------------------------------------------ nested staging structures
def to_nv(v, result=None):
    from redun.file import (ContentDir, ContentFile, ContentStagingDir, ContentStagingFile, Dir, File, IDir, IFile,
                            IStagingDir, IStagingFile, StagingDir, StagingFile)
    fam = {File: "p", IFile: "i", ContentFile: "c", Dir: "p", IDir: "i", ContentDir: "c",
           StagingFile: "p", IStagingFile: "i", ContentStagingFile: "c", StagingDir: "p", IStagingDir: "i",
           ContentStagingDir: "c"}
    t = type(v)
    if result is not None and v is result:
        return "R"
    if t is list:
        return "(L" + "".join(" " + to_nv(x, result) for x in v) + ")"
    if t is tuple:
        return "(U" + "".join(" " + to_nv(x, result) for x in v) + ")"
    if isinstance(v, tuple) and hasattr(v, "_fields"):
        return "(NT" + "".join(" " + to_nv(x, result) for x in v) + ")"
    if t is set:
        return "(S" + "".join(" " + to_nv(x, result) for x in v) + ")"
    if t is dict:
        return "(D" + "".join(" " + to_nv(x, result) for x in v.keys()) + "".join(" " + to_nv(x, result) for x in v.values()) + ")"
    if t in (File, IFile, ContentFile):
        return "(F %s F %s)" % (fam[t], sx(v.path))
    if t in (Dir, IDir, ContentDir):
        return "(F %s T %s)" % (fam[t], sx(v.path))
    if t in (StagingFile, IStagingFile, ContentStagingFile):
        return "(G %s F %s %s)" % (fam[t], to_nv(v.local), to_nv(v.remote))
    if t in (StagingDir, IStagingDir, ContentStagingDir):
        return "(G %s T %s %s)" % (fam[t], to_nv(v.local), to_nv(v.remote))
    if t in (int, str, bytes, type(None), bool):
        return "(O %s)" % sx(repr(v))
    raise TypeError("to_nv: " + repr(t))


PATH_PARTS = ["a", "b.txt", "out", "in put", "it's", "$HOME", "d/e", "é", "x;y", "`z`", "a\"b", "-", "--", "*", "~", "dir/",
              "back\\slash", "a&b", "tab\tx", "EOF"]


def gen_path(rng, dash_ok=False):
    k = rng.random()
    if dash_ok and k < 0.15:
        return "-"
    if k < 0.5:
        return rng.choice(["in", "out", "data", "res"]) + str(rng.randrange(5))
    p = "/".join(rng.choice(PATH_PARTS) for _ in range(rng.randrange(1, 3)))
    return p


def gen_leaf(rng, role):
    """role: 'in' (staging leaves, rarely something else) or 'out'."""
    from redun.file import (ContentDir, ContentFile, ContentStagingFile, Dir, File, IDir, IFile, IStagingFile, StagingDir,
                            StagingFile)
    fcls = rng.choice([File, File, File, IFile, ContentFile])
    dcls = rng.choice([Dir, Dir, IDir, ContentDir])
    k = rng.random()
    if rng.random() < 0.12:
        # the two sides spelled differently although they would be one file if both were resolved in the harness cwd:
        # relative vs absolute, "./x" vs "x" (with tempdir=True the relative side lives in the temp dir)
        n = rng.choice(["data.txt", "res", "in put", "sub/x.txt", "it's"])
        a, b = rng.choice([(os.path.abspath(n), n), (os.path.abspath(n), "./" + n), ("./" + n, n), (n, "./" + n), (n, os.path.abspath(n))])
        return rng.choice([fcls, fcls, dcls])(a).stage(b)
    if role == "in":
        if k < 0.45:
            return fcls(gen_path(rng)).stage(gen_path(rng))
        if k < 0.6:
            return dcls(gen_path(rng)).stage(gen_path(rng))
        if k < 0.7:
            p = gen_path(rng)
            return fcls(p).stage(p)                       # local == remote: no command
        if k < 0.8:
            return rng.choice([StagingFile, IStagingFile, ContentStagingFile])(gen_path(rng), gen_path(rng))
        if k < 0.88:
            return StagingFile(rng.choice([File, IFile])(gen_path(rng)), rng.choice([IFile, ContentFile])(gen_path(rng)))
        if k < 0.93:
            return StagingDir(gen_path(rng), gen_path(rng))
        if k < 0.985:
            return fcls(gen_path(rng).rstrip("/") or "f").stage()
        return rng.choice([fcls(gen_path(rng)), 7, "s"])      # not a Staging: AttributeError
    if k < 0.2:
        return File("-")
    if k < 0.4:
        return fcls(gen_path(rng, dash_ok=True))
    if k < 0.5:
        return dcls(gen_path(rng))
    if k < 0.7:
        return fcls(gen_path(rng)).stage(gen_path(rng))
    if k < 0.78:
        return dcls(gen_path(rng)).stage(gen_path(rng))
    if k < 0.84:
        return StagingFile(rng.choice([File, IFile])(gen_path(rng)), rng.choice([IFile, ContentFile, File])(gen_path(rng)))
    if k < 0.88:
        return fcls(gen_path(rng) + "/")
    return rng.choice([0, 1, "x", "-", None, True, b"b"])


def gen_nested(rng, role, depth):
    k = rng.random()
    if depth <= 0 or k < 0.35:
        return gen_leaf(rng, role)
    n = rng.choice([0, 1, 2, 2, 3])
    if k < 0.6:
        return [gen_nested(rng, role, depth - 1) for _ in range(n)]
    if k < 0.72:
        return tuple(gen_nested(rng, role, depth - 1) for _ in range(n))
    if k < 0.8:
        return NT(gen_nested(rng, role, depth - 1), gen_nested(rng, role, depth - 1))
    if k < 0.95 and (role == "out" or rng.random() < 0.1):     # dict keys are leaves too: str keys among inputs raise
        return {"k%d" % i: gen_nested(rng, role, depth - 1) for i in range(n)}
    return [[gen_nested(rng, role, depth - 1)]]


# ------------------------------------------------------------------ checks
def unS(a):
    if a == "none":
        return None
    assert a[0] == "s", a
    return bytes.fromhex(a[1:]).decode("utf-8")


def check_texts(ctx, texts):
    import shlex

    from redun.scripting import get_command_eof, get_wrapped_command, prepare_command
    reqs, meta = [], []
    for t in texts:
        pfx = ctx.rng.choice(["EOF", "EOF", "EOF", "E", "EOF1", "X9", ""])
        reqs += ["prep " + sx(t), "eof " + sx(t) + " " + sx(pfx), "wrap " + sx(t) + " " + sx(pfx), "quote " + sx(t)]
        meta.append(pfx)
    out = ctx.model("C29", reqs)
    for i, (t, pfx) in enumerate(zip(texts, meta)):
        m_prep, m_eof, m_wrap, m_quote = (unS(x) for x in out[4 * i:4 * i + 4])
        prep = prepare_command(t)
        eof = get_command_eof(t, eof_prefix=pfx)
        wrapped = get_wrapped_command(t, eof_prefix=pfx)
        lines = t.split("\n")
        ctx.case(key=None if text_trivial(t) else ("text", t, pfx), sample={"text": t[:80], "prefix": pfx, "eof": eof},
                 kind="text", n_lines=min(len(lines), 10), eof_index=(eof[len(pfx):] or "0"),
                 default_shell=not __import__("textwrap").dedent(t).strip().startswith("#!"))
        if m_prep != prep:
            ctx.mismatch("prepare_command differs from model prepare", case={"kind": "text", "text": t}, model=m_prep, impl=prep)
        if m_eof != eof:
            ctx.mismatch("get_command_eof differs from model commandEof", case={"kind": "text", "text": t, "prefix": pfx}, model=m_eof, impl=eof)
        if m_wrap != wrapped:
            ctx.mismatch("get_wrapped_command differs from model wrap", case={"kind": "text", "text": t, "prefix": pfx}, model=m_wrap, impl=wrapped)
        if m_quote != shlex.quote(t):
            ctx.mismatch("shlex.quote differs from model shQuote", case={"kind": "text", "text": t}, model=m_quote, impl=shlex.quote(t))
        # ---- oracle on the real code
        if eof in lines:
            ctx.violation("C29-terminator-is-a-command-line", "get_command_eof returned a terminator equal to a line of the command",
                          case={"kind": "text", "text": t, "prefix": pfx}, expected="a terminator that is not a line", actual=eof)
        if not eof.startswith(pfx):
            ctx.violation("C29-terminator-prefix", "terminator does not start with eof_prefix", case={"kind": "text", "text": t, "prefix": pfx},
                          expected=pfx + "...", actual=eof)
        body = __import__("textwrap").dedent(t).strip()
        want = body if body.startswith("#!") else "#!/usr/bin/env bash\nset -exo pipefail\n" + body
        if prep != want:
            ctx.violation("C29-prepare-not-dedented-command", "prepare_command is not the dedented text under the default shell / own shebang",
                          case={"kind": "text", "text": t}, expected=want, actual=prep)


SELF_PRINT = {
    "cat": ("#!/bin/cat", []),
    "default": (None, ['cat "$0"', "exit 0"]),
    "sh": ("#!/bin/sh", ['cat "$0"', "exit 0"]),
    "bash": ("#!/usr/bin/env bash", ['cat "$0"', "exit 0"]),
    "python3": ("#!/usr/bin/env python3", ["import sys", "sys.stdout.write(open(sys.argv[0], newline='').read())", "sys.exit(0)"]),
}


# commands that really run (harmless, deterministic, stdout only): literal tabs in data and in indentation, `<<-`
# here-documents whose terminator is tab-indented, nested blocks
EXEC_SNIPPETS = [
    "printf '%s\\n' 'a\tb'",
    "cat <<-END\n\tbody with\ttab\n\tEND\necho after",
    "cat <<-\"END\"\n\t\t$HOME `id`\n\tEND\necho after2",
    "cat <<END\n  spaced\tbody\nEND\necho after3",
    "printf 'x\\ty\\n' | cut -d'\t' -f2",
    "echo \"tab:[\t]\"",
    "x='\t'; echo \"${#x}\"",
    "printf 'a\\tb\\n' | tr '\t' ':'",
    "if true; then\n\techo nested\n\tif true; then\n\t\techo deeper\n\tfi\nfi",
    "echo EOF\necho EOF1",
    "for i in 1 2; do\n    echo \"i=$i\t.\"\ndone",
    "echo 'single \t quoted'  \t# trailing comment",
]

BASH_CORPUS = [
    ("exec", "\n\tcat <<-END\n\t\tbody\n\t\tEND\n\techo after\n"),
    ("exec", "\n    printf '%s\\n' 'a\tb'\n    printf 'x\\ty\\n' | cut -d'\t' -f2\n"),
    ("exec", "echo first\n    echo second\n    echo \"third\t.\""),
    ("default", "cat \"$0\"\n    exit 0\n    indented\tjunk\n    EOF"),
    ("cat", "#!/bin/cat\n\tkeep\tthese\ttabs\n  and these spaces\n\t\tEOF"),
    ("sh", "\t#!/bin/sh\n\tcat \"$0\"\n\texit 0\n\t\ttab\tinside\n\tEOF"),
]


def reference_text(text):
    """The text a script task must run, computed without redun: dedent, strip, default shell unless a shebang."""
    import textwrap
    body = textwrap.dedent(text).strip()
    return body if body.startswith("#!") else "#!/usr/bin/env bash\nset -exo pipefail\n" + body


def gen_runnable(rng):
    """Either a command that prints its own file and exits 0 (the rest is never executed by the interpreter), or
    (mode 'exec') a command that really runs and whose output is compared with running the reference text directly."""
    mode = rng.choice(["cat", "cat", "default", "default", "sh", "bash", "python3", "exec", "exec", "exec"])
    if mode == "exec":
        lines = "\n".join(rng.sample(EXEC_SNIPPETS, rng.choice([1, 2, 3]))).split("\n")
    else:
        sheb, head = SELF_PRINT[mode]
        if mode == "python3":
            tail = [rng.choice(["EOF", "EOF1", "EOF2", "EOF3", "# EOF", "#'\"$x`y`", "EOF ", "pass", "x = '$HOME'", "", "y = \"`z`\"", "EOF  # \\",
                                "t = '\t'  # tab"])
                    for _ in range(rng.randrange(0, 8))]
        else:
            tail = gen_lines(rng, rng.choice([0, 1, 2, 3, 5, 8]))
            if rng.random() < 0.15:
                n = rng.randrange(2, 13)
                chain = ["EOF"] + ["EOF%d" % i for i in range(1, n)]
                rng.shuffle(chain)
                tail += chain
        lines = ([sheb] if sheb else []) + head + tail
    ind = rng.choice(["", "", "    ", "\t", "\t", "\t\t"])
    k = rng.random()
    if k < 0.25 and len(lines) > 1 and mode != "python3":
        # the command starts right after the opening quotes: first line flush, the others indented
        lines = [lines[0]] + [(ind or "    ") + ln if ln.strip(" \t") else ln for ln in lines[1:]]
    else:
        lines = [ind + ln if ln.strip(" \t") else ln for ln in lines]
        if rng.random() < 0.5:
            lines = [""] + lines + [rng.choice(["", "    ", "\t"])]
    return mode, "\n".join(lines)


def run_proc(argv, cwd, timeout=20):
    """Run with stdin=/dev/null in its own process group; a hang is an outcome ('timeout'), not an infrastructure error."""
    import signal
    # the harness interpreter's directory first: `env python3` must not go through a slow version-manager shim
    env = {"PATH": os.path.dirname(sys.executable) + ":/usr/bin:/bin", "HOME": cwd, "TMPDIR": cwd, "LC_ALL": "C.UTF-8"}
    p = subprocess.Popen(argv, cwd=cwd, stdin=subprocess.DEVNULL, stdout=subprocess.PIPE, stderr=subprocess.PIPE, env=env,
                         start_new_session=True)
    try:
        so, se = p.communicate(timeout=timeout)
        return p.returncode, so, se
    except subprocess.TimeoutExpired:
        try:
            os.killpg(p.pid, signal.SIGKILL)
        except ProcessLookupError:
            pass
        so, se = p.communicate()
        return "timeout", so, se


def run_bash(script_text, cwd, name="wrapped.sh", direct=False):
    path = os.path.join(cwd, name)
    with open(path, "w", encoding="utf-8", newline="") as f:
        f.write(script_text)
    if direct:
        os.chmod(path, 0o755)
        return run_proc([path], cwd)
    return run_proc(["bash", path], cwd)


def dec(b):
    try:
        return b.decode("utf-8")
    except UnicodeDecodeError:
        return repr(b)


def check_bash(ctx, cases, tmp):
    from redun.scripting import get_wrapped_command, prepare_command
    reqs, meta = [], []
    for mode, text in cases:
        prep = prepare_command(text)
        wrapped = get_wrapped_command(prep)
        reqs += ["temp " + sx(wrapped), "prep " + sx(text)]
        meta.append((prep, wrapped, reference_text(text)))
    out = ctx.model("C29", reqs)
    from concurrent.futures import ThreadPoolExecutor

    def one(iw):
        i, (mode, (prep, wrapped, ref)) = iw
        d = os.path.join(tmp, "b%d" % i)
        os.mkdir(d)
        try:
            r = run_bash(wrapped, d)
            rr = run_bash(ref, d, name="reference", direct=True) if mode == "exec" else None
            return r, rr
        finally:
            shutil.rmtree(d, ignore_errors=True)
    with ThreadPoolExecutor(8) as ex:       # results are consumed in case order: deterministic
        ran = list(ex.map(one, enumerate(zip((m for m, _ in cases), meta))))
    for k, ((mode, text), (prep, wrapped, ref), ((rc, so, se), rr)) in enumerate(zip(cases, meta, ran)):
        got = dec(so)
        m_temp, m_prep = unS(out[2 * k]), unS(out[2 * k + 1])
        ctx.case(key=("bash", text), sample={"mode": mode, "text": text[:80]}, kind="bash", bash_mode=mode,
                 n_lines=min(text.count("\n") + 1, 12), has_tab="\t" in text, first_line_flush=bool(text) and text[0] not in " \t\n")
        case = {"kind": "bash", "mode": mode, "text": text}
        if m_prep != prep:
            ctx.mismatch("prepare_command differs from model prepare", case=case, model=m_prep, impl=prep)
        if mode == "exec":
            rrc, rso, rse = rr
            if rrc == "timeout":
                ctx.note("generator: reference command timed out: %r" % text[:80])
                continue
            if (rc, so) != (rrc, rso):
                what = ("the wrapped command does not terminate (killed after 20 s) although the dedented text run directly does"
                        if rc == "timeout" else "running the wrapped command gives another exit code / output than running the dedented text directly")
                ctx.violation("C29-wrapped-hangs" if rc == "timeout" else "C29-wrapped-output-differs", what, case=case,
                              expected="rc=%r stdout=%r" % (rrc, dec(rso)[:1500]), actual="rc=%r stdout=%r stderr=%r" % (rc, got[:1500], dec(se)[-300:]))
            continue
        # self-printing modes: stdout is the file that was executed
        if m_temp != got:
            ctx.mismatch("bytes written by real bash from the wrapper differ from the model's here-document reader", case=case,
                         model=m_temp, impl=got if rc == 0 else "rc=%r stdout=%r stderr=%r" % (rc, got[:300], dec(se)[-300:]))
        if m_prep + "\n" != got:
            ctx.mismatch("executed text differs from the model's strip(dedent(command)) under the default shell / own shebang", case=case,
                         model=m_prep + "\n", impl=got if rc == 0 else "rc=%r stdout=%r" % (rc, got[:300]))
        if rc != 0 or got != ref + "\n":
            ctx.violation("C29-wrapped-hangs" if rc == "timeout" else "C29-wrapper-not-byte-exact",
                          "executing the wrapped command with bash does not run exactly the dedented command text", case=case,
                          expected=ref + "\n", actual="rc=%r stdout=%r stderr=%r" % (rc, got[:2000], dec(se)[-300:]))
        want_default = mode == "default"
        if prep.startswith("#!/usr/bin/env bash\nset -exo pipefail\n") != want_default and mode != "bash":
            ctx.violation("C29-default-shell", "default shell prepended to a command with a shebang, or missing without one", case=case,
                          expected="default shell" if want_default else "own shebang", actual=prep[:60])


def gen_script_case(rng):
    k = rng.random()
    if k < 0.15:
        cmd = [rng.choice(["echo", "cat", "ls"])] + [gen_path(rng) for _ in range(rng.randrange(0, 3))]
    else:
        cmd = gen_text(rng) if k < 0.5 else rng.choice(["echo hi", "cat in > out", "  ls\n  EOF\n"])
    inputs = gen_nested(rng, "in", rng.choice([0, 1, 2, 3]))
    if rng.random() < 0.3:
        inputs = [inputs] if not isinstance(inputs, (list, tuple, dict)) else inputs
    outputs = "NULL" if rng.random() < 0.12 else gen_nested(rng, "out", rng.choice([0, 1, 2, 3]))
    return dict(cmd=cmd, inputs=inputs, outputs=outputs, tempdir=rng.random() < 0.35, as_mount=rng.random() < 0.1)


def leaves_py(v):
    from redun.utils import iter_nested_value
    return list(iter_nested_value(v))


def check_scripts(ctx, cases):
    import shlex

    from redun.file import File, Staging
    from redun.scripting import NULL, get_wrapped_command, postprocess_script, prepare_command, script
    real = []
    reqs = []
    for c in cases:
        kw = {}
        if c["outputs"] != "NULL":
            kw["outputs"] = c["outputs"]
        temp_path = None
        try:
            e = script(c["cmd"], inputs=c["inputs"], tempdir=c["tempdir"], as_mount=c["as_mount"], **kw)
            full, input_args, outs = e.args
            temp_path = e.kwargs["temp_path"]
            r = ("ok", full, input_args, outs, e.kwargs)
        except AttributeError:
            r = ("!AttributeError",)
        if temp_path is None and c["tempdir"]:
            # mkdtemp ran before the failure; its name is unknown -> nothing to remove but the newest *.tempdir
            pass
        real.append(r)
        cmd_s = shlex.join(c["cmd"]) if isinstance(c["cmd"], list) else c["cmd"]
        outs_in = File("-") if c["outputs"] == "NULL" else c["outputs"]
        # the model gets the temp dir name that mkdtemp produced (an external input)
        reqs.append("script %s %s %s %s" % (sx(cmd_s), to_nv(c["inputs"]), to_nv(outs_in), sx(temp_path) if temp_path else "N"))
    out = ctx.model("C29", reqs)
    post_reqs, post_meta = [], []
    for ci, (c, r, mo) in enumerate(zip(cases, real, out)):
        case = {"kind": "script", "cmd": c["cmd"], "inputs": to_nv(c["inputs"]),
                "outputs": "NULL" if c["outputs"] == "NULL" else to_nv(c["outputs"]), "tempdir": c["tempdir"]}
        in_leaves = leaves_py(c["inputs"])
        ctx.case(key=("script", reqs[ci]), sample={"inputs": case["inputs"][:100], "outputs": case["outputs"][:100]},
                 kind="script", n_inputs=min(len(in_leaves), 8), outcome=r[0], cmd_list=isinstance(c["cmd"], list), tempdir=c["tempdir"])
        if r[0] != "ok":
            if mo != r[0]:
                ctx.mismatch("script() raised but the model did not", case=case, model=mo, impl=r[0])
            continue
        _, full, input_args, outs, kwargs = r
        impl = "(ok %s %s %s)" % (sx(full), to_nv(input_args), to_nv(outs))
        if mo != impl:
            ctx.mismatch("script(): (full command, input args, preprocessed outputs) differ from model scriptCall", case=case, model=mo, impl=impl)
        if kwargs["temp_path"]:
            shutil.rmtree(kwargs["temp_path"], ignore_errors=True)
        # ---- oracle on the real code: ordering of the command parts, and no staging pair skipped.
        # Expected commands are derived here, not taken from render_stage/render_unstage: a pair must be copied whenever
        # its two sides are different files *in the directory the command runs in* (the temp dir when tempdir=True).
        cmd_s = shlex.join(c["cmd"]) if isinstance(c["cmd"], list) else c["cmd"]
        w = get_wrapped_command(prepare_command(cmd_s))
        pos = full.find(w)
        run_cwd = kwargs["temp_path"] if c["tempdir"] else os.getcwd()

        def resolve(path, run_cwd=run_cwd):
            return os.path.normpath(os.path.join(run_cwd, path))

        def expected(x, unstage):
            from redun.file import StagingDir
            src, dst = (x.local.path, x.remote.path) if unstage else (x.remote.path, x.local.path)
            cp = "cp %s%s %s" % ("-r " if isinstance(x, StagingDir) else "", shlex.quote(src), shlex.quote(dst))
            return [cp] if resolve(src) != resolve(dst) else [cp, ""]
        want_before = ([[shlex.join(["cd", kwargs["temp_path"]])]] if c["tempdir"] else []) + [expected(x, False) for x in in_leaves]
        want_after = [expected(x, True) for x in leaves_py(outs) if isinstance(x, Staging)]
        before, after = full[:pos], full[pos + len(w):]
        got_before = before.split("\n")[:-1] if pos > 0 else []
        got_after = after.split("\n")[1:] if after else []
        ok = pos >= 0 and full.count(w) == 1 and (before == "" or before.endswith("\n")) and (after == "" or after.startswith("\n"))
        ok = ok and len(got_before) == len(want_before) and len(got_after) == len(want_after)
        if ok:
            skipped = [wa[0] for g, wa in zip(got_before + got_after, want_before + want_after) if g == "" and wa == [wa[0]]]
            if skipped:
                ctx.violation("C29-staging-skipped", "script() renders no copy command for a staging pair whose two sides are different files "
                              "in the directory the command runs in", case=dict(case, full_command=full), expected=skipped, actual="no command")
            ok = all(g in wa for g, wa in zip(got_before + got_after, want_before + want_after) if not (g == "" and wa == [wa[0]]))
        if not ok:
            ctx.violation("C29-stage-order", "full command is not [cd] + stage(inputs) + wrapped command + unstage(outputs)", case=case,
                          expected={"before": want_before, "after": want_after}, actual=full)
        # every output File other than '-' must be (self-)staged; outputs keep their shape
        result = object()
        post_reqs.append("post " + to_nv(outs))
        post_reqs.append("exec " + sx(full))
        final = postprocess_script.func(result, outs, temp_path=None)
        post_meta.append((case, c, outs, final, result, full, prepare_command(cmd_s)))
    pout = ctx.model("C29", post_reqs)
    for k, (case, c, outs, final, result, full, prep) in enumerate(post_meta):
        mo = pout[2 * k]
        m_exec = unsx(pout[2 * k + 1])[0]
        executed = prepare_command(full)        # what get_task_command hands to exec_script for script_task
        if m_exec[0] != executed:
            ctx.mismatch("prepare_command(full_command) differs from model executedScript", case=case, model=m_exec[0], impl=executed)
        if str(m_exec[1]) == "none" or m_exec[1] != prep + "\n":
            ctx.mismatch("model: here-document in the executed script does not hold prepare_command(cmd)", case=case,
                         model=str(m_exec[1]), impl=prep + "\n")
        # the same reader on the real text: the user's command must survive the second prepare_command
        lines = executed.split("\n")
        try:
            i0 = next(i for i, ln in enumerate(lines) if ln.startswith('cat > "$COMMAND_FILE" <<"') and ln.endswith('"'))
            delim = lines[i0][len('cat > "$COMMAND_FILE" <<"'):-1]
            i1 = lines.index(delim, i0 + 1)
            body = "".join(ln + "\n" for ln in lines[i0 + 1:i1])
        except (StopIteration, ValueError):
            body = None
        if body != prep + "\n":
            ctx.violation("C29-second-prepare-alters-command", "prepare_command applied to the full command changes the user's command "
                          "inside the here-document", case=case, expected=prep + "\n", actual=body)
        impl = to_nv(final, result)
        if mo != impl:
            ctx.mismatch("postprocess_script differs from model postprocess", case=case, model=mo, impl=impl)
        # ---- oracle: same shape as `outputs`, staging ↦ remote file of the same class, File('-') ↦ result
        orig = File("-") if c["outputs"] == "NULL" else c["outputs"]
        bad = shape_diff(orig, final, result)
        if bad:
            ctx.violation("C29-output-shape", "value returned by postprocess_script is not `outputs` with staging pairs replaced by "
                          "remote files and File('-') by the result", case=case, expected=to_nv(orig), actual=impl + " :: " + bad)


def show_v(v):
    try:
        return to_nv(v)
    except Exception:  # noqa: BLE001
        return "<%s>" % type(v).__name__


def shape_diff(orig, final, result):
    from redun.file import File, Staging
    t = type(orig)
    if t in (list, tuple) or (isinstance(orig, tuple) and hasattr(orig, "_fields")):
        if type(final) is not t or len(final) != len(orig):
            return "container differs: %s vs %s" % (show_v(orig), show_v(final))
        for a, b in zip(orig, final):
            d = shape_diff(a, b, result)
            if d:
                return d
        return None
    if t is dict:
        if type(final) is not dict or list(final.keys()) != list(orig.keys()):
            return "dict keys differ"
        for k in orig:
            d = shape_diff(orig[k], final[k], result)
            if d:
                return d
        return None
    if isinstance(orig, Staging):
        if type(final) is not type(orig.remote) or final.path != orig.remote.path:
            return "staging leaf %s -> %s" % (show_v(orig), show_v(final))
        return None
    if isinstance(orig, File) and orig.path == "-":
        return None if final is result else "File('-') -> %s" % show_v(final)
    if isinstance(orig, File):
        if type(final) is not type(orig) or final.path != orig.path:
            return "file leaf %s -> %s" % (show_v(orig), show_v(final))
        return None
    if type(final) is not type(orig):
        return "leaf %s -> %s" % (show_v(orig), show_v(final))
    if hasattr(orig, "path"):
        return None if final.path == orig.path else "leaf %s -> %s" % (show_v(orig), show_v(final))
    return None if final == orig else "leaf %s -> %s" % (show_v(orig), show_v(final))


E2E_NAMES = ["in put", "it's", "a$b", "pl@in", "semi;colon", "é", "q\"uote", "star*", "back`tick`", "EOF"]

# fixed end-to-end cases, run first: staging pairs whose two sides are spelled differently but would denote the same
# file if both were resolved in the scheduler's cwd -- the script runs after `cd <tempdir>`, so they are different files
E2E_CORPUS = [
    dict(tempdir=True, ins=[dict(remote="{D}/data.txt", local="data.txt", content="alias in\n", isdir=False)], outs=[],
         stdout=True, nest="list", junk=[], indent="", mode="default"),
    dict(tempdir=True, ins=[], outs=[dict(remote="{D}/result.txt", local="result.txt", how="staged", isdir=False)],
         stdout=False, nest="list", junk=[], indent="    ", mode="default"),
    dict(tempdir=True, ins=[dict(remote="{D}/indir", local="indir", content="dir content\n", isdir=True)],
         outs=[dict(remote="{D}/outdir", local="outdir", how="staged", isdir=True)], stdout=True, nest="dict", junk=["EOF"], indent="", mode="bash"),
    dict(tempdir=True, ins=[dict(remote="{D}/a.txt", local="./a.txt", content="dot slash\n", isdir=False)],
         outs=[dict(remote="{D}/b.txt", local="./b.txt", how="staged", isdir=False)], stdout=False, nest="tuple", junk=[], indent="\t", mode="sh"),
    dict(tempdir=False, ins=[dict(remote="{D}/in.remote", local="in.local", content="control\n", isdir=False)],
         outs=[dict(remote="out.remote", local="out.local", how="staged", isdir=False),
               dict(remote="{D}/self.txt", local="{D}/self.txt", how="self", isdir=False)], stdout=True, nest="list", junk=[], indent="", mode="default"),
]


def gen_e2e(rng):
    """Spec of one end-to-end run.  `{D}` stands for the (absolute) working directory of the case = the scheduler's cwd."""
    n_in = rng.choice([0, 1, 1, 2, 3])
    n_out = rng.choice([0, 1, 1, 2])
    tempdir = rng.random() < 0.5
    names = list(E2E_NAMES)
    rng.shuffle(names)
    ins, outs = [], []
    for i in range(n_in):
        base, isdir = names[i], rng.random() < 0.25
        if tempdir:
            # the command runs in a fresh temp dir: remotes are absolute; the local side is relative to the temp dir and
            # in half of the cases carries the very name the remote has in the scheduler's cwd
            remote = "{D}/" + base + ".dat"
            local = rng.choice([base + ".dat", "./" + base + ".dat"]) if rng.random() < 0.5 else base + ".local"
        else:
            remote = rng.choice(["", "{D}/"]) + base + ".remote"
            local = base + ".local" if rng.random() < 0.85 else remote
        ins.append(dict(remote=remote, local=local, content="content %d %s\n" % (i, rng.choice(["x", "$HOME", "`id`", "EOF"])), isdir=isdir))
    for i in range(n_out):
        base, isdir = "o%d %s" % (i, rng.choice(["a", "b'c", "d e"])), rng.random() < 0.25
        how = rng.choice(["staged", "staged", "self"]) if not isdir else "staged"
        if tempdir:
            remote = "{D}/" + base + ".res"
            local = rng.choice([base + ".res", "./" + base + ".res"]) if rng.random() < 0.5 else base + ".local"
        else:
            remote = rng.choice(["", "{D}/"]) + base + ".remote"
            local = base + ".local"
        if how == "self":
            local = remote
        outs.append(dict(remote=remote, local=local, how=how, isdir=isdir))
    junk = gen_lines(rng, rng.choice([0, 1, 3, 6]))
    return dict(ins=ins, outs=outs, junk=junk, stdout=rng.random() < 0.7, nest=rng.choice(["list", "dict", "tuple"]),
                tempdir=tempdir, indent=rng.choice(["", "    ", "\t"]), mode=rng.choice(["default", "default", "sh", "bash"]))


def check_e2e(ctx, cases, tmp):
    import logging
    import shlex

    from redun import File, Scheduler, script
    from redun.file import Dir
    from redun.scripting import ScriptError, prepare_command
    logging.getLogger("redun").setLevel(logging.CRITICAL)
    cwd0 = os.getcwd()
    q = shlex.quote
    for ci, c in enumerate(cases):
        d = os.path.realpath(tempfile.mkdtemp(dir=tmp))
        os.chdir(d)

        def P(path, d=d):
            return path.replace("{D}", d)
        try:
            for i in c["ins"]:
                if i["isdir"]:
                    os.makedirs(P(i["remote"]))
                    with open(os.path.join(P(i["remote"]), "f.txt"), "w") as f:
                        f.write(i["content"])
                else:
                    with open(P(i["remote"]), "w") as f:
                        f.write(i["content"])
            lines = []
            sheb = SELF_PRINT[c["mode"]][0]
            if sheb:
                lines.append(sheb)
            lines.append('cat "$0"')
            # at command time, in the command's cwd: every input is staged, no output has been unstaged yet
            srcs = []
            for i in c["ins"]:
                src = P(i["local"]) + ("/f.txt" if i["isdir"] else "")
                srcs.append(src)
                lines.append("test -f %s || { echo INPUT-NOT-STAGED %s >&2; exit 41; }" % (q(src), q(src)))
            cat = "cat %s" % (" ".join(q(x) for x in srcs) or "/dev/null")
            for o in c["outs"]:
                if o["how"] != "self":
                    lines.append("test ! -e %s || { echo OUTPUT-UNSTAGED-EARLY >&2; exit 42; }" % q(P(o["remote"])))
                if o["isdir"]:
                    lines.append("mkdir -p %s && %s | tr a-z A-Z > %s" % (q(P(o["local"])), cat, q(P(o["local"]) + "/f.txt")))
                else:
                    lines.append("%s | tr a-z A-Z > %s" % (cat, q(P(o["local"]))))
            lines.append("exit 0")
            lines += c["junk"]
            text = "\n" + "\n".join(c["indent"] + ln if ln.strip(" \t") else ln for ln in lines) + "\n"
            inputs = [(Dir if i["isdir"] else File)(P(i["remote"])).stage(P(i["local"])) for i in c["ins"]]
            out_leaves = [File(P(o["remote"])) if o["how"] == "self" else (Dir if o["isdir"] else File)(P(o["remote"])).stage(P(o["local"]))
                          for o in c["outs"]]
            if c["stdout"]:
                out_leaves = [File("-")] + out_leaves
            if c["nest"] == "list":
                outputs = out_leaves
            elif c["nest"] == "tuple":
                outputs = (out_leaves, 5)
            else:
                outputs = {"k%d" % i: v for i, v in enumerate(out_leaves)}
            case = {"kind": "e2e", "spec": c, "text": text.replace(d, "{D}")}
            alias = any(os.path.basename(x["local"]) == os.path.basename(x["remote"]) and x["local"] != x["remote"] for x in c["ins"] + c["outs"])
            ctx.case(key=("e2e", case["text"], repr(c["ins"]), repr(c["outs"])), sample={"text": case["text"][:100]}, kind="e2e", n_inputs=len(inputs),
                     n_outputs=len(c["outs"]), nest=c["nest"], bash_mode=c["mode"], e2e_tempdir=c["tempdir"], same_name_pair=alias,
                     dirs=sum(1 for x in c["ins"] + c["outs"] if x["isdir"]))
            sched = Scheduler()
            sched.load()
            try:
                expr = script(text, inputs=inputs, outputs=outputs, tempdir=c["tempdir"])
                case["full_command"] = expr.args[0].replace(d, "{D}")
                res = sched.run(expr)
            except Exception as e:  # noqa: BLE001
                msg = e.message if isinstance(e, ScriptError) else str(e)
                msg = msg.decode("utf8", "replace") if isinstance(msg, bytes) else str(msg)
                if "INPUT-NOT-STAGED" in msg:
                    ctx.violation("C29-e2e-input-not-staged", "script(): an input of a staging pair is not present in the command's working "
                                  "directory when the command runs", case=case, expected="every input staged before the command",
                                  actual=msg.replace(d, "{D}")[-400:])
                elif "OUTPUT-UNSTAGED-EARLY" in msg:
                    ctx.violation("C29-e2e-output-unstaged-early", "script(): an output exists at its remote path before the command ran",
                                  case=case, expected="outputs unstaged after the command", actual=msg.replace(d, "{D}")[-400:])
                else:
                    ctx.violation("C29-e2e-script-failed", "script() with local staging failed", case=case, expected="success",
                                  actual=("%s: %s" % (type(e).__name__, msg)).replace(d, "{D}")[-600:])
                continue
            flat = res if c["nest"] == "list" else (res[0] if c["nest"] == "tuple" else list(res.values()))
            want_upper = "".join(i["content"] for i in c["ins"]).upper()
            problems, missing = [], []
            if c["nest"] == "tuple" and (type(res) is not tuple or res[1] != 5):
                problems.append("tuple shape lost: %r" % (res,))
            if c["nest"] == "dict" and (type(res) is not dict or list(res.keys()) != list(outputs.keys())):
                problems.append("dict shape lost: %r" % (res,))
            if len(flat) != len(out_leaves):
                problems.append("length %d != %d" % (len(flat), len(out_leaves)))
            else:
                specs = ([None] if c["stdout"] else []) + c["outs"]
                for got, leaf, o in zip(flat, out_leaves, specs):
                    if o is None:
                        want = (prepare_command(text) + "\n").encode()
                        if got != want:
                            problems.append("stdout %r != command file %r" % (got[:200], want[:200]))
                        continue
                    rpath = P(o["remote"])
                    cls = Dir if o["isdir"] else File
                    if type(got) is not cls or got.path != rpath:
                        problems.append("output leaf %s, expected %s(%r)" % (show_v(got), cls.__name__, o["remote"]))
                    fpath = os.path.join(rpath, "f.txt") if o["isdir"] else rpath
                    if not os.path.isfile(fpath):
                        missing.append(o["remote"])
                    elif open(fpath).read() != want_upper:
                        problems.append("remote %r has wrong content" % o["remote"])
            if missing:
                ctx.violation("C29-e2e-output-not-unstaged", "script() returned, but an output of a staging pair is not at its remote path",
                              case=case, expected="every output unstaged to its remote path after the command", actual={"missing": missing})
            if problems:
                ctx.violation("C29-e2e-result", "script() end-to-end: stdout / returned structure / remote files wrong", case=case,
                              expected="stdout = command file, remote files = upper-cased inputs", actual=problems)
        finally:
            os.chdir(cwd0)
            shutil.rmtree(d, ignore_errors=True)


CORPUS_TEXTS = [
    "EOF", "EOF\nEOF1", "EOF1\nEOF", "EOF\nEOF1\nEOF2\nEOF3", "EOF \nEOF", " EOF", "EOF\r", "EOF\r\nEOF1\r\n", "xEOF", "EOFEOF",
    "echo EOF", "", "\n", "\n\n", "  \n  EOF\n  ", "\tEOF\n\tEOF1", "  a\n\tb", "  a\n   b\n  c", "  a\n \n  b", "    #!/bin/sh\n    echo hi",
    "#!/bin/sh\necho hi", "#!", "#", " #!x", "\n#!/usr/bin/env python3\nprint(1)\n", "a\n#!/bin/sh", "echo \"$HOME\" `id` $(id) \\\nnext",
    "\x0c\n a", "a\n\x0b", "\u00a0a\u00a0", "\u2003 a", "a  ", "a\t\n", "  \n\n  ", "cat <<EOF\nhi\nEOF\n", "cat <<\"EOF\"\nEOF\nEOF1\nEOF1",
    "EOF\n" + "\n".join("EOF%d" % i for i in range(1, 25)), "EOF10\nEOF1\nEOF", "EOF01\nEOF1\nEOF", "  EOF\n  EOF1\nEOF2",
]


def run(ctx):
    rng = ctx.rng
    tmp = tempfile.mkdtemp(prefix="verif-c29-")
    saved_tempdir = tempfile.tempdir
    tempfile.tempdir = tmp          # script(tempdir=True) calls mkdtemp even when it then raises: keep those inside tmp
    saved_stdin = os.dup(0)         # commands started by redun's exec_script inherit our stdin: never let them wait on it
    devnull = os.open(os.devnull, os.O_RDONLY)
    os.dup2(devnull, 0)
    try:
        texts = list(CORPUS_TEXTS) + [gen_text(rng) for _ in range(ctx.n(800, 12000))]
        check_texts(ctx, texts)
        bash_cases = [("cat", "#!/bin/cat\n" + t) for t in CORPUS_TEXTS[:ctx.n(12, 40)]]
        bash_cases += list(BASH_CORPUS)
        bash_cases += [gen_runnable(rng) for _ in range(ctx.n(30, 500))]
        check_bash(ctx, bash_cases, tmp)
        check_scripts(ctx, [gen_script_case(rng) for _ in range(ctx.n(200, 2500))])
        check_e2e(ctx, list(E2E_CORPUS) + [gen_e2e(rng) for _ in range(ctx.n(4, 80))], tmp)
    finally:
        os.dup2(saved_stdin, 0)
        os.close(saved_stdin)
        os.close(devnull)
        tempfile.tempdir = saved_tempdir
        shutil.rmtree(tmp, ignore_errors=True)


def replay(ctx, case):
    c = case.get("case") or {}
    print("replay case:", str(c)[:500])
    tmp = tempfile.mkdtemp(prefix="verif-c29-")
    saved_tempdir = tempfile.tempdir
    tempfile.tempdir = tmp
    try:
        if isinstance(c, dict) and c.get("kind") == "text":
            check_texts(ctx, [c["text"]])
        elif isinstance(c, dict) and c.get("kind") == "bash":
            check_bash(ctx, [(c["mode"], c["text"])], tmp)
        elif isinstance(c, dict) and c.get("kind") == "e2e":
            check_e2e(ctx, [c["spec"]], tmp)
        else:
            run(ctx)
    finally:
        tempfile.tempdir = saved_tempdir
        shutil.rmtree(tmp, ignore_errors=True)
