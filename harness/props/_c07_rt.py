"""Runtime helper of the C07 check: the Handle class used by the generated handle workflows (must be importable by a
stable name; the type registry keys Handle classes by `type_name`)."""
from redun import Handle


class DbH(Handle):
    type_name = "verif.c07.DbH"

    def __init__(self, name, namespace=None):
        self.tag = name
