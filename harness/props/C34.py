"""C34 — tag values survive display (format_tag_value) and re-parsing as a command-line tag value (parse_tag_value).
Model: lean/RedunModel/Model/TagValue.lean (control flow of redun/tags.py; int/float/json are parameters with laws)."""
import json

from core import sx

ID = "C34"
# READY depends on the lead committing harness/findings_proposed/C34-quote-json-like-strings.fix.diff to /repo:
# the model mirrors the repaired format_tag_value; on the tree without the repair the check reports the F12 inputs.
READY = True
LEAN_MODULES = ["RedunModel.Props.C34"]
LEAN_DRIVERS = ["C34"]
THEOREMS = [
    "RedunModel.C34.total",
    "RedunModel.C34.roundtrip",
    "RedunModel.C34.strings_stay_strings",
    "RedunModel.C34.parse_dumps",
    "RedunModel.C34.parse_total_nonbracket",
    "RedunModel.C34.parse_isStr",
    "RedunModel.C34.parse_string_identity",
    "RedunModel.C34.key_value_roundtrip",
    "RedunModel.C34.formatOld_refuted_raises",
    "RedunModel.C34.formatOld_refuted_quoted",
    "RedunModel.C34.formatOld_partial",
    "RedunModel.C34.toyLaws",
]
TRUSTED = [
    "Python's int(str), float(str), json.loads, json.dumps(sort_keys=True) are parameters of the model; the theorems assume the laws "
    "LexLaws (Props/C34.lean): dumps of null/true/false is that literal and int()/float() reject the literals; dumps of an int is non-empty, "
    "does not start with [ { \" and int() reads it back; dumps of a float is rejected by int() and read back by float(); dumps of a str starts "
    "with \" and loads reads it back; dumps of a list/dict starts with [ or { and loads reads it back. Every law is exercised on the real "
    "functions for every generated value on every run (a failure is reported as a correspondence break); toyLaws shows the laws are consistent",
    "modelled, not verified: re.match('.*[ ,].*', s) = the first line of s contains a space or comma; str.split('=', 1); s[0], s[:1]",
    "the driver receives the real functions' answers for the texts of each case; the model's control flow decides what is done with them",
]
ASSUMPTIONS = [
    "JSON-compatible values: None, bool, int, finite float, str, list, dict with str keys (nested); no NaN/Infinity (nan != nan), "
    "no int beyond Python's 4300-digit str<->int limit, no lone surrogates in str (cannot be sent to the model as UTF-8)",
    "values are compared type-sensitively (1, 1.0 and True are different values; -0.0 and 0.0 differ) and dicts up to key order",
    "key=value round trip: keys non-empty and without '='; format_tag_key_value's trimming to max_length is display only and not part of the claim",
]
RULE = ("values from one PRNG: scalars (None, bools, ints incl. big/negative, finite floats incl. -0.0, 1e22, 5e-324), strings biased to "
        "leading [ { \", 'equivalent but different' unicode (NFD vs NFC, ANGSTROM/OHM/KELVIN signs, Hangul jamo, compatibility and "
        "full-width forms, zero-width joiners, astral characters, NBSP and other unusual blanks, non-ASCII digits), numeric look-alikes ('1_0', Arabic-Indic digits, ' 1', '1e5', 'nan', '-0', '0x10', 'inf'), literals, spaces/commas/"
        "newlines, random strings over a hostile alphabet, nested lists/dicts; for each value: format_tag_value on the real code vs model, "
        "parse_tag_value of the displayed text vs model, oracle parse(format(v)) == v, and key=value; plus a stream of raw command-line texts "
        "(valid and invalid JSON, numbers, literals) for parse_tag_value / parse_tag_key_value vs model. distinct = distinct canonical values "
        "/ texts; non-trivial = a string that is not plain alphanumeric, or a compound value")

LEVEL_TEXT = ("Proved in Lean on the model of the REPAIRED format_tag_value, for every JSON-compatible value and every int/float/json "
              "implementation satisfying LexLaws: total (display never fails; needs no law), roundtrip (parse(format v) = v), "
              "strings_stay_strings, key_value_roundtrip (key=display parses back to (key, v)); all full strength. On the model of the code "
              "before the repair: formatOld_refuted_raises ('[abc' raises), formatOld_refuted_quoted ('\"abc\"' comes back as 'abc'), "
              "formatOld_partial (round trip for everything that is not a string starting with [ { \"). toyLaws: the laws are consistent. "
              "Tie: format_tag_value / parse_tag_value / parse_tag_key_value on generated values and raw command-line texts vs the model fed "
              "with the real int()/float()/json answers; every law checked on the real functions per value; oracle = the round trip itself.")
LEVEL_NOTE = ("The model mirrors /repo WITH harness/findings_proposed/C34-quote-json-like-strings.fix.diff; on a tree without it the check reports "
              "VIOLATION with concrete replays ('\"abc\"', '[abc'), by design. int(), float(), json.loads, json.dumps are parameters with stated "
              "laws (assumed, exercised on every run, not proved about CPython). NaN/Infinity, ints beyond the 4300-digit limit and lone "
              "surrogates are outside 'JSON-compatible'. format_tag_key_value's trimming (display only) is not modelled.")
TECHNIQUE = "Lean 4 proof parametric in the lexical functions (laws checked against CPython per case) + differential round-trip testing of redun.tags"

ALPHA = "[{\"' ,\n0123456789abex.-+_=:}]\\tné١"


def canon(v):
    return json.dumps(v, sort_keys=True)


# ------------------------------------------------------------------ generator
STRINGS = [
    "", "abc", "[abc", '"abc"', '"abc', "{", "[", '"', "[1,2]", "[1, 2]", '{"a":1}', '{"a": 1}', '"a"', "[]", "{}", '""', '"\\""', "[abc]", "{a}",
    '"a" b', "]", "}", "'a'", "[\n]", '"a"b', '"\\u00e9"', "[true]", '"abc"\n',
    "12", "-12", "+12", "1_0", "١٢", " 1", "1 ", "1\n", "\t2", "1e5", "1E5", "nan", "NaN", "-0", "0x10", "0b1", "0o7", "1.", ".5", "1.5", "-1.5e-3",
    "inf", "-inf", "Infinity", "infinity", "1__0", "_1", "1_", "00", "007", "1e", "e5", "--1", "1.5.2", "１２", "1 ", " 1", "1j", "1/2",
    "1" * 30, "9" * 400, "1e400", "-1e400", "0.1", "1.0", "-0.0", "0e0", "١.٥",
    "true", "false", "null", "True", "False", "None", "TRUE", "Null", "true ", " null",
    "a b", "a,b", "a, b", " ", ",", "a\nb c", "a\n,", "\n", "\n ", "x\ny", "a\rb c", "a\tb", "tab\there", "a  b",
    "=", "a=b", "k=1", "=1", "a==b", "é", "日本", "\x00", "a\x00b", "\\", "\\n", "#", "$x", "%s", "-", "+", ".", "e", "_",
]


# "equivalent but different" unicode: a string must come back code point by code point, never a normalised / folded / stripped form
UNICODE = [
    "cafe\u0301", "caf\u00e9", "e\u0301", "\u0301", "a\u0308\u0323", "a\u0323\u0308", "\u212b", "\u00c5", "A\u030a", "\u2126", "\u03a9", "\u212a", "K",
    "\u1100\u1161", "\uac00", "\u1100\u1161\u11a8", "\u0340", "\uf900", "\u8c48", "\ufb01", "fi", "\u00b5", "\u03bc", "\u2160", "\u00bd", "\u00b2", "x\u00b2",
    "\uff11\uff12", "\uff21", "\uff0c", "a\uff0cb", "\u3000", "a\u3000b", "\u00a0", "\u00a0a", "a\u00a0", "a\u00a0b", "\u2003x", "x\u2028", "\u2029", "\u0085a", "\u1680",
    "\u200d", "a\u200db", "\u200b", "a\u200c", "\ufeff", "\ufeffabc", "\u2060", "\u00ad", "so\u00adft", "\u202e", "\u200e1",
    "\U0001f600", "\U0001f468\u200d\U0001f469\u200d\U0001f467", "\U00010400", "\U0001d7d9", "\U0001d7ce\U0001d7cf", "\U000e0041", "\U0001f1e6\U0001f1e7",
    "\u0130", "\u0131", "\u00df", "\u1e9e", "\u01c5", "\u03c2", "\u0661\u0301", "1\u0301", "tru\u0065\u0301", "nul\u006c\u0327", "\u2212" "1", "\u0660", "\u06f1\u06f2",
    "\u0967\u0968", "\u2460", "\u216b", "\u3007", "\u5341", "\u2153", "\u0bf0", "\u1369", "-\uff11", "\uff0b1", "\uff11\uff0e\uff15", "1\u066b5", "\u0661\u066b\u0665",
    "\u00e9\u0301", "\u1e0b\u0323", "\u0071\u0307\u0323", "\u0d4a", "\u0d46\u0d3e", "\u09cb", "\u09c7\u09be", "\u0958", "\u0915\u093c", "\u2adc", "\u1f71", "\u03ac",
]
STRINGS = STRINGS + UNICODE
UALPHA = "\u0301\u0308\u0323\u030a\u212b\u2126\u00a0\u200d\u200b\uff11\u3000\u1100\u1161\u00e9e\U0001f600\ufb01\u00ad"


def gen_string(rng):
    r = rng.random()
    if r < 0.12:
        return rng.choice(UNICODE)
    if r < 0.2:      # unicode material inside / around ordinary and number-like text
        s = rng.choice(STRINGS)
        i = rng.randrange(len(s) + 1)
        return s[:i] + "".join(rng.choice(UALPHA) for _ in range(rng.choice([1, 1, 2, 3]))) + s[i:]
    r = rng.random()
    if r < 0.45:
        return rng.choice(STRINGS)
    if r < 0.6:     # mutate a corpus string
        s = rng.choice(STRINGS)
        i = rng.randrange(len(s) + 1)
        return s[:i] + rng.choice(ALPHA) + s[i + rng.choice([0, 0, 1]):]
    if r < 0.7:     # the JSON display of another value, as a string
        return canon(gen_value(rng, 1))
    n = rng.choice([1, 1, 2, 2, 3, 4, 6, 9])
    return "".join(rng.choice(ALPHA) for _ in range(n))


def gen_scalar(rng):
    r = rng.random()
    if r < 0.5:
        return gen_string(rng)
    if r < 0.65:
        return rng.choice([0, 1, -1, 7, 10, -10, 255, 10 ** 6, -(10 ** 18), 10 ** 30 + 1, 2 ** 64, rng.randrange(-1000, 1000)])
    if r < 0.82:
        return rng.choice([0.0, -0.0, 1.0, -1.0, 1.5, 0.1, 1e22, 1e21, 1e16, 1e-7, 5e-324, 1.7976931348623157e308, 123456789.125, -2.5e-10, 3.0e10,
                           rng.uniform(-100, 100), float(rng.randrange(-50, 50))])
    return rng.choice([None, True, False])


def gen_value(rng, depth):
    r = rng.random()
    if depth <= 0 or r < 0.72:
        return gen_scalar(rng)
    n = rng.choice([0, 1, 1, 2, 3])
    if r < 0.86:
        return [gen_value(rng, depth - 1) for _ in range(n)]
    return {gen_string(rng): gen_value(rng, depth - 1) for _ in range(n)}


RAW_TEXTS = STRINGS + [
    '["a", 1]', '{"b": 1, "a": [null]}', '"a\\nb"', '[1, 2', '{"a"}', '{"a": }', "[NaN]", "[Infinity]", '{"a": 1, "a": 2}', '"\\ud800"x', "[1] ", " [1]",
    '"x" ', "[,]", "{1: 2}", "['a']", '[1e400]', '"', '"\\', "[[[[[[1]]]]]]", '{"a": {"b": {"c": [1.5, true]}}}',
]


def encodable(s):
    try:
        s.encode("utf-8")
        return True
    except UnicodeEncodeError:
        return False


# ------------------------------------------------------------------ protocol
def to_val(v):
    if v is None or v is True or v is False:
        return sx(v)
    if isinstance(v, int):
        return "i%d" % v
    if isinstance(v, float):
        return "(f " + sx(repr(v)) + ")"
    if isinstance(v, str):
        return sx(v)
    if isinstance(v, (list, dict)):
        return "(c " + sx(canon(v)) + ")"
    raise TypeError(type(v))


def or_int(s):
    try:
        return "i%d" % int(s)
    except ValueError:
        return "E"


def or_float(s):
    try:
        return "(f " + sx(repr(float(s))) + ")"
    except ValueError:
        return "E"


def or_loads(s):
    try:
        v = json.loads(s)
    except ValueError:      # JSONDecodeError
        return "E"
    except RecursionError:
        return "E"
    if isinstance(v, str) and not encodable(v):
        return None
    return to_val(v)


def oracles(s):
    lo = or_loads(s)
    if lo is None:
        return None
    return "%s %s %s" % (or_int(s), or_float(s), lo)


def nontrivial(v):
    if isinstance(v, str):
        return not v.isalnum() or not v.isascii() or v[:1].isdigit() or v in ("true", "false", "null", "nan", "inf")
    return isinstance(v, (list, dict, float))


def klass(v):
    if isinstance(v, str):
        if v[:1] in ("[", "{", '"'):
            return "str-json-like"
        if or_int(v) != "E" or or_float(v) != "E":
            return "str-number-like"
        if v in ("true", "false", "null"):
            return "str-literal"
        if any(c in v for c in " ,"):
            return "str-space-comma"
        return "str-other" if v else "str-empty"
    return type(v).__name__


def check_laws(ctx, v):
    """LexLaws on the real int/float/json for this value."""
    d = json.dumps(v, sort_keys=True)
    bad = None
    if v is None or v is True or v is False:
        lit = {None: "null", True: "true", False: "false"}[v]
        if d != lit or or_int(lit) != "E" or or_float(lit) != "E":
            bad = "literal"
    elif isinstance(v, int):
        if not d or d[0] in '[{"' or or_int(d) != "i%d" % v:
            bad = "dumps_int"
    elif isinstance(v, float):
        if not d or d[0] in '[{"' or or_int(d) != "E" or or_float(d) != "(f " + sx(repr(v)) + ")":
            bad = "dumps_float"
    elif isinstance(v, str):
        if d[:1] != '"' or json.loads(d) != v:
            bad = "dumps_str"
    else:
        if d[:1] not in "[{" or canon(json.loads(d)) != canon(v):
            bad = "dumps_compound"
    if bad:
        ctx.mismatch("law LexLaws.%s does not hold of the real int/float/json (trusted base broken)" % bad, case=repr(v)[:200], model="law", impl=d[:200])


def check_string_identity(ctx, t, p_impl):
    """parse_string_identity on the real parse_tag_value: a text that is not empty, does not start with [ { ", and is rejected by
    int(), float() and the literal table is returned unchanged, code point by code point (no normalisation, folding or stripping)."""
    if t and t[:1] not in ("[", "{", '"') and or_int(t) == "E" and or_float(t) == "E" and t not in ("true", "false", "null"):
        ctx.count("parse_string_identity", "checked")
        if p_impl != "ok " + sx(t):
            ctx.violation("C34-parse-string-branch-not-identity", "parse_tag_value does not return a plain string text unchanged "
                          "(code point by code point)", case={"value": t, "text": t}, expected="ok " + sx(t), actual=p_impl)


# ------------------------------------------------------------------ run
def run(ctx, only=None):
    from redun.tags import ANY_VALUE, format_tag_value, parse_tag_key_value, parse_tag_value
    rng = ctx.rng

    def impl_parse(t):
        try:
            return "ok " + to_val(parse_tag_value(t)), None
        except ValueError:
            return "!ValueError", None
        except Exception as e:  # noqa: BLE001
            return "!" + type(e).__name__, e

    values = []
    if only is not None:
        values = list(only)
    else:
        values += ['"abc"', "[abc", "{", '"', '{"a": 1}', "[1, 2]"]           # F12 witnesses first
        values += STRINGS
        values += [None, True, False, 0, -1, 10 ** 30, 0.0, -0.0, 1.0, 1e22, 5e-324, [], {}, [1, "a", None], {"b": 1, "a": [1.5, {"c": "[x"}]},
                   ["[abc", '"q"'], {"[": "{"}, [[]], [1.0], {"": ""}]
        for _ in range(ctx.n(4000, 60000)):
            values.append(gen_value(rng, rng.choice([0, 0, 1, 2, 3])))
    values = [v for v in values if encodable(canon(v)) and (not isinstance(v, str) or encodable(v))]

    reqs, plan = [], []
    for v in values:
        check_laws(ctx, v)
        # --- real code
        try:
            text = format_tag_value(v)
            f_impl = "ok " + sx(text)
        except ValueError:
            text, f_impl = None, "!ValueError"
        except Exception as e:  # noqa: BLE001
            text, f_impl = None, "!" + type(e).__name__
        own = oracles(v) if isinstance(v, str) else "E E E"
        if own is None:
            continue
        reqs.append("format %s %s %s" % (to_val(v), sx(json.dumps(v, sort_keys=True)), own))
        plan.append(("format", v, f_impl))
        ctx.case(key=("v", canon(v)) if nontrivial(v) else None, sample=sample(ctx, v, text), klass=klass(v),
                 display="raises" if text is None else ("raw" if text == v else "json"))
        # --- property oracle on the real code
        if text is None:
            sig = "C34-format-raises-on-json-like-string" if isinstance(v, str) and v[:1] in ("[", "{", '"') else "C34-format-raises"
            ctx.violation(sig, "format_tag_value raises on a JSON-compatible value", case={"value": v}, expected="a display text", actual=f_impl)
            continue
        if not isinstance(text, str) or not encodable(text):
            ctx.violation("C34-format-not-text", "format_tag_value returned a non-text", case={"value": v}, expected="str", actual=repr(text)[:100])
            continue
        p_impl, err = impl_parse(text)
        check_string_identity(ctx, text, p_impl)
        o = oracles(text)
        if o is not None:
            reqs.append("parse %s %s" % (sx(text), o))
            plan.append(("parse", text, p_impl))
        want = "ok " + to_val(v)
        if p_impl != want:
            if isinstance(v, str) and v[:1] in ("[", "{", '"') and text == v:
                sig = "C34-json-like-string-displayed-raw"
            elif isinstance(v, str):
                sig = "C34-string-does-not-stay-string"
            else:
                sig = "C34-roundtrip-differs"
            ctx.violation(sig, "parse_tag_value(format_tag_value(v)) is not v", case={"value": v, "display": text}, expected=want, actual=p_impl)
        # key=value
        key = rng.choice(["k", "key", "a.b", "é", "k 1", "[", "0"])
        kv = key + "=" + text
        try:
            k2, v2 = parse_tag_key_value(kv)
            kv_impl = "ok %s %s" % (sx(k2), "ANY" if v2 is ANY_VALUE else to_val(v2))
        except ValueError:
            kv_impl = "!ValueError"
        if o is not None:
            reqs.append("parsekv %s T %s" % (sx(kv), o))
            plan.append(("parsekv", kv, kv_impl))
        if kv_impl != "ok %s %s" % (sx(key), to_val(v)) and p_impl == want:
            ctx.violation("C34-key-value-roundtrip", "parse_tag_key_value(key=display) is not (key, v)", case={"key": key, "value": v, "text": kv},
                          expected="ok %s %s" % (sx(key), to_val(v)), actual=kv_impl)

    # ---------------- raw command-line texts (incl. invalid JSON): parse_tag_value / parse_tag_key_value vs model
    if only is None:
        raws = list(RAW_TEXTS)
        for _ in range(ctx.n(1500, 20000)):
            raws.append(gen_string(rng) if rng.random() < 0.7 else canon(gen_value(rng, 2))[: rng.choice([3, 8, 200])])
        for t in raws:
            if not encodable(t):
                continue
            o = oracles(t)
            if o is None:
                continue
            p_impl, err = impl_parse(t)
            check_string_identity(ctx, t, p_impl)
            reqs.append("parse %s %s" % (sx(t), o))
            plan.append(("parse", t, p_impl))
            ctx.case(key=("t", t) if nontrivial(t) else None, stream="raw-text", parse="error" if p_impl.startswith("!") else p_impl[3:4])
            if err is not None:
                ctx.violation("C34-parse-raises-non-valueerror", "parse_tag_value raised something other than ValueError", case={"text": t},
                              expected="value or ValueError", actual=p_impl)
            # key=value forms
            form = rng.choice(["k=" + t, t, "=" + t, "k" + t, ""])
            req = rng.random() < 0.5
            vpart = form.split("=", 1)[1] if "=" in form else ""
            o2 = oracles(vpart)
            if o2 is None:
                continue
            try:
                k2, v2 = parse_tag_key_value(form, value_required=req)
                kv_impl = "ok %s %s" % (sx(k2), "ANY" if v2 is ANY_VALUE else to_val(v2))
            except ValueError:
                kv_impl = "!ValueError"
            except Exception as e:  # noqa: BLE001
                kv_impl = "!" + type(e).__name__
            reqs.append("parsekv %s %s %s" % (sx(form), "T" if req else "F", o2))
            plan.append(("parsekv", (form, req), kv_impl))

    out = ctx.model("C34", reqs)
    for (kind, data, impl), mo in zip(plan, out):
        if mo != impl:
            what = {"format": "format_tag_value differs from model format (the model has the proposed repair)",
                    "parse": "parse_tag_value differs from model parse",
                    "parsekv": "parse_tag_key_value differs from model parseKeyValue"}[kind]
            ctx.mismatch(what, case=repr(data)[:300], model=mo, impl=impl)


_S = {}


def sample(ctx, v, text):
    k = (id(ctx), klass(v))
    if k in _S or text is None or not nontrivial(v) or klass(v) in ("str-other", "str-empty"):
        return None
    _S[k] = 1
    return {"value": repr(v)[:100], "display": text[:100]}


def replay(ctx, case):
    c = case.get("case") or {}
    print("replay case:", json.dumps(c, default=repr)[:500])
    if isinstance(c, dict) and "value" in c:
        run(ctx, only=[c["value"]])
    else:
        run(ctx)
