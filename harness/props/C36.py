"""C36 — schema migrations preserve recorded data.
The revision list and every upgrade() are REGENERATED from /repo (harness/translate_migrations.py ->
lean/RedunModel/Generated/Migrations.lean) on every run; theorems: lean/RedunModel/Props/C36.lean."""
import calendar
import logging
import os
import re
import shutil
import sqlite3
import tempfile
import time

import translate_migrations
from core import unsx

ID = "C36"
READY = True
LEAN_MODULES = ["RedunModel.Props.C36"]
LEAN_DRIVERS = ["C36"]
GENERATORS = [translate_migrations.generate]
THEOREMS = [
    "RedunModel.C36.chain_linear",
    "RedunModel.C36.chain_classified",
    "RedunModel.C36.structural_preserve",
    "RedunModel.C36.data_ops_preserve_partial",
    "RedunModel.C36.migrate_preserve_partial",
    "RedunModel.C36.refuted_subsecond",
    "RedunModel.C36.refuted_subsecond_rounds_up",
]
TRUSTED = [
    "the translator harness/translate_migrations.py (Python ast -> list of guarded ops; raises on anything outside its grammar) and "
    "the hand-written meaning of the ops in Model/Migrate.lean: structural ops from their arguments; the two Python data migrations "
    "and seven raw SQL statements by the sha1 of their text (a changed text is an unknown hash => chain_classified fails)",
    "modelled, not verified: alembic batch_alter_table on sqlite (table copy keeps rows, values and column order; new columns last), "
    "sqlite datetime(x,'utc') under TZ=UTC, recursive CTE of the execution_id backfill (nearest ancestor-or-self with an Execution), "
    "foreign keys, transaction atomicity of a revision",
    "only the sqlite dialect is modelled and exercised; operations guarded for PostgreSQL are outside the claim",
]
ASSUMPTIONS = [
    "TZ=UTC for the run (the 3.3->3.4 sqlite migration reinterprets stored local times as UTC: with another TZ the stored values change "
    "by design)",
    "populated databases respect the foreign keys and the recorder's shapes of their version: only root jobs are the job of an Execution, "
    "at most one Execution per job; at 2.3 job.execution_id is NULL or the execution of the job's root; from 3.0 on every root job has an "
    "Execution",
    "a NULL job.execution_id (schema 2.3) that the 3.0 migration fills in is not counted as a changed value",
    "alembic_version (alembic's own bookkeeping row) is not recorded data; timestamps are compared as instants (x.000000 = x)",
]
RULE = ("for each of the library's schema versions: the schema is created at that version by the real alembic chain, every table is populated "
        "with generated foreign-key-consistent rows (job forests with/without executions, lonely tasks, timestamps with zero / non-zero / "
        "no fractional seconds, NULLs, blobs, long type names, tags), upgraded with RedunBackendDb.migrate(), compared row by row (by primary "
        "key) with the pre-upgrade snapshot and cell by cell with the Lean model's result, then load()ed and used to run a workflow twice "
        "(second run must be a cache hit). distinct = (version, populated row multiset); trivial = an empty database")
LEVEL_TEXT = ("chain_linear and chain_classified are decided on the REGENERATED revision list (one chain, equal to REDUN_DB_VERSIONS, ending inside "
              "the required range; every op that runs on sqlite is structural or one of the known data migrations). structural_preserve is full "
              "strength (any structural op keeps every cell of every row). data_ops_preserve_partial / migrate_preserve_partial: ANY op / the whole "
              "upgrade from ANY revision keeps every row and every cell, except that job.start_time/end_time are kept only up to dropping fractional "
              "seconds (dtUtc: sqlite rounds to milliseconds, then cuts to whole seconds) and job.execution_id is recomputed; refuted_subsecond / refuted_subsecond_rounds_up are the closed counter-examples to full preservation "
              "(DESIGN F17). Tied to the code by the translator and by differential upgrades of populated real databases from every version.")
LEVEL_NOTE = ("PARTIAL: full preservation is false on the current code (sub-second truncation by the 3.3->3.4 sqlite migration, a known finding). "
              "alembic/sqlite behaviour is modelled, not verified; PostgreSQL branches, downgrades, concurrent writers and failures in the middle of "
              "a revision are outside the model.")
TECHNIQUE = "source-to-Lean translation of the alembic revisions + preservation proof over an abstract database + differential upgrades of populated real databases"

TS_RE = re.compile(r"^(\d{4}-\d\d-\d\d \d\d:\d\d:\d\d)(\.\d+)?$")
SKIP_TABLES = {"alembic_version"}


def quiet():
    import redun.logging  # noqa: F401
    logging.getLogger("redun").setLevel(logging.CRITICAL)
    logging.getLogger("alembic").setLevel(logging.CRITICAL)


# ------------------------------------------------------------------ snapshots
def table_info(con):
    out = {}
    for (name,) in con.execute("select name from sqlite_master where type='table' and name not like 'sqlite_%' order by name"):
        if name in SKIP_TABLES:
            continue
        info = con.execute('pragma table_info("%s")' % name).fetchall()
        out[name] = dict(cols=[r[1] for r in info], types=[(r[2] or "").upper() for r in info],
                         pk=[r[1] for r in sorted(info, key=lambda r: r[5]) if r[5] > 0])
    return out


def enc(v, decl):
    if v is None:
        return "N"
    if isinstance(v, int):
        return "i%d" % v
    if isinstance(v, bytes):
        return "b" + v.hex()
    if isinstance(v, float):
        return "s" + repr(v).encode().hex()
    if isinstance(v, str):
        if "DATETIME" in decl or "TIMESTAMP" in decl:
            m = TS_RE.match(v)
            if m:
                try:
                    sec = calendar.timegm(time.strptime(m.group(1), "%Y-%m-%d %H:%M:%S"))
                except ValueError:
                    return "s" + v.encode().hex()
                return "(T i%d s%s)" % (sec, (m.group(2) or "").encode().hex())
        return "s" + v.encode("utf-8", "surrogatepass").hex()
    raise TypeError(type(v))


def snapshot(path):
    con = sqlite3.connect(path)
    info = table_info(con)
    snap = {}
    for t, d in info.items():
        rows = con.execute('select * from "%s" order by rowid' % t).fetchall()
        snap[t] = dict(d, rows=[[enc(v, ty) for v, ty in zip(r, d["types"])] for r in rows])
    con.close()
    return snap


def request_line(start_rev, snap):
    parts = ["mig", "s" + start_rev.encode().hex()]
    for t in sorted(snap):
        d = snap[t]
        rows = " ".join("(row " + " ".join(r) + ")" for r in d["rows"])
        parts.append("(tbl s%s (cols %s)%s)" % (t.encode().hex(), " ".join("s" + c.encode().hex() for c in d["cols"]),
                                                 " " + rows if rows else ""))
    return " ".join(parts)


def parse_reply(reply):
    """-> {table: (cols, sorted row-token-lists)} from the model's `ok (tbl ...)...` reply"""
    if not reply.startswith("ok"):
        return reply
    out = {}
    # split on top-level "(tbl " to keep the raw value tokens (cheaper and exact)
    for chunk in reply[3:].split("(tbl ")[1:]:
        chunk = chunk.strip()
        assert chunk.endswith(")")
        chunk = chunk[:-1]
        name_tok, rest = chunk.split(" ", 1)
        name = bytes.fromhex(name_tok[1:]).decode()
        m = re.match(r"\(cols([^)]*)\)(.*)$", rest, re.S)
        cols = [bytes.fromhex(c[1:]).decode() for c in m.group(1).split()]
        rows = []
        for rm in re.finditer(r"\(row ((?:[^()]|\([^()]*\))*)\)", m.group(2)):
            rows.append(re.findall(r"\([^()]*\)|[^\s()]+", rm.group(1)))
        out[name] = (cols, sorted(rows))
    return out


# ------------------------------------------------------------------ population
def ts(rng):
    base = "20%02d-%02d-%02d %02d:%02d:%02d" % (rng.randrange(19, 25), rng.randrange(1, 13), rng.randrange(1, 29),
                                                 rng.randrange(24), rng.randrange(60), rng.randrange(60))
    k = rng.random()
    if k < 0.08:
        return base + ".%06d" % rng.choice([999500, 999499, 999999, 999612, 999500 + rng.randrange(500)])   # sqlite rounds to ms
    if k < 0.45:
        return base + ".%06d" % rng.randrange(1, 1000000)
    if k < 0.75:
        return base + ".000000"
    if k < 0.9:
        return base
    return base + ".%06d" % (rng.randrange(1, 1000) * 1000)


def populate(rng, path, version, size, witness=False):
    """Insert generated rows with sqlite3 (only the columns that exist at this schema version)."""
    con = sqlite3.connect(path)
    info = table_info(con)
    counts = {}

    def ins(table, **vals):
        if table not in info:
            return
        cols = [c for c in info[table]["cols"] if c in vals]
        con.execute('insert into "%s" (%s) values (%s)' % (table, ", ".join('"%s"' % c for c in cols), ", ".join("?" for _ in cols)),
                    [vals[c] for c in cols])
        counts[table] = counts.get(table, 0) + 1

    if size == 0:
        con.commit()
        con.close()
        return counts
    n = lambda lo, hi: rng.randrange(lo, hi + 1)
    tasks = ["t%02d" % i for i in range(n(1, 2 + size))]
    for t in tasks:
        ins("task", hash=t, name=rng.choice(["f", "g", "script_task", "main"]), namespace=rng.choice(["", "ns", "redun"]),
            source="def f():\n    return %d\n" % rng.randrange(9))
    values = ["v%02d" % i for i in range(n(1, 3 + 2 * size))]
    types = ["builtins.int", "builtins.str", "redun.File", "redun.ErrorValue", "builtins.list", "pkg.mod." + "LongTypeName" * 12]
    vtype = {}
    for v in values:
        vtype[v] = rng.choice(types)
        ins("value", value_hash=v, type=vtype[v], format=rng.choice(["application/python-pickle", "application/octet-stream"]),
            value=bytes(rng.randrange(256) for _ in range(rng.choice([0, 1, 5, 40]))))
    for t in tasks:     # companion Value rows for some tasks; the others are "lonely"
        if rng.random() < 0.5:
            ins("value", value_hash=t, type="redun.Task", format="application/python-pickle", value=b"\x80\x04companion" + t.encode())
    for v in values:
        if vtype[v] == "redun.File":
            ins("file", value_hash=v, path=rng.choice(["/tmp/a.txt", "s3://bucket/key", "rel/p a th.txt"]))
    seen = set()
    for _ in range(n(0, 2 * size)):
        a, b = rng.choice(values), rng.choice(values)
        if a != b and (a, b) not in seen:
            seen.add((a, b))
            ins("subvalue", value_hash=a, parent_value_hash=b)
    handles = ["h%02d" % i for i in range(n(0, size))]
    for h in handles:
        ins("handle", hash=h, fullname="ns.Handle", value_hash=rng.choice(values), key=rng.choice(["k", "conn"]), is_valid=rng.randrange(2))
    seen = set()
    for _ in range(n(0, size)):
        if len(handles) >= 2:
            a, b = rng.sample(handles, 2)
            if (a, b) not in seen:
                seen.add((a, b))
                ins("handle_edge", parent_id=a, child_id=b)
    calls = ["c%02d" % i for i in range(n(1, 2 + 2 * size))]
    for c in calls:
        ins("call_node", call_hash=c, task_name=rng.choice(["f", "ns.g"]), task_hash=rng.choice(tasks), args_hash="a" + c,
            value_hash=rng.choice(values), timestamp=ts(rng))
    args = ["g%02d" % i for i in range(n(0, 2 * size))]
    for a in args:
        pos = rng.random() < 0.5
        ins("argument", arg_hash=a, call_hash=rng.choice(calls), value_hash=rng.choice(values),
            arg_position=rng.randrange(4) if pos else None, arg_key=None if pos else rng.choice(["x", "y"]))
    seen = set()
    for _ in range(n(0, size)):
        if args:
            k = (rng.choice(args), rng.choice(calls))
            if k not in seen:
                seen.add(k)
                ins("argument_result", arg_hash=k[0], result_call_hash=k[1])
    seen = set()
    for _ in range(n(0, 2 * size)):
        k = (rng.choice(calls), rng.choice(calls), rng.randrange(3))
        if k not in seen:
            seen.add(k)
            ins("call_edge", parent_id=k[0], child_id=k[1], call_order=k[2])
    seen = set()
    for _ in range(n(0, 2 * size)):
        k = (rng.choice(calls), rng.choice(tasks))
        if k not in seen:
            seen.add(k)
            ins("call_subtree_task", call_hash=k[0], task_hash=k[1])
    for i in range(n(0, size)):
        ins("evaluation", eval_hash="e%02d" % i, task_hash=rng.choice(tasks), args_hash="ea%d" % i, value_hash=rng.choice(values))
    # job forests
    has_exec_col = "execution_id" in info["job"]["cols"]
    exec_notnull = (version.major, version.minor) >= (3, 0)
    jn = 0
    for r in range(n(1, 1 + size)):
        root = "j%03d" % jn
        jn += 1
        with_exec = exec_notnull or rng.random() < 0.6
        ex = "x%03d" % r if with_exec else None
        tree_exec_ids = ex if (has_exec_col and (exec_notnull or rng.random() < 0.5)) else None
        members = [(root, None)]
        for _ in range(n(0, 1 + size)):
            members.append(("j%03d" % jn, rng.choice(members)[0]))
            jn += 1
        if with_exec:
            # the execution row first or last does not matter for sqlite3 without FK enforcement
            ins("execution", id=ex, args=rng.choice(['["main"]', '["run", "wf.py", "main", "--x", "1"]']), job_id=root,
                updated_time=None if rng.random() < 0.5 else ts(rng))
        for j, parent in members:
            ended = rng.random() < 0.8
            ins("job", id=j, start_time=ts(rng), end_time=ts(rng) if ended else None, task_hash=rng.choice(tasks),
                cached=rng.randrange(2), call_hash=rng.choice(calls) if ended else None, parent_id=parent,
                execution_id=tree_exec_ids)
    if witness:      # DESIGN F17: a job started at ...05.678901
        ins("job", id="jF17", start_time="2024-01-02 03:04:05.678901", end_time=None, task_hash=tasks[0], cached=0, call_hash=None,
            parent_id="j000", execution_id=("x000" if has_exec_col else None))
    tags = ["T%02d" % i for i in range(n(0, 2 * size))]
    for t in tags:
        ins("tag", tag_hash=t, entity_type=rng.choice(["Execution", "Job", "CallNode", "Task", "Value", "Null"]),
            entity_id=rng.choice(values + calls + tasks), key=rng.choice(["env", "user", "k"]),
            value=rng.choice(['"prod"', '1', '{"a": [1, 2]}', 'null']), is_current=rng.randrange(2))
    seen = set()
    for _ in range(n(0, size)):
        if len(tags) >= 2 and "tag_edit" in info:
            a, b = rng.sample(tags, 2)
            if (a, b) not in seen:
                seen.add((a, b))
                ins("tag_edit", parent_id=a, child_id=b)
    if rng.random() < 0.5:
        ins("redun_version", id="rv-extra", version=version.major, timestamp=ts(rng))
    con.commit()
    con.close()
    return counts


# ------------------------------------------------------------------ comparison
def ts_instant(tok):
    m = re.match(r"\(T i(-?\d+) s([0-9a-f]*)\)$", tok)
    if not m:
        return None
    whole = int(m.group(1))
    frac = bytes.fromhex(m.group(2)).decode()
    digits = (frac[1:] + "000000000")[:9] if frac else "000000000"
    return whole, digits


def canon_after(before, after):
    """Rename what the migration invents (uuids, pickles, clock readings) to the model's names."""
    after = {t: dict(d, rows=[list(r) for r in d["rows"]]) for t, d in after.items()}
    ren = {}
    if "execution" in after:
        d = after["execution"]
        old_ids = set()
        if "execution" in before:
            k = before["execution"]["cols"].index("id")
            old_ids = {r[k] for r in before["execution"]["rows"]}
        ci, ca, cj = d["cols"].index("id"), d["cols"].index("args"), d["cols"].index("job_id")
        for r in d["rows"]:
            if r[ci] not in old_ids and r[ca] == "s" + '"Stub Execution"'.encode().hex():
                new = "s" + ("stub:" + bytes.fromhex(r[cj][1:]).decode()).encode().hex() if r[cj].startswith("s") else r[cj]
                ren[r[ci]] = new
                r[ci] = new
    if ren and "job" in after and "execution_id" in after["job"]["cols"]:
        k = after["job"]["cols"].index("execution_id")
        for r in after["job"]["rows"]:
            r[k] = ren.get(r[k], r[k])
    if "value" in after and "value" in before:
        d = after["value"]
        old = {r[before["value"]["cols"].index("value_hash")] for r in before["value"]["rows"]}
        ch, cv = d["cols"].index("value_hash"), d["cols"].index("value")
        for r in d["rows"]:
            if r[ch] not in old:
                r[cv] = "bPICKLE"
    if "redun_version" in after and "redun_version" in before:
        d = after["redun_version"]
        old = {r[before["redun_version"]["cols"].index("id")] for r in before["redun_version"]["rows"]}
        ci, ct = d["cols"].index("id"), d["cols"].index("timestamp")
        for r in d["rows"]:
            if r[ci] not in old:
                r[ci] = "s" + b"NEW".hex()
                r[ct] = "N"
    return after


F17 = "C36-job-timestamp-subsecond-truncated"


def oracle(ctx, case, before, after):
    """The property on the real databases: every old row is still there (by primary key), shared columns equal.
    Returns the set of violation signatures seen."""
    found = set()
    for t, b in before.items():
        if t not in after:
            continue
        a = after[t]
        shared = [c for c in b["cols"] if c in a["cols"]]
        pk = [c for c in b["pk"] if c in a["cols"]] or shared
        bi = {c: b["cols"].index(c) for c in shared}
        ai = {c: a["cols"].index(c) for c in shared}
        index = {}
        for r in a["rows"]:
            index.setdefault(tuple(r[ai[c]] for c in pk), r)
        for r in b["rows"]:
            key = tuple(r[bi[c]] for c in pk)
            r2 = index.get(key)
            if r2 is None:
                found.add("C36-row-lost-%s" % t)
                ctx.violation("C36-row-lost-%s" % t, "a row of table %s is gone after the upgrade" % t,
                              dict(case, table=t, key=list(key)), expected="row kept", actual="missing", kind="history")
                continue
            for c in shared:
                x, y = r[bi[c]], r2[ai[c]]
                if x == y:
                    continue
                ix, iy = ts_instant(x), ts_instant(y)
                if ix is not None and ix == iy:
                    continue                      # same instant, different rendering of zero fractional seconds
                if t == "job" and c == "execution_id" and x == "N":
                    continue                      # backfill of a NULL (ASSUMPTIONS)
                if (t == "job" and c in ("start_time", "end_time") and ix and iy and iy[1] == "000000000"
                        and (iy[0] == ix[0] or (iy[0] == ix[0] + 1 and ix[1] >= "999500000"))):
                    found.add(F17)
                    ctx.violation(F17,
                                  "upgrading from a schema <= 3.3 drops the fractional seconds of job.start_time/end_time "
                                  "(sqlite migration 3b0a6e67cc58: datetime(x,'utc'); fractions >= .9995 carry into the next second)",
                                  dict(case, table=t, column=c, key=list(key),
                                       before=time.strftime("%Y-%m-%d %H:%M:%S", time.gmtime(ix[0])) + "." + ix[1][:6]),
                                  expected=ix, actual=iy, kind="history")
                    continue
                found.add("C36-value-changed-%s.%s" % (t, c))
                ctx.violation("C36-value-changed-%s.%s" % (t, c), "column %s.%s changed during the upgrade" % (t, c),
                              dict(case, table=t, column=c, key=list(key)), expected=x, actual=y, kind="history")
    return found


def correspond(ctx, case, reply, before, after):
    model = parse_reply(reply)
    if isinstance(model, str):
        ctx.mismatch("model rejects an upgrade the implementation performed", case, model[:300], "upgraded")
        return
    real = canon_after(before, after)
    if set(model) != set(real):
        ctx.mismatch("table sets differ after the upgrade", case, sorted(model), sorted(real))
        return
    for t in sorted(real):
        mc, mr = model[t]
        rc, rr = real[t]["cols"], sorted(real[t]["rows"])
        if mc != rc:
            ctx.mismatch("columns of %s differ after the upgrade" % t, case, mc, rc)
        elif mr != rr:
            diff = [x for x in mr if x not in rr][:3], [x for x in rr if x not in mr][:3]
            ctx.mismatch("rows of %s differ after the upgrade" % t, dict(case, table=t), repr(diff[0])[:600], repr(diff[1])[:600])


_TASK = None


def workflow_task():
    global _TASK
    if _TASK is None:
        from redun import task

        @task(namespace="c36v")
        def inc(x):
            return x + 1

        _TASK = inc
    return _TASK


def use_for_caching(ctx, case, path):
    """`the result is accepted by the library and usable for caching`"""
    from redun import Scheduler
    from redun.backends.db import Job, RedunBackendDb
    inc = workflow_task()
    b = RedunBackendDb(db_uri="sqlite:///" + path)
    try:
        b.load(migrate=False)
        r1 = Scheduler(backend=b).run(inc(41))
        r2 = Scheduler(backend=b).run(inc(41))
        last = b.session.query(Job).order_by(Job.start_time.desc()).first()
        ok = (r1, r2) == (42, 42) and bool(last.cached)
        detail = repr((r1, r2, last.cached))
    except Exception as e:  # noqa: BLE001
        ok, detail = False, "%s: %s" % (type(e).__name__, str(e)[:300])
    finally:
        try:
            b.session.close()
            b.engine.dispose()
        except Exception:  # noqa: BLE001
            pass
    if not ok:
        ctx.violation("C36-upgraded-db-not-usable", "the upgraded database is rejected by load() or a repeated workflow is not a cache hit",
                      case, expected="(42, 42, cached)", actual=detail, kind="history")
    return ok


def one_case(ctx, tmp, templates, version, seed, size, n, witness=False):
    import random
    from redun.backends.db import RedunBackendDb
    path = os.path.join(tmp, "case%d.db" % n)
    shutil.copy(templates[(version.major, version.minor)], path)
    rng = random.Random(seed)
    counts = populate(rng, path, version, size, witness)
    before = snapshot(path)
    case = dict(version="%d.%d" % (version.major, version.minor), start_revision=version.migration_id, populate_seed=seed, size=size,
                witness=witness)
    b = RedunBackendDb(db_uri="sqlite:///" + path)
    err = None
    try:
        b.create_engine()
        b.migrate()
    except Exception as e:  # noqa: BLE001
        err = "%s: %s" % (type(e).__name__, str(e)[:300])
    finally:
        try:
            b.session.close()
            b.engine.dispose()
        except Exception:  # noqa: BLE001
            pass
    after = snapshot(path)
    line = request_line(version.migration_id, before)
    res = dict(case=case, before=before, after=after, err=err, line=line, counts=counts, path=path)
    if err is None:
        res["found"] = oracle(ctx, case, before, after)
        res["usable"] = use_for_caching(ctx, case, path)
    else:
        ctx.violation("C36-upgrade-fails", "RedunBackendDb.migrate() raises on a populated database", case, expected="upgrade",
                      actual=err, kind="history")
    os.remove(path)
    return res


def make_templates(tmp):
    from redun.backends.db import RedunBackendDb
    out = {}
    for v in RedunBackendDb.get_all_db_versions():
        p = os.path.join(tmp, "template_%d_%d.db" % (v.major, v.minor))
        b = RedunBackendDb(db_uri="sqlite:///" + p)
        b.create_engine()
        b.migrate(desired_version=v)
        b.session.close()
        b.engine.dispose()
        out[(v.major, v.minor)] = p
    return out


def run(ctx, only=None):
    from redun.backends.db import RedunBackendDb
    quiet()
    if os.environ.get("TZ") != "UTC":
        ctx.note("TZ is not UTC: the sqlite timestamp migration shifts stored times; set TZ=UTC (./check does)")
    tmp = tempfile.mkdtemp(prefix="c36_")
    try:
        templates = make_templates(tmp)
        versions = RedunBackendDb.get_all_db_versions()
        plan = []
        if only:
            plan = [only[:3]]
        else:
            # corpus: DESIGN F17 (3.3, fractional seconds) and an empty database per version
            for v in versions:
                plan.append((v, 36000 + v.major * 10 + v.minor, 1))
            plan.append((versions[0], 1, 0))
            per = ctx.n(3, 70)
            for v in versions:
                for _ in range(per):
                    plan.append((v, ctx.rng.randrange(10 ** 9), ctx.rng.choice([1, 2, 3])))
        results = []
        if not only:
            # the witness of the refuted theorem, replayed on the real code (schema 3.3 -> latest)
            v33 = [v for v in versions if (v.major, v.minor) == (3, 3)]
            if v33:
                r = one_case(ctx, tmp, templates, v33[0], 17, 1, 9999, witness=True)
                results.append(r)
                if F17 not in r.get("found", set()):
                    ctx.expect_known(F17, False, r["case"], "the 3.3 -> latest upgrade keeps fractional seconds")
        for i, (v, seed, size) in enumerate(plan):
            results.append(one_case(ctx, tmp, templates, v, seed, size, i, witness=bool(only and only[3:] and only[3])))
        replies = ctx.model("C36", [r["line"] for r in results])
        for r, reply in zip(results, replies):
            if r["err"] is None:
                correspond(ctx, r["case"], reply, r["before"], r["after"])
            elif reply.startswith("ok"):
                ctx.mismatch("the implementation fails an upgrade the model performs", r["case"], "ok", r["err"])
            nrows = sum(len(d["rows"]) for d in r["before"].values())
            fr = sum(1 for row in r["before"].get("job", {"rows": []})["rows"] for tok in row
                     if tok.startswith("(T") and ts_instant(tok)[1] != "000000000")
            ctx.case(key=None if r["case"]["size"] == 0 else (r["case"]["version"], r["case"]["populate_seed"]),
                     sample=dict(r["case"], rows_before=nrows, rows_after=sum(len(d["rows"]) for d in r["after"].values()),
                                 tables={t: n for t, n in sorted(r["counts"].items())}),
                     version=r["case"]["version"], rows=min(nrows // 20 * 20, 200),
                     job_timestamps_with_fraction=min(fr, 5), upgrade="failed" if r["err"] else "ok")
    finally:
        shutil.rmtree(tmp, ignore_errors=True)


def replay(ctx, case):
    from redun.backends.db import RedunBackendDb
    c = case.get("case") or {}
    if "version" not in c:
        return run(ctx)
    v = [x for x in RedunBackendDb.get_all_db_versions() if "%d.%d" % (x.major, x.minor) == c["version"]][0]
    print("replay: schema %s, populate seed %s, size %s -> upgrade to latest" % (c["version"], c["populate_seed"], c["size"]))
    print("  in question:", {k: c[k] for k in ("table", "column", "key", "before") if k in c})
    run(ctx, only=(v, c["populate_seed"], c["size"], bool(c.get("witness"))))
