"""C07 — results and recorded call graph do not depend on timing (completion order, limit configuration).
Model: lean/RedunModel/Model/Timing.lean, theorems: lean/RedunModel/Props/C07.lean, driver: lean/Driver/C07.lean.

The same generated workflow is executed under many completion orders (enumerated for small workflows, seeded random beyond)
and under limit configurations from unlimited to fully serial, each time on an empty backend.  After every run the result and
the CallNode / Argument / CallEdge rows are read back, every digest is replaced by its logged pre-image, and compared
  (a) across all runs of the workflow (the property's own oracle), and
  (b) with the rows the Lean model predicts (for handle workflows from the observed order of entries into
      `_exec_job_main_thread`; for `fork_thread` workflows from whether the forked job had ended when its parent resolved)."""
import importlib.util
import json
import os
import shutil
import sys
import tempfile

from core import Raw, sx, unsx

ID = "C07"
READY = True
LEAN_MODULES = ["RedunModel.Props.C07"]
LEAN_DRIVERS = ["C07"]
THEOREMS = [
    "RedunModel.C07.structuralOrder",
    "RedunModel.C07.sorted_children_perm_invariant",
    "RedunModel.C07.callHash_injective",
    "RedunModel.C07.value_and_graph_independent",
    "RedunModel.C07.root_call_independent",
    "RedunModel.C07.canonical_is_admissible",
    "RedunModel.C07.agrees_with_canonical",
    "RedunModel.C07.forkKey_reentry_invariant",
    "RedunModel.C07.forkKey_linear_independent",
    "RedunModel.C07.forkKey_prekeyed",
    "RedunModel.C07.driver_replay_is_enterAll",
    "RedunModel.C07.refuted_handles_order",
    "RedunModel.C07.refuted_handles_reentry",
    "RedunModel.C07.refuted_fork_thread",
]
TRUSTED = [
    "hashes are symbolic: a call hash is its pre-image [CallNode, task, args, result, sorted kids], a handle hash is "
    "HandleInfo.get_hash's pre-image, task and int value hashes are atoms; SHA collisions and the byte encoding (C14) are outside",
    "Python's sorted() on the hex digests is a sort by a total order (the theorems hold for EVERY total order on call hashes; "
    "`structuralOrder` exhibits one; the harness compares children as sets, so the two orders need not agree)",
    "the relation `Ev` lets the children of every job be listed in an arbitrary order: that the real scheduler only ever permutes "
    "the children of a job (and does not change which jobs exist or what they return) for handle-free, fork_thread-free workflows is "
    "what the tie checks on enumerated/sampled completion orders and limit configurations; it is not derived from a model of "
    "the event loop (the job bookkeeping machine is C06/C08/C09's SchedCore)",
    "for handle workflows the order of entries into _exec_job_main_thread, and for fork_thread workflows whether the forked job had a "
    "call hash when its parent resolved, are observed on the real run (wrappers around Scheduler._exec_job_main_thread / "
    "_resolve_job_main_thread installed by the harness) and given to the model as the schedule",
]
ASSUMPTIONS = [
    "handle-free workflows: 3-6 tasks of one int argument; a body is built from the argument, constants, lazy `+`, calls of tasks with a "
    "larger index and cond(c, a, b); a quarter of the workflows reach the same call through two different expressions under one parent "
    "(f(t) and f(ident(t)): backend hit or collapse onto the running twin, depending on the order); a third of the workflows use one call expression eagerly and again inside lazily evaluated sites "
    "(cond branches) under the same parent job - the scheduler evaluates equal expressions of one parent once (`_pending_expr`), the "
    "model mirrors that with the memo of `evalM` (the theorems about `Ev` speak of workflows without such duplicates); no failing task (which jobs got recorded before a failure stops the execution is "
    "timing dependent by design); tasks carry limits over resources r0, r1, g",
    "handle workflows: main() creates handles and passes them to sibling jobs use(h, b) / use(step(h, a), b) whose other argument is "
    "a constant or slow(b); handle sources: one shared handle, a handle per lane, an explicit fork h.fork('k')",
    "catch_all workflows (oracle only; the Lean model has no catch_all, its meaning is the one of the C01 model: every term is awaited and "
    "the error re-raised is that of the first failing term BY POSITION, of the first one not matched by the recover classes when a "
    "recover is given): main() = catch_all([fail(k, cls) | fail(ok(k), cls) | ok(x) ...]) with at least two failing terms, alone (the "
    "error is the outcome of the execution: every job has ended by then), with a recover, under catch(..., Exception, describe), as "
    "argument of another task",
    "fork_thread workflows: main() = cond(fork_thread(A), B, B) with B a call into a handle-free workflow and A a call of a task that "
    "calls nothing (one forked job: it has ended, or it has not, when main resolves); main is the root job",
    "limit configurations: every resource 100 (unlimited), every resource at the largest single-job demand (1 unless a task asks for 2: "
    "fully serial when every task uses resource g), random 1-3 but never below that demand (a limit below a job's demand can never be "
    "met: C09's domain)",
    "a tenth of the handle-free workflows are parked twins: f(t) and f(ident(t)) with limits=['r0'] next to 2-3 holder jobs on r0, "
    "run under r0 = 100, 2, 3, 1 (both twins wait and are released one after the other / nobody waits)",
    "compared: result, CallNode / Argument pre-images, CallEdge (parent, child) pairs, and per call hash the number of jobs and of "
    "executed (non-cached) jobs; not compared (allowed to differ by the property): "
    "timestamps, job ids, call_order of edges, which duplicate job was marked cached",
]
RULE = ("one case = one workflow run under one (limit configuration, completion order); runs of one workflow are compared with each other "
        "and with the model. Completion orders: all of them for workflows with few decision points (depth-first enumeration of the "
        "controller's choice points, capped), FIFO + LIFO + seeded random otherwise. distinct = distinct (workflow, limits, sequence of "
        "choices); a run with a single job is trivial")
LEVEL_TEXT = ("Proved in Lean, for every total order on call hashes: hash_call_node is invariant under permutation of the children and "
              "injective up to it (`sorted_children_perm_invariant`, `callHash_injective`); for ALL handle-free, fork_thread-free programs "
              "(arbitrary body table; expressions with lazy operators, calls, cond), any two evaluations that list the children of every "
              "job in arbitrary different orders - hence under any two completion orders / limit configurations - give the same value, the "
              "same child call hashes and the same CallNode/Argument/CallEdge rows (`value_and_graph_independent`, `root_call_independent`, "
              "`agrees_with_canonical`); handle fork keys: after the committed repair they depend only on the siblings' first entries, for "
              "ALL entry sequences (`forkKey_reentry_invariant`), are order independent for handles not shared between siblings "
              "(`forkKey_linear_independent`) and for explicitly forked handles (`forkKey_prekeyed`). Refuted on the current code (closed "
              "witness / general statement, replayed on the real code, known findings): `refuted_handles_order` (DESIGN F5 ii), "
              "`refuted_fork_thread` (F16, for every job tree); `refuted_handles_reentry` is the witness of the repaired F5 i on the model "
              "of the code as found.")
LEVEL_NOTE = ("partial: the step from 'any completion order / limit configuration' to 'the children of each job are listed in some order' is "
              "the tie's (observed on enumerated and sampled schedules), not a theorem about the event loop; executions with failing jobs "
              "are out of scope (abort point is timing dependent by design); workflows that use one expression twice under a parent are "
              "covered by the tie only (model function `evalM` = the depth-first run with the `_pending_expr` memo), not by the `Ev` theorems; catch/seq/map and containers are not in the modelled fragment; "
              "handle workflows are the flat sibling patterns of the generator.")
TECHNIQUE = "Lean 4 proof on call-hash pre-images + controlled-schedule differential runs of the real scheduler"

SIG_ORDER = "C07-handle-fork-key-follows-execution-order"
SIG_REENTRY = "C07-handle-fork-recount-on-limits-reentry"
SIG_FORK = "C07-fork-thread-child-edge-timing"
SIG_NEW = "C07-call-graph-differs-across-schedules"

RES = ["r0", "r1", "g"]
HARD_STOP = {"quick": 22, "thorough": 380}      # CPU seconds of this process after which no further schedule is started
HARD_WALL = {"quick": 70, "thorough": 540}      # wall-clock safety net (loaded machine)


_CPU0 = [0.0]


def cpu():
    """CPU seconds of this process since run() started (imports are a fixed cost, 2-10 s depending on the load)"""
    import time
    return time.process_time() - _CPU0[0]
T_SLOW, T_FORKMAIN = 3, 99


# =========================================================================================== handle-free workflows
def tm_sx(t):
    k = t[0]
    if k == "arg":
        return Raw("arg")
    if k == "lit":
        return t[1]
    if k == "add":
        return [Raw("add"), tm_sx(t[1]), tm_sx(t[2])]
    if k == "call":
        return [Raw("call"), t[1], tm_sx(t[2])]
    if k == "cond":
        return [Raw("cond"), tm_sx(t[1]), tm_sx(t[2]), tm_sx(t[3])]
    raise ValueError(t)


def tm_py(t):
    k = t[0]
    if k == "arg":
        return "x"
    if k == "lit":
        return "(%d)" % t[1]
    if k == "add":
        return "(%s + %s)" % (tm_py(t[1]), tm_py(t[2]))
    if k == "call":
        return "t%d(%s)" % (t[1], tm_py(t[2]))
    if k == "cond":
        return "cond(%s, %s, %s)" % (tm_py(t[1]), tm_py(t[2]), tm_py(t[3]))
    raise ValueError(t)


def gen_tm(rng, i, n, depth):
    callees = list(range(i + 1, n))
    k = rng.random()
    if depth <= 0 or not callees or k < 0.15:
        r = rng.random()
        if r < 0.45:
            return ("arg",)
        if r < 0.65:
            return ("lit", rng.choice([0, 1, 2, 3, 5]))
        return ("add", ("arg",), ("lit", rng.choice([1, 2, 7])))
    if k < 0.50:
        return ("call", rng.choice(callees), gen_tm(rng, i, n, depth - 1))
    if k < 0.70:
        return ("cond", gen_tm(rng, i, n, depth - 1), gen_tm(rng, i, n, depth - 1), gen_tm(rng, i, n, depth - 1))
    return ("add", gen_tm(rng, i, n, depth - 1), gen_tm(rng, i, n, depth - 1))


def gen_shared_body(rng, i, n):
    """a body in which ONE call expression `e` is used eagerly and again inside a lazily evaluated site (a cond branch, or a
    cond condition reached after another cond) under the same parent job: the scheduler must evaluate it once whatever finishes
    first (`_pending_expr`)"""
    callees = list(range(i + 1, n))
    e = ("call", rng.choice(callees), rng.choice([("arg",), ("add", ("arg",), ("lit", 1)), ("lit", 2)]))
    c = ("call", rng.choice(callees), rng.choice([("arg",), ("lit", 1), ("add", ("arg",), ("lit", 3))]))
    if c == e:
        c = ("call", c[1], ("add", c[2], ("lit", 5)))
    other = gen_tm(rng, i, n, 1)
    k = rng.random()
    if k < 0.4:
        return ("add", e, ("cond", c, e, other))                    # e = work(1); [e, cond(is_ready(), e, 0)]
    if k < 0.6:
        return ("add", ("cond", c, e, other), e)
    if k < 0.8:
        return ("add", ("add", e, ("lit", 1)), ("cond", c, ("add", e, ("lit", 1)), e))     # a shared lazy `+` as well
    return ("add", e, ("cond", c, ("cond", e, e, other), ("add", e, other)))


def gen_twin_body(rng, i, n):
    """the same call reached through two DIFFERENT expressions under one parent: f(t) and f(ident(t)) (ident = task n-1, whose body
    returns its argument).  The second job is a backend hit, or is collapsed onto the first one while that is still running,
    depending on the completion order; the parent lists the call hash twice either way"""
    ident = n - 1
    f = rng.choice(list(range(i + 1, n - 1)) or [ident])
    t = rng.choice([("arg",), ("lit", 1), ("add", ("arg",), ("lit", 2))])
    e1, e2 = ("call", f, t), ("call", f, ("call", ident, t))
    k = rng.random()
    if k < 0.5:
        return ("add", e1, e2)
    if k < 0.75:
        return ("add", e2, ("add", e1, gen_tm(rng, i, n, 1)))
    return ("add", e1, ("cond", ("call", ident, ("lit", 1)), e2, ("lit", 0)))


def gen_parked_twins(rng):
    """f(t) and f(ident(t)) with a `limits` option on f, next to holder jobs that occupy the resource: under limit 2 or 3 both
    twins wait for the limit and are released one after the other (the second while the first is running); under limit 100
    nobody waits.  Whether jobs waited must not show in the recording, nor in how many of the twins actually ran."""
    nh = rng.choice([2, 2, 3])
    t = rng.choice([("arg",), ("lit", 1), ("add", ("arg",), ("lit", 2))])
    holders = [("call", 2, ("lit", 20 + k)) for k in range(nh)]
    twins = ("add", ("call", 1, t), ("call", 1, ("call", 3, t)))
    body = holders[0]
    for hx in holders[1:]:
        body = ("add", body, hx)
    body = ("add", body, twins) if rng.random() < 0.7 else ("add", twins, body)
    fbody = rng.choice([("add", ("arg",), ("lit", 10)), ("call", 3, ("add", ("arg",), ("lit", 5))), ("arg",)])
    cfgs = [("unlimited", {r: 100 for r in RES})] + [("r0=%d" % k, dict({r: 100 for r in RES}, r0=k)) for k in (2, 3, 1)]
    return Flow([body, fbody, ("arg",), ("arg",)], [None, ["r0"], ["r0"], None], rng.choice([0, 1, 2]), cfgs=cfgs)


class Flow:
    """handle-free workflow: bodies[i] = Tm of task t<i>, limits[i] = None | list | dict"""

    def __init__(self, bodies, limits, root_arg, cfgs=None):
        self.bodies = bodies
        self.limits = limits
        self.root_arg = root_arg
        self.cfgs = cfgs                  # explicit limit configurations [(name, {resource: n})] instead of the default ones

    def tbl(self):
        return [[i, tm_sx(b)] for i, b in enumerate(self.bodies)]

    def to_json(self):
        return dict(kind="flow", bodies=self.bodies, limits=self.limits, root_arg=self.root_arg, cfgs=self.cfgs)

    def module_text(self, ns):
        out = ["from redun import task", "from redun.scheduler import cond, fork_thread", ""]
        for i, b in enumerate(self.bodies):
            opts = ['name="t%d"' % i, 'namespace="%s"' % ns, 'version="1"']
            if self.limits[i] is not None:
                opts.append("limits=%r" % (self.limits[i],))
            out += ["", "@task(%s)" % ", ".join(opts), "def t%d(x):" % i, "    return %s" % tm_py(b)]
        return "\n".join(out) + "\n"


def tup(x):
    return tuple(tup(y) for y in x) if isinstance(x, list) else x


def gen_flow(rng, serial=False, shared=False, twin=False):
    n = rng.choice([3, 4, 4, 5, 6])
    bodies = [None] * n

    def ncalls(t):
        return (1 if t[0] == "call" else 0) + sum(ncalls(x) for x in t[1:] if isinstance(x, tuple))
    for i in reversed(range(n)):
        for _ in range(20):
            bodies[i] = gen_tm(rng, i, n, rng.choice([1, 2, 2, 3]))
            if i > 0 or ncalls(bodies[i]) >= 2:          # the root job has at least two children
                break
    if twin:
        bodies[n - 1] = ("arg",)
        for i in range(n - 2):
            if i == 0 or rng.random() < 0.3:
                bodies[i] = gen_twin_body(rng, i, n)
    if shared:
        for i in range(n - 1):
            if i == 0 or rng.random() < 0.3:
                bodies[i] = gen_shared_body(rng, i, n)
    limits = []
    for i in range(n):
        r = rng.random()
        if serial:
            limits.append(["g"])
        elif r < 0.4:
            limits.append(None)
        else:
            limits.append(rng.choice([["r0"], ["r1"], ["r0", "r1"], {"r0": 2}, ["g"], {"r1": 1, "g": 1}]))
    return Flow(bodies, limits, rng.choice([0, 1, 2, 3]))


# =========================================================================================== real side
class Env:
    def __init__(self):
        import ctl_sched
        self.dir = tempfile.mkdtemp(prefix="c07-", dir=("/dev/shm" if os.access("/dev/shm", os.W_OK) else None))   # sqlite commits: tmpfs if there is one
        self.n = 0
        self.template = os.path.join(self.dir, "empty.db")
        s = ctl_sched.make_scheduler(None, db_uri="sqlite:///" + self.template)
        close_sched(s)

    def empty_db(self):
        self.n += 1
        path = os.path.join(self.dir, "run%d.db" % self.n)
        shutil.copyfile(self.template, path)
        return path

    def load_module(self, name, text):
        path = os.path.join(self.dir, name + ".py")
        with open(path, "w") as f:
            f.write(text)
        spec = importlib.util.spec_from_file_location(name, path)
        mod = importlib.util.module_from_spec(spec)
        sys.modules[name] = mod
        spec.loader.exec_module(mod)
        return mod

    def close(self):
        shutil.rmtree(self.dir, ignore_errors=True)


def close_sched(sched):
    try:
        sched.backend.session.close()
        sched.backend.engine.dispose()
    except Exception:  # noqa: BLE001
        pass


def render_value(v):
    """text of a recorded value that is not an int (exceptions by class and arguments; no tracebacks, no addresses)"""
    from redun.scheduler import ErrorValue
    if isinstance(v, ErrorValue):
        return "Error(%s)" % render_value(v.error)
    if isinstance(v, BaseException):
        return "%s%r" % (type(v).__name__, tuple(v.args))
    if isinstance(v, (list, tuple)):
        return "[" + ",".join(render_value(x) for x in v) + "]"
    if isinstance(v, (int, str)) and not isinstance(v, bool):
        return repr(v)
    return "?" + type(v).__name__


class Abs:
    """digest -> pre-image in the model's notation (rows of one finished run)"""

    def __init__(self, log, sched, task_ids, handle_ids):
        self.log = log
        self.sched = sched
        self.task_ids = task_ids          # task hash -> int
        self.handle_ids = handle_ids      # handle fullname -> int
        self.memo = {}

    def hv(self, d):
        if d in self.memo:
            return self.memo[d]
        st = self.log.structs.get(d)
        if isinstance(st, list) and st and st[0] == "Handle":
            name = self.handle_ids[st[1]]
            key = int(st[3]) if st[3] else 0
            if st[2] == "init":
                r = [Raw("Hi"), name, key]
            else:
                inner = self.log.structs.get(st[4])
                if isinstance(inner, list) and inner and inner[0] == "Eval":
                    args = self.log.structs[inner[2]]
                    assert args[0] == "TaskArguments" and len(args[1]) == 2 and not args[2], args
                    z = self.hv(args[1][1])
                    r = [Raw("Ha"), name, self.task_ids[inner[1]], self.hv(args[1][0]), z]
                else:
                    r = [Raw("Hf"), name, key, self.hv(st[4])]
        else:
            value, ok = self.sched.backend.get_value(d)
            if not ok or isinstance(value, bool) or not isinstance(value, int):
                r = Raw("v" + render_value(value).encode().hex()) if ok else Raw("?missing")
            else:
                r = value
        self.memo[d] = r
        return r

    def h(self, d):
        if ("h", d) in self.memo:
            return self.memo[("h", d)]
        st = self.log.structs[d]
        assert st[0] == "CallNode", st
        args = self.log.structs[st[2]]
        assert args[0] == "TaskArguments" and not args[2], args
        kids = sorted((self.h(k) for k in st[4]), key=sx)
        r = [Raw("C"), self.task_ids.get(st[1], Raw("?task")), [self.hv(a) for a in args[1]], self.hv(st[3]), kids]
        self.memo[("h", d)] = r
        return r


def canon(x):
    """sort the children of every call hash by their text (the model sorts by another total order than the digests)"""
    if isinstance(x, list):
        x = [canon(y) for y in x]
        if x and x[0] == "C" and len(x) == 5:
            x[4] = sorted(x[4], key=sx)
    return x


def read_rows(sched, log, task_ids, handle_ids):
    from redun.backends.db import Argument, CallEdge, CallNode, Job
    ab = Abs(log, sched, task_ids, handle_ids)
    ses = sched.backend.session
    rows = set()
    for cn in ses.query(CallNode).all():
        rows.add(sx([Raw("N"), ab.h(cn.call_hash)]))
    for a in ses.query(Argument).all():
        rows.add(sx([Raw("A"), ab.h(a.call_hash), a.arg_position if a.arg_position is not None else Raw("k" + str(a.arg_key)), ab.hv(a.value_hash)]))
    for e in ses.query(CallEdge).all():
        rows.add(sx([Raw("E"), ab.h(e.parent_id), ab.h(e.child_id)]))
    # the digests themselves (equal pre-images up to the order of children must have equal digests: that is what
    # sorted() in hash_call_node is for); compared between runs only
    digests = {"N" + cn.call_hash for cn in ses.query(CallNode).all()} | {"A" + a.arg_hash for a in ses.query(Argument).all()}
    # Job rows: per call hash, how many jobs ended with it and how many of them were not served from a cache / a twin
    # (which duplicate is the cached one may differ between schedules; how many ran may not); compared between runs only
    cnt = {}
    for j in ses.query(Job).all():
        if j.call_hash:
            k = (sx(ab.h(j.call_hash)), bool(j.cached))
            cnt[k] = cnt.get(k, 0) + 1
    jobs = {"J %s cached=%s x%d" % (h, c, n) for (h, c), n in cnt.items()}
    return rows, digests, jobs


def model_rows(reply):
    """-> (dup flag, value text, set of canonical row texts)"""
    dup = reply.startswith("dup ")
    if dup:
        reply = reply[4:]
    if "||" not in reply:
        return dup, reply, set()
    val, _, rest = reply.partition("||")
    rows = set()
    for r in rest.split(" ; "):
        r = r.strip()
        if r:
            rows.add(sx(canon(unsx(r)[0])))
    return dup, val.strip(), rows


def run_once(env, expr_fn, limits_cfg, ctl, task_ids, handle_ids, taps=None):
    """one execution on an empty backend under controller `ctl`; returns (status, value text, rows, ctl, observations)"""
    import ctl_sched
    from props._preimage import HashLog
    path = env.empty_db()
    obs = dict(entries=[], resolve={})
    with HashLog() as log:
        sched = ctl_sched.make_scheduler(ctl, limits=limits_cfg, db_uri="sqlite:///" + path)
        orig_exec = sched._exec_job_main_thread
        orig_resolve = sched._resolve_job_main_thread

        def exec_tap(job, eval_args):
            obs["entries"].append((job.task.fullname, eval_args))
            return orig_exec(job, eval_args)

        def resolve_tap(job, result):
            obs["resolve"][job.task.fullname] = [(c.task.fullname, c.call_hash is not None) for c in job.child_jobs]
            return orig_resolve(job, result)

        sched._exec_job_main_thread = exec_tap
        sched._resolve_job_main_thread = resolve_tap
        status, payload = ctl.run(sched, expr_fn())
        if status == "ok":
            val = "i%d" % payload if isinstance(payload, int) and not isinstance(payload, bool) else "?" + type(payload).__name__
            rows, obs["digests"], obs["jobs"] = read_rows(sched, log, task_ids(), handle_ids)
        elif status == "err" and taps == "errors-are-outcomes":
            # a workflow whose outcome may be an error raised after every job has ended (catch_all): still an outcome
            status, val = "ok", "err:" + render_value(payload)
            rows, obs["digests"], obs["jobs"] = read_rows(sched, log, task_ids(), handle_ids)
        else:
            val = status + ":" + (type(payload).__name__ if status == "err" else str(payload)[:60])
            rows, obs["digests"], obs["jobs"] = set(), set(), set()
        close_sched(sched)
    os.remove(path)
    return status, val, rows, obs


def make_ctl(schedule=None, seed=None):
    import random
    import ctl_sched
    if schedule is not None:
        return ctl_sched.Ctl(schedule=list(schedule))
    return ctl_sched.Ctl(rng=random.Random(seed))


def enumerate_schedules(run_with, cap):
    """depth-first enumeration of the controller's choice points (stateless): yields the outcome of every completion
    order, up to `cap` runs.  run_with(schedule) -> (outcome, choices) with choices = [(n_inflight, chosen), ...]"""
    stack = [[]]
    seen = 0
    while stack and seen < cap:
        prefix = stack.pop()
        outcome, choices = run_with(prefix)
        seen += 1
        yield outcome, [c for _, c in choices]
        for i in range(len(choices) - 1, len(prefix) - 1, -1):
            n, c = choices[i]
            for alt in range(c + 1, n):
                stack.append([x for _, x in choices[:i]] + [alt])
    return


def demand(limit_opts):
    """largest amount of each resource a single job asks for (a configured limit below it can never be met: C09's domain)"""
    d = {r: 1 for r in RES}
    for l in limit_opts:
        if isinstance(l, list):
            l = {r: 1 for r in l}
        for r, n in (l or {}).items():
            d[r] = max(d[r], n)
    return d


def limit_configs(rng, thorough, limit_opts):
    d = demand(limit_opts)
    cfgs = [("unlimited", {r: 100 for r in RES}), ("serial", dict(d))]
    for k in range(2 if thorough else 1):
        cfgs.append(("random%d" % k, {r: max(d[r], rng.choice([1, 1, 2, 3])) for r in RES}))
    return cfgs


# =========================================================================================== checks
class Batch:
    """model requests are answered in batches: every call of the driver goes through the lake lock shared with the other builds"""

    def __init__(self, ctx):
        self.ctx = ctx
        self.items = []

    def add(self, requests, finish):
        self.items.append((list(requests), finish))

    def flush(self):
        items, self.items = self.items, []
        replies = self.ctx.model("C07", [q for qs, _ in items for q in qs])
        i = 0
        for qs, finish in items:
            finish(replies[i:i + len(qs)])
            i += len(qs)


def explore(ctx, env, label, kind, spec_json, expr_fn, task_ids, handle_ids, model_for, cfgs, cap, nrandom, classify, taps=None):
    """Runs one workflow under the limit configurations `cfgs` and many completion orders; compares every run with the model
    (`model_for(obs) -> request line`) and all runs with each other.  Returns the list of run records."""
    runs = []
    pending = []          # (run record, model request)

    for cname, cfg in cfgs:
        def run_with(schedule, cfg=cfg, cname=cname):
            ctl = make_ctl(schedule=schedule)
            status, val, rows, obs = run_once(env, expr_fn, cfg, ctl, task_ids, handle_ids, taps)
            rec = dict(limits=cname, schedule=[c for _, c in ctl.choices], status=status, value=val, rows=rows, obs=obs,
                       njobs=len(ctl.submissions))
            runs.append(rec)
            if model_for is not None:
                pending.append((rec, model_for(obs)))
            return rec, ctl.choices
        n0 = len(runs)
        for _ in enumerate_schedules(run_with, cap):
            if (cpu() > HARD_STOP[ctx.tier] or ctx.elapsed() > HARD_WALL[ctx.tier]) and len(runs) - n0 >= 2:
                break
        exhausted = len(runs) - n0 < cap and not (cpu() > HARD_STOP[ctx.tier] or ctx.elapsed() > HARD_WALL[ctx.tier])
        if not exhausted:
            for k in range(nrandom):
                if (cpu() > HARD_STOP[ctx.tier] or ctx.elapsed() > HARD_WALL[ctx.tier]):
                    break
                ctl = make_ctl(seed=ctx.rng.randrange(1 << 30))
                status, val, rows, obs = run_once(env, expr_fn, cfg, ctl, task_ids, handle_ids, taps)
                rec = dict(limits=cname, schedule=[c for _, c in ctl.choices], status=status, value=val, rows=rows, obs=obs,
                           njobs=len(ctl.submissions))
                runs.append(rec)
                if model_for is not None:
                    pending.append((rec, model_for(obs)))
        ctx.count("schedules_enumerated_exhaustively", exhausted)
    if model_for is None:
        # oracle only (a construct the Lean model does not have): the runs are compared with each other
        for rec in runs:
            rec["model_value"], rec["model_rows"], rec["dup"] = rec["value"], rec["rows"], False
        finish_explore(ctx, label, kind, spec_json, runs, [], [], classify)
    else:
        ctx.batch.add([q for _, q in pending],
                      lambda replies: finish_explore(ctx, label, kind, spec_json, runs, pending, replies, classify))
    return runs


def finish_explore(ctx, label, kind, spec_json, runs, pending, replies, classify):
    for (rec, q), rep in zip(pending, replies):
        dup, mval, mrows = model_rows(rep)
        rec["model_value"], rec["model_rows"], rec["dup"] = mval, mrows, dup
    if any(r["dup"] for r in runs):
        ctx.count("workflows_with_a_shared_expression_under_one_parent", 1)
    base = runs[0]
    for rec in runs:
        case = dict(label=label, kind=kind, spec=spec_json, limits=rec["limits"], schedule=rec["schedule"])
        ctx.case(key=None if rec["njobs"] <= 1 else (label, rec["limits"], tuple(rec["schedule"])),
                 sample=dict(label=label, limits=rec["limits"], schedule=rec["schedule"][:12], value=rec["value"], nrows=len(rec["rows"])),
                 kind=kind, limits=rec["limits"], jobs=min(rec["njobs"], 12), shared_expression=rec["dup"])
        if rec["status"] != "ok":
            ctx.violation("C07-execution-did-not-finish", "the workflow did not return a value under this schedule: " + rec["value"],
                          case=case, expected="a value", actual=rec["value"], kind="schedule")
            continue
        if rec["model_value"] != rec["value"]:
            ctx.mismatch("value differs from the model", case=case, model=rec["model_value"], impl=rec["value"])
        elif rec["model_rows"] != rec["rows"]:
            only_m = sorted(rec["model_rows"] - rec["rows"])[:3]
            only_r = sorted(rec["rows"] - rec["model_rows"])[:3]
            ctx.mismatch("recorded call graph differs from the model", case=case, model=only_m, impl=only_r)
        if (rec["value"] != base["value"] or rec["rows"] != base["rows"] or rec["obs"]["digests"] != base["obs"]["digests"]
                or rec["obs"]["jobs"] != base["obs"]["jobs"]):
            # a difference both of whose sides the model predicts (from the observed entry order / forked-job state) is one
            # of the recorded findings; anything else is new
            explained = (rec["rows"] == rec["model_rows"] and base["rows"] == base["model_rows"] and rec["rows"] != base["rows"])
            sig = classify(base, rec) if explained else SIG_NEW
            ctx.violation(sig, "the same workflow records a different %s under another completion order / limit configuration"
                          % ("value" if rec["value"] != base["value"] else ("call graph" if rec["rows"] != base["rows"] else
                             ("set of call/argument hash digests for the same pre-images" if rec["obs"]["digests"] != base["obs"]["digests"]
                              else "number of executed (non-cached) jobs per call"))),
                          case=dict(case, other=dict(limits=base["limits"], schedule=base["schedule"])),
                          expected=dict(value=base["value"], rows_only_there=sorted(base["rows"] - rec["rows"])[:3],
                                        jobs_only_there=sorted(base["obs"]["jobs"] - rec["obs"]["jobs"])[:3]),
                          actual=dict(value=rec["value"], rows_only_here=sorted(rec["rows"] - base["rows"])[:3],
                                      jobs_only_here=sorted(rec["obs"]["jobs"] - base["obs"]["jobs"])[:3]), kind="schedule")
    return runs


def check_flow(ctx, env, flow, label, thorough, corpus=False):
    ns = "c07f%d" % env.n
    env.n += 1
    mod = env.load_module(ns + "_mod", flow.module_text(ns))
    n = len(flow.bodies)

    def task_ids():
        return {getattr(mod, "t%d" % i).hash: i for i in range(n)}

    q = "graph " + sx([Raw("tbl")] + flow.tbl()) + " " + sx([Raw("root"), 0, flow.root_arg])
    return explore(ctx, env, label, "handle-free", flow.to_json(), lambda: mod.t0(flow.root_arg), task_ids, {},
                   lambda obs: q, (flow.cfgs or limit_configs(ctx.rng, thorough, flow.limits)[:(2 if corpus and not thorough else 9)]),
                   cap=(60 if thorough else (5 if corpus else (8 if flow.cfgs else 14))), nrandom=(12 if thorough else (0 if corpus or flow.cfgs else 4)),
                   classify=lambda a, b: SIG_NEW)


# ------------------------------------------------------------------------------------------- catch_all workflows (oracle only)
ERRN = ["ValueError", "KeyError", "ZeroDivisionError"]


class CFlow:
    """main() built around catch_all([terms ...]).  terms: ("fail", k, cls) | ("faild", k, cls) (fail(ok(k), cls): fails later) |
    ("ok", x); shape: "bare" | "caught" | "recover" | "recover-caught" | "wrapped"; rec_classes: classes the catch_all recover
    matches.  The Lean model has no catch_all; its meaning is C01's: all terms are awaited, the error re-raised is the one of the
    first failing term BY POSITION (first non-matching one when a recover is given) - never a function of the completion order."""

    def __init__(self, terms, shape, rec_classes, limits):
        self.terms, self.shape, self.rec_classes, self.limits = terms, shape, rec_classes, limits

    def to_json(self):
        return dict(kind="catch_all", terms=self.terms, shape=self.shape, rec_classes=self.rec_classes, limits=self.limits)

    def module_text(self, ns):
        def opt(l):
            return "" if l is None else ", limits=%r" % (l,)
        ts = []
        for t in self.terms:
            if t[0] == "ok":
                ts.append("ok(%d)" % t[1])
            elif t[0] == "fail":
                ts.append("fail(%d, %d)" % (t[1], t[2]))
            else:
                ts.append("fail(ok(%d), %d)" % (t[1], t[2]))
        terms = "[" + ", ".join(ts) + "]"
        rc = "(" + ", ".join(ERRN[c] for c in self.rec_classes) + ("," if len(self.rec_classes) == 1 else "") + ")"
        inner = {"bare": "catch_all(%s)" % terms, "caught": "catch_all(%s)" % terms,
                 "recover": "catch_all(%s, %s, rec_all)" % (terms, rc), "recover-caught": "catch_all(%s, %s, rec_all)" % (terms, rc),
                 "wrapped": "catch_all(%s)" % terms}[self.shape]
        expr = {"bare": inner, "recover": inner, "caught": "catch(%s, Exception, describe)" % inner,
                "recover-caught": "catch(%s, Exception, describe)" % inner,
                "wrapped": "wrap(catch(%s, Exception, describe))" % inner}[self.shape]
        out = ["from redun import task", "from redun.scheduler import catch, catch_all", "",
               "ERRS = [ValueError, KeyError, ZeroDivisionError]", "",
               "def _code(e):", "    return 100 * (ERRS.index(type(e)) + 1) + int(e.args[0])", "",
               '@task(name="fail", namespace="%s", version="1"%s)' % (ns, opt(self.limits)), "def fail(k, c):", "    raise ERRS[c](k)", "",
               '@task(name="ok", namespace="%s", version="1"%s)' % (ns, opt(self.limits)), "def ok(x):", "    return x", "",
               '@task(name="describe", namespace="%s", version="1")' % ns, "def describe(error):", "    return _code(error)", "",
               '@task(name="rec_all", namespace="%s", version="1")' % ns, "def rec_all(values):",
               "    return sum(_code(v) if isinstance(v, Exception) else v for v in values)", "",
               '@task(name="wrap", namespace="%s", version="1")' % ns, "def wrap(x):", "    return x + 1", "",
               '@task(name="main", namespace="%s", version="1")' % ns, "def main():", "    return " + expr, ""]
        return "\n".join(out)


def gen_cflow(rng):
    n = rng.choice([2, 3, 3, 4])
    terms = []
    for i in range(n):
        r = rng.random()
        if r < 0.3:
            terms.append(["ok", 40 + i])
        elif r < 0.7:
            terms.append(["fail", i + 1, rng.randrange(3)])
        else:
            terms.append(["faild", i + 1, rng.randrange(3)])
    if sum(1 for t in terms if t[0] != "ok") < 2:                      # at least two failing terms, with different errors
        terms[0], terms[-1] = ["faild", 1, 0], ["fail", n, rng.choice([0, 1])]
    shape = rng.choice(["bare", "caught", "caught", "recover", "recover-caught", "recover-caught", "wrapped"])
    rec = rng.choice([[1], [1], [0, 1], [2], [0, 1, 2]])
    return CFlow(terms, shape, rec, rng.choice([None, None, ["r0"], ["g"]]))


def check_cflow(ctx, env, cf, label, thorough, corpus=False):
    ns = "c07c%d" % env.n
    env.n += 1
    mod = env.load_module(ns + "_mod", cf.module_text(ns))

    def task_ids():
        return {mod.main.hash: 0, mod.fail.hash: 1, mod.ok.hash: 2, mod.describe.hash: 3, mod.rec_all.hash: 4, mod.wrap.hash: 5}

    cfgs = limit_configs(ctx.rng, thorough, [cf.limits])[:(2 if not thorough else 9)]
    return explore(ctx, env, label, "catch_all", cf.to_json(), lambda: mod.main(), task_ids, {}, None, cfgs,
                   cap=(40 if thorough else (6 if corpus else 12)), nrandom=(8 if thorough else (0 if corpus else 2)), classify=lambda a, b: SIG_NEW,
                   taps="errors-are-outcomes")


# ------------------------------------------------------------------------------------------- handle workflows
class HFlow:
    """lanes: list of dict(src="shared"|("own", n)|("pre", k), step=None|int, b=int, slow=bool); limits: task -> option"""

    def __init__(self, lanes, use_limits, slow_limits):
        self.lanes = lanes
        self.use_limits = use_limits
        self.slow_limits = slow_limits

    def to_json(self):
        return dict(kind="handles", lanes=self.lanes, use_limits=self.use_limits, slow_limits=self.slow_limits)

    def module_text(self, ns):
        def opt(l):
            return "" if l is None else ", limits=%r" % (l,)
        out = ["from redun import task", "from props._c07_rt import DbH", "",
               '@task(name="use", namespace="%s", version="1"%s)' % (ns, opt(self.use_limits)), "def use(h, x):", "    return x", "",
               '@task(name="step", namespace="%s", version="1"%s)' % (ns, opt(self.use_limits)), "def step(h, x):", "    return h", "",
               '@task(name="slow", namespace="%s", version="1"%s)' % (ns, opt(self.slow_limits)), "def slow(x):", "    return x", "",
               '@task(name="main", namespace="%s", version="1")' % ns, "def main():", '    h = DbH("db", namespace="c07")']
        terms = []
        for i, l in enumerate(self.lanes):
            src = l["src"]
            if src == "shared":
                hexpr = "h"
            elif src[0] == "own":
                out.append('    g%d = DbH("db%d", namespace="c07")' % (i, src[1]))
                hexpr = "g%d" % i
            else:
                hexpr = 'h.fork("%d")' % src[1]
            if l["step"] is not None:
                hexpr = "step(%s, %d)" % (hexpr, l["step"])
            b = "slow(%d)" % l["b"] if l["slow"] else "%d" % l["b"]
            terms.append("use(%s, %s)" % (hexpr, b))
        out.append("    return " + " + ".join(terms))
        return "\n".join(out) + "\n"

    def lanes_sx(self):
        out = []
        for l in self.lanes:
            src = l["src"]
            s = Raw("shared") if src == "shared" else [Raw("own" if src[0] == "own" else "pre"), src[1]]
            out.append([s, l["step"], l["b"], bool(l["slow"])])
        return out

    def job_id(self, fullname, eval_args):
        """job id of the model (2*lane for use, 2*lane+1 for step) of an entry into _exec_job_main_thread, or None"""
        name = fullname.rsplit(".", 1)[1]
        if name not in ("use", "step"):
            return None
        x = eval_args[0][1]
        for i, l in enumerate(self.lanes):
            if name == "use" and l["b"] == x:
                return 2 * i
            if name == "step" and l["step"] == x:
                return 2 * i + 1
        return None

    def shared_by_several(self):
        return sum(1 for l in self.lanes if l["src"] == "shared") >= 2


def gen_hflow(rng):
    nl = rng.choice([2, 2, 3, 3, 4])
    lanes = []
    for i in range(nl):
        r = rng.random()
        src = "shared" if r < 0.5 else (("own", 10 + i) if r < 0.8 else ("pre", 100 + i))
        lanes.append(dict(src=src, step=(50 + i) if rng.random() < 0.3 else None, b=10 + i, slow=rng.random() < 0.6))
    return HFlow(lanes, rng.choice([None, ["r0"], ["g"], {"r0": 2}]), rng.choice([None, ["r1"], ["g"]]))


def check_hflow(ctx, env, hf, label, thorough, recount, witness=None, corpus=False):
    ns = "c07h%d" % env.n
    env.n += 1
    mod = env.load_module(ns + "_mod", hf.module_text(ns))

    def task_ids():
        return {mod.main.hash: 0, mod.use.hash: 1, mod.step.hash: 2, mod.slow.hash: T_SLOW}

    handle_ids = {"c07.db": 1}
    for l in hf.lanes:
        if l["src"] != "shared" and l["src"][0] == "own":
            handle_ids["c07.db%d" % l["src"][1]] = l["src"][1]

    def model_for(obs):
        entries = [hf.job_id(fn, ea) for fn, ea in obs["entries"]]
        obs["entry_ids"] = [e for e in entries if e is not None]
        return "handles " + sx(bool(recount)) + " " + sx([Raw("lanes")] + hf.lanes_sx()) + " " + sx([Raw("entries")] + obs["entry_ids"])

    def first(es):
        out = []
        for e in es:
            if e not in out:
                out.append(e)
        return out

    def classify(a, b):
        # same order of first entries but different rows: only the re-entries differ (the repaired defect)
        if first(a["obs"]["entry_ids"]) == first(b["obs"]["entry_ids"]):
            return SIG_REENTRY
        return SIG_ORDER if hf.shared_by_several() else SIG_NEW

    cfgs = limit_configs(ctx.rng, thorough, [hf.use_limits, hf.slow_limits])
    if witness == SIG_ORDER:
        # the witness: replayed once, accounted once
        runs, qs = [], []
        for sched in ([0, 0, 0, 0, 0, 0], [0, 1, 0, 0, 0, 0]):
            ctl = make_ctl(schedule=sched)
            status, val, rows, obs = run_once(env, lambda: mod.main(), cfgs[0][1], ctl, task_ids, handle_ids)
            qs.append(model_for(obs))
            case = dict(label=label, kind="handles", spec=hf.to_json(), schedule=sched, entries=obs["entry_ids"])
            ctx.case(key=(label, tuple(sched)), kind="handles-witness", limits="unlimited")
            runs.append((val, rows, case))

        def finish(replies):
            for (val, rows, case), rep in zip(runs, replies):
                dup, mval, mrows = model_rows(rep)
                if mval != val or mrows != rows:
                    ctx.mismatch("handle witness: recorded call graph differs from the model", case=case,
                                 model=sorted(mrows - rows)[:3], impl=sorted(rows - mrows)[:3])
        ctx.batch.add(qs, finish)
        ctx.expect_known(SIG_ORDER, runs[0][1] != runs[1][1], case=runs[1][2],
                         what="use(h, slow(10)) / use(h, slow(11)) get the handle forks 1/2 or 2/1 depending on which slow() finishes first")
        return runs
    if corpus and not thorough:
        cfgs = cfgs[:2]
    return explore(ctx, env, label, "handles", hf.to_json(), lambda: mod.main(), task_ids, handle_ids, model_for, cfgs,
                   cap=(16 if thorough else (4 if corpus else 6)), nrandom=(4 if thorough else (0 if corpus else 2)), classify=classify)


# ------------------------------------------------------------------------------------------- fork_thread workflows
def check_fork(ctx, env, flow, a_call, b_call, label, thorough, witness=False):
    ns = "c07k%d" % env.n
    env.n += 1
    text = flow.module_text(ns) + "\n\n@task(name=\"main\", namespace=\"%s\", version=\"1\")\ndef main():\n    return cond(fork_thread(t%d(%d)), t%d(%d), t%d(%d))\n" % (
        ns, a_call[0], a_call[1], b_call[0], b_call[1], b_call[0], b_call[1])
    mod = env.load_module(ns + "_mod", text)
    n = len(flow.bodies)

    def task_ids():
        d = {getattr(mod, "t%d" % i).hash: i for i in range(n)}
        d[mod.main.hash] = T_FORKMAIN
        return d

    a_name = "%s.t%d" % (ns, a_call[0])

    def model_for(obs):
        kids = obs["resolve"].get(ns + ".main", [])
        seen = all(done for fn, done in kids if fn == a_name) if any(fn == a_name for fn, _ in kids) else True
        obs["seen"] = seen
        return ("fork " + sx([Raw("tbl")] + flow.tbl()) + " " + sx([Raw("a"), a_call[0], a_call[1]]) + " " +
                sx([Raw("b"), b_call[0], b_call[1]]) + " " + sx(bool(seen)))

    spec = dict(flow.to_json(), kind="fork", a=list(a_call), b=list(b_call))
    if witness:
        outs, qs = [], []
        for sched in ([0, 0, 0, 0, 0, 0], [0, 1, 1, 1, 1, 1]):
            ctl = make_ctl(schedule=sched)
            status, val, rows, obs = run_once(env, lambda: mod.main(), {r: 100 for r in RES}, ctl, task_ids, {})
            qs.append(model_for(obs))
            case = dict(label=label, spec=spec, schedule=sched, forked_child_seen=obs["seen"])
            ctx.case(key=(label, tuple(sched)), kind="fork-witness", limits="unlimited")
            outs.append((rows, case, val))

        def finish(replies):
            for (rows, case, val), rep in zip(outs, replies):
                dup, mval, mrows = model_rows(rep)
                if mval != val or mrows != rows:
                    ctx.mismatch("fork_thread witness: recorded call graph differs from the model", case=case,
                                 model=sorted(mrows - rows)[:3], impl=sorted(rows - mrows)[:3])
        ctx.batch.add(qs, finish)
        ctx.expect_known(SIG_FORK, outs[0][0] != outs[1][0], case=outs[1][1],
                         what="main() = cond(fork_thread(slow(7)), other(3), other(3)): main's call hash lists slow(7) only when it finished first")
        return outs
    return explore(ctx, env, label, "fork_thread", spec, lambda: mod.main(), task_ids, {}, model_for,
                   limit_configs(ctx.rng, thorough, flow.limits)[:2], cap=(30 if thorough else 8), nrandom=(8 if thorough else 2),
                   classify=lambda a, b: SIG_FORK if a["obs"].get("seen") != b["obs"].get("seen") else SIG_NEW)


# =========================================================================================== corpus
def corpus_flows():
    A, L = ("arg",), (lambda z: ("lit", z))
    C = lambda n, t: ("call", n, t)            # noqa: E731
    return {
        # children of t0 are created in completion order of t1(x) / t1(x+1): sorted() makes the hash independent
        "two-conds": Flow([("add", ("cond", C(1, A), C(2, A), L(0)), ("cond", C(1, ("add", A, L(1))), C(2, ("add", A, L(1))), L(0))),
                           A, ("add", A, L(10))], [None, ["r0"], ["r0"]], 1),
        # twins across parents: CSE / collapse, both parents list the same child hash
        "twins": Flow([("add", C(1, A), C(2, A)), C(3, ("add", A, L(1))), C(3, ("add", A, L(1))), ("add", A, L(5))],
                      [None, ["g"], ["g"], ["g"]], 2),
        # one expression used eagerly and again in a cond branch: one job whichever of t1(1) / t2(1) finishes first
        "shared-in-cond-branch": Flow([("add", C(1, A), ("cond", C(2, A), C(1, A), L(0))), ("add", A, L(10)), A], [None, None, None], 1),
        "shared-lazy-add": Flow([("add", ("add", C(1, A), L(1)), ("cond", C(2, A), ("add", C(1, A), L(1)), C(1, A))), ("add", A, L(10)), A],
                                [None, ["r0"], ["r0"]], 1),
        # the same call through two different expressions under one parent: main() = [work(1), work(ident(1))]
        "twin-siblings": Flow([("add", C(1, A), C(1, C(2, A))), ("add", A, L(10)), A], [None, None, None], 1),
        # twins f(t) / f(ident(t)) that both wait for resource r0 behind two holder jobs and are released one after the other
        "parked-twins": Flow([("add", ("add", C(2, L(20)), C(2, L(21))), ("add", C(1, A), C(1, C(3, A)))), ("add", A, L(10)), A, A],
                             [None, ["r0"], ["r0"], None], 1,
                             cfgs=[("unlimited", {r: 100 for r in RES})] + [("r0=%d" % k, dict({r: 100 for r in RES}, r0=k)) for k in (2, 3, 1)]),
        "deep": Flow([C(1, C(2, C(3, A))), ("add", A, C(2, A)), ("cond", A, C(3, A), L(4)), ("add", A, L(1))],
                     [["g"], ["g"], ["g"], ["g"]], 1),
    }


def probe_recount(ctx, env):
    """Does this tree still fork handles again when a job re-enters after waiting for a limit (DESIGN F5 i)?"""
    hf = HFlow([dict(src="shared", step=None, b=10 + i, slow=False) for i in range(3)], ["r0"], None)
    ns = "c07p%d" % env.n
    env.n += 1
    mod = env.load_module(ns + "_mod", hf.module_text(ns))
    outs = []
    for lim in (100, 1):
        ctl = make_ctl(schedule=[0] * 8)
        status, val, rows, obs = run_once(env, lambda: mod.main(), {"r0": lim}, ctl,
                                          lambda: {mod.main.hash: 0, mod.use.hash: 1, mod.step.hash: 2, mod.slow.hash: 3}, {"c07.db": 1})
        outs.append(rows)
    return outs[0] != outs[1], hf


# =========================================================================================== run
def run(ctx):
    import time
    import ctl_sched
    ctl_sched.quiet()
    _CPU0[0] = time.process_time()
    env = Env()
    ctx.batch = Batch(ctx)
    thorough = ctx.tier == "thorough"
    budget = 17 if ctx.tier == "quick" else 300          # CPU seconds of this process (time.process_time)
    try:
        t_start = ctx.elapsed()
        recount, hf_re = probe_recount(ctx, env)
        ctx.note("tree variant: recount on limits re-entry = %s" % recount)
        # corpus: the two known-finding witnesses, the repaired one, hand-written flows
        w = HFlow([dict(src="shared", step=None, b=10, slow=True), dict(src="shared", step=None, b=11, slow=True)], None, None)
        check_hflow(ctx, env, w, "corpus:handle-order-witness", thorough, recount, witness=SIG_ORDER)
        check_fork(ctx, env, Flow([("arg",), ("arg",)], [None, None], 0), (0, 7), (1, 3), "corpus:fork-thread-witness", thorough, witness=True)
        check_hflow(ctx, env, hf_re, "corpus:limits-reentry", thorough, recount, corpus=True)
        for name, fl in corpus_flows().items():
            check_flow(ctx, env, fl, "corpus:" + name, thorough, corpus=True)
        # catch_all over two terms failing with different errors, the earlier one failing later
        check_cflow(ctx, env, CFlow([["faild", 1, 0], ["fail", 2, 0], ["ok", 40]], "caught", [1], None), "corpus:catch-all-first-error", thorough, corpus=True)
        check_cflow(ctx, env, CFlow([["faild", 1, 1], ["faild", 2, 0], ["fail", 3, 2]], "recover", [1], None), "corpus:catch-all-first-unmatched", thorough, corpus=True)
        ctx.batch.flush()
        ctx.note("build+audit %.0fs, corpus %.0fs" % (t_start, ctx.elapsed() - t_start))
        rng = ctx.rng
        k = 0
        while cpu() < budget and ctx.elapsed() < HARD_WALL[ctx.tier] and k < ctx.n(400, 4000):
            r = rng.random()
            if r < 0.68:
                mode = rng.random()
                if mode > 0.85:
                    check_flow(ctx, env, gen_parked_twins(rng), "flow%d" % k, thorough)
                else:
                    check_flow(ctx, env, gen_flow(rng, serial=rng.random() < 0.3, shared=mode < 0.3, twin=0.3 <= mode < 0.55), "flow%d" % k, thorough)
            elif r < 0.78:
                check_cflow(ctx, env, gen_cflow(rng), "cflow%d" % k, thorough)
            elif r < 0.90:
                check_hflow(ctx, env, gen_hflow(rng), "hflow%d" % k, thorough, recount)
            else:
                fl = gen_flow(rng)
                n = len(fl.bodies)
                # the forked call is a single job (a task whose body calls nothing): it has ended or it has not when main resolves
                leaves = [i for i in range(n) if "call" not in json.dumps(fl.bodies[i])]
                a = (rng.choice(leaves), rng.choice([0, 1, 2]))
                b = (rng.randrange(n), rng.choice([3, 4]))
                check_fork(ctx, env, fl, a, b, "fork%d" % k, thorough)
            k += 1
            if k % 8 == 0:
                ctx.batch.flush()
        ctx.batch.flush()
        ctx.note("workflows explored: %d" % k)
    finally:
        env.close()


def replay(ctx, case):
    import ctl_sched
    ctl_sched.quiet()
    env = Env()
    try:
        c = case.get("case") or ((case.get("mismatches") or [{}])[0].get("case")) or {}
        spec = c.get("spec") or {}
        print("replay:", json.dumps({k: v for k, v in c.items() if k != "spec"})[:400])
        recount, _ = probe_recount(ctx, env)
        ctx.batch = Batch(ctx)
        if spec.get("kind") == "flow":
            cfgs = [(c[0], c[1]) for c in spec["cfgs"]] if spec.get("cfgs") else None
            check_flow(ctx, env, Flow([tup(b) for b in spec["bodies"]], spec["limits"], spec["root_arg"], cfgs=cfgs), "replay", True)
        elif spec.get("kind") == "catch_all":
            check_cflow(ctx, env, CFlow(spec["terms"], spec["shape"], spec["rec_classes"], spec["limits"]), "replay", True)
        elif spec.get("kind") == "handles":
            lanes = [dict(l, src=(l["src"] if l["src"] == "shared" else tuple(l["src"]))) for l in spec["lanes"]]
            check_hflow(ctx, env, HFlow(lanes, spec["use_limits"], spec["slow_limits"]), "replay", True, recount)
        elif spec.get("kind") == "fork":
            check_fork(ctx, env, Flow([tup(b) for b in spec["bodies"]], spec["limits"], spec["root_arg"]), tuple(spec["a"]), tuple(spec["b"]),
                       "replay", True)
        else:
            run(ctx)
        ctx.batch.flush()
    finally:
        env.close()
