"""C03 -- shallow (ultimate-reduction) cache hits respect code changes in the subtree, whatever happened to the
backend before (interrupted / retried recordings, imported call graphs).
Model: lean/RedunModel/Model/Db.lean; theorems: lean/RedunModel/Props/C03.lean; control: harness/ctl_db.py."""
import os
import shutil
import tempfile

import ctl_db
from core import unsx

ID = "C03"
READY = True
LEAN_MODULES = ["RedunModel.Props.C03", "RedunModel.Model.DbProto"]
LEAN_DRIVERS = ["C03"]
THEOREMS = [
    "RedunModel.C03.shallow_sound",
    "RedunModel.C03.shallow_hit_matches",
    "RedunModel.C03.record_crash_safe",
    "RedunModel.C03.exec_covers_children",
    "RedunModel.C03.exec_covers_self",
    "RedunModel.C03.hist_inv",
    "RedunModel.C03.history_shallow_sound",
    "RedunModel.C03.history_shallow_sound_repaired",
    "RedunModel.C03.history_shallow_sound_proposed",
    "RedunModel.Db.recordCallNode_shapes",
    "RedunModel.C03.record_complete_partial",
    "RedunModel.C03.refuted_crash",
    "RedunModel.C03.refuted_retry",
    "RedunModel.C03.refuted_transfer",
    "RedunModel.C03.refuted_cse_twin",
    "RedunModel.Db.recordCallNode_atomic",
    "RedunModel.Db.putRecords_graph",
]
TRUSTED = [
    "modelled, not verified: sqlite/SQLAlchemy transaction atomicity (a commit is all-or-nothing; rows added to the "
    "session become durable at the next commit of that session, including commits issued by nested calls), autoflush "
    "(queries see pending rows), `ORDER BY timestamp DESC` on distinct timestamps",
    "hashes are symbolic: `hash_call_node` collision freedom enters `hist_inv` as the explicit hypothesis `MerkleOK` "
    "(an already recorded node with the same call hash has the same task and child edges) and `call ∉ children`",
    "jobs that record no provenance are part of the modelled histories (Hist.resolveNoProv: nothing written, subtree set "
    "handed to the parent); assumed: a call hash such a job handed to its parent is not recorded as a NEW call node later "
    "by the same scheduler process (hypothesis of Hist.resolve), and an import happens between scheduler processes",
    "the scheduler's job tree is an input of the model (`Hist.resolve` takes the finished child jobs); that children "
    "are resolved before their parent and that `Job.subtree_tasks` is what `calc_subtree_tasks`/`_get_subtree_tasks` "
    "compute is tied by the correspondence (arguments of every real `record_call_node` call are replayed on the model)",
    "the Variant flags of the model are chosen by probing the working tree with the six witnesses; a flag probed "
    "`repaired` makes the full-strength theorems the claim, a flag probed `current` makes the `refuted_*` witness the "
    "claim (and a VIOLATION / KNOWN-FINDING line)",
]
ASSUMPTIONS = [
    "programs: pure tasks with int arguments and nested-list results, no context, no File/Handle values, every job "
    "records provenance (prov=True), default cache_scope; check_valid in {full, shallow}; plus one corpus program with a "
    "shallow parent over prov=False children (record_call_node records their Task values itself), and one with a failure "
    "caught by catch_all beneath a shallow task (plain, and with the failed job served by CSE), and three with a job that "
    "records no provenance (task option prov=False, .options(prov=False), redun.functools.no_prov) between a shallow "
    "recording ancestor and the edited task",
    "edits are version bumps (task hash derived from `version`), reverts restore the old hash",
    "process death = loss of everything not committed; the sqlite file after the last successful commit is what "
    "the next process sees (no torn pages)",
    "transient failure = one OperationalError raised instead of a writing commit; db_retries_backoff = 0",
    "record transfer = put_records(get_records(iter_record_ids(all executions))) between two sqlite repositories",
    "on a tree probed `current` for atomicCallNode, faults injected inside record_call_node are checked by the "
    "oracle only (the model does not reproduce the nested db_retry rollback of the unrepaired code)",
]
RULE = ("a case = one generated task program (2-5 tasks, random call DAG, random shallow flags, duplicate calls) + one "
        "history over it: runs, edits / reverts of random tasks, one disturbance (process death at a chosen writing commit, "
        "single OperationalError at a chosen writing commit, or transfer of all records to a second repository), recovery "
        "runs, and finally a targeted edit of every task missing from a recorded subtree set. Every top-level backend "
        "operation of every run is replayed on the Lean model (durable state after every commit, check_cache and "
        "get_subtree_tasks answers compared); every completed run's result is compared with direct evaluation of the "
        "program. distinct = (program shape, history) pairs; non-trivial = history with at least one edit")
LEVEL_TEXT = ("Lean 4 proof. Full strength (history_shallow_sound: all histories of recordings, process deaths at any "
              "commit, restarts, retries, cache hits, imports; any registry): a shallow hit implies every task recorded at "
              "or beneath the node is registered -- for every model variant whose _get_call_node rejects an empty subtree "
              "set and whose cached jobs take their subtree tasks from the backend (fixes (a),(b),(c)); atomicity of "
              "record_call_node is NOT needed (recordCallNode_shapes / record_crash_safe: every crash point of the "
              "two-commit and of the one-commit code). For the unrepaired code the statement is refuted by four closed "
              "witnesses (refuted_crash, refuted_retry, refuted_transfer, refuted_cse_twin) and record_complete_partial "
              "is what remains. Tie: every backend operation and every Job.subtree_tasks of real runs replayed on the "
              "model + result oracle on the real code.")
LEVEL_NOTE = ("modelled-not-verified: sqlite atomicity, autoflush; hash collision freedom is a hypothesis (MerkleOK). "
              "The model cannot exhibit: torn writes, concurrent writers to one database, context-tagged call nodes, "
              "prov=False jobs, value-store / File validity (C04), the scheduler's event order (taken from the real run). "
              "Result equality with a fresh run is checked by the oracle on generated programs, the theorem is about "
              "which tasks a hit depends on.")
TECHNIQUE = "Lean 4 invariant proof over all histories of an executable backend model + op-level correspondence + result oracle"

SIGS = {
    "atomicCallNode": ("C03-callnode-committed-before-subtree-rows",
                       "record_call_node commits the CallNode before its CallSubtreeTask rows: a process death or a retried "
                       "transient error in between leaves an empty subtree set and the edited child is served stale"),
    "emptyNotCurrent": ("C03-empty-subtree-set-counts-as-current",
                        "_get_call_node treats a CallNode without CallSubtreeTask rows (imported / interrupted) as current: "
                        "shallow run in the destination repository returns the pre-edit result"),
    "cseSubtreeFromDb": ("C03-cse-twin-subtree-incomplete",
                         "a CSE-served child job (check_valid=full) contributes only its own task to the parent's subtree set: "
                         "editing a grandchild is not seen by the shallow parent (clean history)"),
}


Env, Case, compare_case, FLAG_NAMES = ctl_db.Env, ctl_db.Case, ctl_db.compare_case, ctl_db.FLAG_NAMES


probe_flags = ctl_db.probe_flags


def witness_cases(ctx, env, flags):
    """The three F2 witnesses + the CSE twin as full histories (also the corpus of C03): every writing commit of the
    recording run as a crash point, every writing commit as a fault position, transfer; then edit the child."""
    out = []

    def prog():
        return ctl_db.Program(3, [[(1, 0)], [(2, 0)], []], [True, False, False], [(0, 1)], ns="gcw")

    def scenario(label, steps):
        c = Case(env, prog(), flags, label, oracle)
        out.append(c)
        ctl_db.guarded(ctx, label, lambda: steps(c))
        return c

    # count the writing commits of a clean run
    info = {}

    def clean(c):
        res, _, info["n"] = c.run(0)
        c.prog.edit(2)
        c.run(0)
    scenario("clean", clean)
    ks = list(range(1, info.get("n", 0) + 1))
    if ctx.tier == "quick":
        ks = ks[-9:]            # the commits of the resolve phase (record_call_node / record_job_end) are last
    for k in ks:
        def crash(c, k=k):
            c.disturb.append("crash")
            c.run(0, crash_at=k)
            c.run(0)                 # recovery, no edit
            c.prog.edit(2)           # edit the grandchild
            c.run(0)
        scenario(f"crash@{k}", crash)
    for k in ks:
        def fault(c, k=k):
            c.disturb.append("fault")
            c.run(0, fault_k=k)
            c.prog.edit(2)
            c.run(0)
        scenario(f"fault@{k}", fault)

    def transfer(c):
        c.run(0)
        c.transfer(0, 1)
        c.prog.edit(2)
        c.run(1)
        c.run(0)
    scenario("transfer", transfer)

    # CSE twin, clean history; and CSE hit on a call node that was imported without subtree rows
    def twin(c):
        c.prog = ctl_db.TwinProgram()
        c.run(0)
        c.prog.edit(0)
        c.run(0)
    scenario("twin", twin)

    def twin_import(c):
        c.prog = ctl_db.TwinProgram(ns="gctx")
        c.prog.mode = "f"
        c.run(0)
        c.transfer(0, 1)
        c.prog.mode = "twin"
        c.run(1)
        c.prog.edit(0)
        c.run(1)
    scenario("twin-import", twin_import)

    # a caught failure beneath a shallow task, the edited task two jobs below the catching task; and the same with
    # the failed job served by CSE (error CallNode of a twin)
    def fail_single(c):
        c.prog = ctl_db.FailProgram("single")
        c.sig_override = ("C03-failed-job-subtree-incomplete",
                          "a shallow task that caught a failure is recorded without the tasks that ran beneath the failed "
                          "job: after editing one of them it replays the stale result")
        c.run(0)
        c.prog.edit(0)
        c.run(0)
        c.prog.edit(0)
        c.run(0)
    scenario("fail-single", fail_single)

    def fail_twin(c):
        c.prog = ctl_db.FailProgram("twin", ns="gcfail2")
        c.sig_override = ("C03-cse-served-error-loses-subtree",
                          "an error served by CSE is re-rejected without child jobs: the catching shallow parent is recorded "
                          "without the tasks beneath the failed job and replays the stale result after an edit")
        c.run(0)
        c.prog.edit(0)
        c.run(0)
    scenario("fail-twin", fail_twin)

    # a job that records no provenance (three ways to get one) between a shallow recording ancestor and the edited
    # task; cleanly recorded: run, run again (hit), edit the deepest task only, run, revert, run
    for kind in ("option", "call", "no_prov"):
        def noprov_mid(c, kind=kind):
            c.prog = ctl_db.NoProvMidProgram(kind)
            c.sig_override = ("C03-noprov-job-subtree-not-handed-up",
                              "a job that records no provenance hands its parent only its own task: the shallow recording "
                              "ancestor is recorded without the tasks that ran beneath that job and replays a stale result "
                              "after one of them is edited")
            c.run(0)
            c.run(0)
            c.prog.edit(0)
            c.run(0)
            c.prog.versions[0] -= 1
            c.run(0)
        scenario(f"noprov-mid-{kind}", noprov_mid)

    # the same programs transferred to a fresh repository (real `_sync_records` / export + import), then the deepest
    # task is edited and the program runs in the destination: the imported shallow node looks like a leaf (its
    # children are not recorded) and must not be served
    for kind, how in (("option", "sync"), ("call", "file"), ("no_prov", "sync")):
        def noprov_xfer(c, kind=kind, how=how):
            c.prog = ctl_db.NoProvMidProgram(kind, ns="gcnpx")
            c.sig_override = ("C03-imported-node-partial-subtree-set",
                              "after a record transfer a shallow call node whose children recorded no provenance has a "
                              "non-empty but incomplete subtree-task set in the destination and is served after a task "
                              "beneath it was edited")
            c.run(0)
            c.transfer(0, 1, how=how)
            c.run(1)
            c.prog.edit(0)
            c.run(1)
        scenario(f"noprov-mid-{kind}-transfer-{how}", noprov_xfer)

    # shallow parent over prov=False children: record_call_node itself records the children's Task values (one
    # commit each) between the CallNode and its subtree rows.  Every commit of that record_call_node as crash point
    # and as fault position; then each child is edited in turn on a copy of the resulting database.
    np_info = {}

    def np_clean(c):
        c.prog = ctl_db.NoProvProgram()
        c.run(0)
        np_info["range"] = ctl_db.commit_range_of(c, "record_call_node", 0)
    scenario("noprov-clean", np_clean)
    lo, hi = np_info.get("range") or (1, 0)

    def np_children(c, r):
        base = list(c.prog.versions)
        for i in range(1, c.prog.n):
            c.prog.versions = list(base)
            c.prog.edit(i)
            c.branch(r, r + i)
            c.run(r + i)
    for k in range(lo, hi + 2):
        def np_crash(c, k=k):
            c.prog = ctl_db.NoProvProgram()
            c.disturb.append("crash")
            c.run(0, crash_at=k)
            c.run(0)
            np_children(c, 0)
        scenario(f"noprov-crash@{k}", np_crash)
    for k in range(lo, hi + 1):
        def np_fault(c, k=k):
            c.prog = ctl_db.NoProvProgram()
            c.disturb.append("fault")
            c.run(0, fault_k=k)
            np_children(c, 0)
        scenario(f"noprov-fault@{k}", np_fault)
    return out


def gen_case(ctx, env, flags, idx):
    rng = ctx.rng
    prog = ctl_db.gen_program(rng, ns="gcg")
    c = Case(env, prog, flags, f"gen{idx}", oracle)
    kind = rng.choice(["none", "crash", "fault", "transfer", "transfer", "crash"])
    r = 0
    res, _, ncommits = c.run(r)
    # some edits / reverts on the clean repository
    for _ in range(rng.choice([0, 1, 1, 2])):
        i = rng.randrange(prog.n)
        if rng.random() < 0.3 and prog.versions[i] > 1:
            prog.versions[i] -= 1
        else:
            prog.edit(i)
        c.run(r)
    if kind == "crash":
        c.disturb.append("crash")
        prog.edit(rng.randrange(prog.n))
        prog.set_roots([(rng.randrange(max(1, prog.n - 1)), rng.choice([0, 1, 2]))])
        c.run(r, crash_at=rng.randrange(1, ncommits + 1))
        c.run(r)
    elif kind == "fault":
        c.disturb.append("fault")
        prog.edit(rng.randrange(prog.n))
        prog.set_roots([(rng.randrange(max(1, prog.n - 1)), rng.choice([0, 1, 2]))])
        c.run(r, fault_k=rng.randrange(1, ncommits + 1))
    elif kind == "transfer":
        c.transfer(0, 1)
        r = 1
        if rng.random() < 0.5:
            c.run(r)
    for _ in range(rng.choice([1, 2])):
        prog.edit(rng.randrange(prog.n))
        c.run(r)
    c.kind = kind
    return c


def run(ctx):
    ctl_db.quiet()
    base = tempfile.mkdtemp(prefix="gC-c03-")
    try:
        env = Env(ctx, base)
        flags, twin_case = probe_flags(ctx, env)
        ctx.note("variant flags probed on the working tree: " + ", ".join(f"{k}={'repaired' if v else 'current'}" for k, v in flags.items()))
        for f in FLAG_NAMES:
            ctx.count("flag_" + f, "repaired" if flags[f] else "current")
        if not flags["cseSubtreeFromDb"]:
            ctx.expect_known(SIGS["cseSubtreeFromDb"][0], True, twin_case, SIGS["cseSubtreeFromDb"][1])
        cases = witness_cases(ctx, env, flags)
        for i in range(ctx.n(9, 220)):
            c = ctl_db.guarded(ctx, f"gen{i}", lambda i=i: gen_case(ctx, env, flags, i))
            if c is not None:
                cases.append(c)
        # targeted edits: every task missing from a recorded subtree set is edited and the program re-run
        for c in cases:
            ctl_db.guarded(ctx, c.label + ":targeted", lambda c=c: targeted(ctx, c))
        # ---- model replay
        all_lines, spans = [], []
        for c in cases:
            lines, evs = c.lines()
            spans.append((c, evs, len(all_lines), len(all_lines) + len(lines)))
            all_lines.extend(lines)
        replies = ctx.model("C03", all_lines)
        for c, evs, a, b in spans:
            skip_model = (not flags["atomicCallNode"]) and any(
                ev.get("fault_j") is not None and ev.get("name") == "record_call_node" for ev in evs)
            edits = sum(1 for st in c.steps if st[0] == "run") > 1
            ctx.case(key=(repr(c.prog.describe()), repr(c.steps)) if edits else None,
                     sample=dict(label=c.label, program=c.prog.describe(), steps=[list(map(str, st)) for st in c.steps[:6]]),
                     history=c.label.split("@")[0].rstrip("0123456789"), ops=min(200, 10 * (len(evs) // 10)))
            if skip_model:
                ctx.count("model_comparison", "skipped-nested-retry-of-unrepaired-code")
                continue
            compare_case(ctx, c, evs, replies[a:b])
            ctx.count("model_comparison", "done")
    finally:
        shutil.rmtree(base, ignore_errors=True)


def classify(case: Case):
    if "transfer" in case.disturb:
        return SIGS["emptyNotCurrent"]
    if "crash" in case.disturb or "fault" in case.disturb:
        return SIGS["atomicCallNode"]
    return SIGS["cseSubtreeFromDb"]


def oracle(case: Case, r, res, crash_at, fault_k, fired):
    """the property's own oracle on the real code: a completed run returns what direct evaluation of the (edited)
    program gives, i.e. what a run on an empty backend returns"""
    ctx = case.env.ctx
    if res == "CRASH":
        return
    exp = case.prog.expected_main()
    if isinstance(res, str):
        if fault_k is not None or "crash" in case.disturb or "fault" in case.disturb:
            # the run itself failed after an interruption (KeyError / IntegrityError): C22's business
            ctx.count("run_error_after_interruption", res)
        else:
            ctx.violation("C03-run-raises", f"run raised {res}", case.describe(), expected=repr(exp)[:200], actual=res)
        return
    if res != exp:
        sig, what = case.sig_override or classify(case)
        ctx.violation(sig, what, dict(case.describe(), repo=r), expected=repr(exp)[:300], actual=repr(res)[:300],
                      kind="history")


def targeted(ctx, case: Case):
    """turn a latent gap (recorded subtree set misses a task beneath the node) into a concrete stale run"""
    prog = case.prog
    if not hasattr(prog, "tasks"):
        return
    for r, path in list(case.repos.items()):
        gaps = ctl_db.subtree_gaps(path)
        if not gaps:
            continue
        ctx.count("subtree_gaps", "found")
        missing = {h for _, miss, _ in gaps for h in miss}
        for i in range(prog.n):
            if prog.task_hash(i) in missing:
                prog.edit(i)
                case.run(r)
                break


def replay(ctx, case):
    print("replay case:", case.get("case"))
    run(ctx)
