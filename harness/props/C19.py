"""C19 — nested values are traversed (iter_nested_value) and rebuilt (map_nested_value) faithfully.
Model: lean/RedunModel/Model/Nested.lean (+ NestedMap.lean for the raising dataclass primitives)."""
import collections
import dataclasses
import typing
from dataclasses import dataclass, field

ID = "C19"
# READY: the model mirrors the REPAIRED map_nested_value (harness/findings_proposed/C19-dataclass-rebuild.fix.diff);
# on a tree without that fix the check reports the F20 violation (frozen dataclass with non-init field / slots dataclass).
READY = True
LEAN_MODULES = ["RedunModel.Props.C19"]
LEAN_DRIVERS = ["C19"]
THEOREMS = [
    "RedunModel.C19.total",
    "RedunModel.C19.shape_preserved",
    "RedunModel.C19.leaves_map",
    "RedunModel.C19.every_leaf_replaced",
    "RedunModel.C19.rebuild_unique",
    "RedunModel.C19.wf_preserved",
    "RedunModel.C19.functor_id",
    "RedunModel.C19.functor_comp",
    "RedunModel.C19.iter_eq_leaves",
    "RedunModel.C19.iter_perm_dfs",
    "RedunModel.C19.visited_perm_iter",
    "RedunModel.C19.visited_map",
    "RedunModel.C19.old_refuted_frozen_noninit",
    "RedunModel.C19.old_refuted_slots",
    "RedunModel.C19.old_partial",
    "RedunModel.C19.old_fails_iff",
]
TRUSTED = [
    "modelled, not verified: Python attribute primitives on dataclass instances (setattr raises FrozenInstanceError on a frozen "
    "dataclass, object.__setattr__ does not; evaluating obj.__dict__ raises AttributeError for slots=True), dataclasses.fields "
    "order, dict insertion order, evaluation order of comprehensions",
    "a set node of the model lists the elements in iteration order; Python's own collapsing of equal set elements / dict keys "
    "after mapping is applied by the harness when it canonicalises both results (set -> frozenset, dict built in item order)",
    "the user function is a total pure function in the model; in the tie it is a tagging function that records its calls",
]
ASSUMPTIONS = [
    "values are finite and acyclic; containers are exact list/tuple/set/dict, namedtuples and dataclass instances (subclasses of "
    "list/dict, frozenset, OrderedDict, defaultdict, dataclass *types* are leaves, as in the code)",
    "dataclasses of the grammar: plain @dataclass options frozen/slots/eq, fields with init=True or init=False (default or "
    "__post_init__-derived), no InitVar, no kw_only, no custom __init__, __post_init__ does not raise",
    "the mapped function returns hashable leaves where the container needs them (set elements, dict keys)",
    "shape equality is demanded only when the function is injective on the leaves of the value (Python collapses equal set "
    "elements and dict keys); for collapsing functions only 'every result leaf is f of an argument leaf' is demanded",
]
RULE = ("nested values generated from one PRNG to depth 5 over list/tuple/namedtuple/set/dict (nested hashable keys)/dataclass "
        "(18 classes: frozen x slots x init/non-init/__post_init__ fields, generic) with tagged and raw leaves (int, str, None, "
        "frozenset, list/dict subclasses, OrderedDict, dataclass types; namedtuples include subclasses of collections.namedtuple and "
        "typing.NamedTuple classes); each value goes through the real iter_nested_value and "
        "map_nested_value (injective tagging function, and a collapsing one) and through the Lean model (iterNested, visited, "
        "mapPy); iterator order and call order are compared exactly, results after canonicalising sets/dicts. distinct = "
        "distinct value texts; non-trivial = the value has at least one container")
LEVEL_TEXT = (
    "Proved in Lean for ALL nested values and ALL functions, no depth bound: total (the repaired map_nested_value, written over "
    "the raising Python attribute primitives, never raises and equals the structural map mapNV), shape_preserved, leaves_map, "
    "every_leaf_replaced, rebuild_unique (shape + leaves determine the value, so the result is the only faithful rebuild), "
    "wf_preserved, functor laws, iter_eq_leaves (the explicit-stack loop of iter_nested_value yields the mirror image of "
    "depth-first order), iter_perm_dfs, visited_perm_iter (the leaves map_nested_value applies func to are exactly the ones "
    "the iterator yields), visited_map - all full strength. About the code BEFORE the repair: old_refuted_frozen_noninit, "
    "old_refuted_slots (closed witnesses of finding F20), old_partial and old_fails_iff (the old code raises exactly on values "
    "containing a slots dataclass or a frozen dataclass with a non-init field). Tie: generated nestings run through the real "
    "functions and the model driver, outputs compared line by line; the property oracle (independent walker) runs on the real "
    "results; a few generated nestings with task expressions as leaves are run on the real Scheduler.")
LEVEL_NOTE = (
    "The model mirrors map_nested_value as repaired by findings_proposed/C19-dataclass-rebuild.fix.diff. Modelled, not verified: "
    "Python's dataclass/attribute semantics, hashing and equality of set elements and dict keys (collapsing is applied when "
    "canonicalising, and excluded from the shape theorem by the injectivity assumption), what a constructor or __post_init__ "
    "of a user class does besides storing its fields. The scheduler consequence (nested expressions are evaluated) is tied by "
    "running real programs only.")
TECHNIQUE = "Lean 4 proof on an executable tree model + differential correspondence with the real functions + property oracle"


# ------------------------------------------------------------------ leaf and container classes used by the generator
class Leaf:
    """A tagged, hashable leaf."""
    __slots__ = ("t",)

    def __init__(self, t):
        self.t = t

    def __eq__(self, o):
        return type(o) is Leaf and o.t == self.t

    def __hash__(self):
        return hash(("Leaf", self.t))

    def __repr__(self):
        return "Leaf(%s)" % self.t


class MyList(list):
    pass


class MyDict(dict):
    pass


P2 = collections.namedtuple("P2", ["x", "y"])
P1 = collections.namedtuple("P1", ["only"])
P0 = collections.namedtuple("P0", [])


class P3(typing.NamedTuple):
    a: object
    b: object
    c: object = None


class P2Sub(P2):
    """subclass of a collections.namedtuple class, with an extra method (the usual way to add behaviour to a namedtuple)"""
    __slots__ = ()

    def norm(self):
        return (self.x, self.y)


class P2SubSub(P2Sub):
    __slots__ = ()


class P3Sub(P3):
    """subclass of a typing.NamedTuple class"""


class P1Sub(P1):
    pass


# namedtuple = instance of a tuple subclass whose type has `_fields` (NOT "a class whose direct base is tuple")
NTUPLES = {"P2": (P2, 2), "P1": (P1, 1), "P0": (P0, 0), "P3": (P3, 3),
           "P2Sub": (P2Sub, 2), "P2SubSub": (P2SubSub, 2), "P3Sub": (P3Sub, 3), "P1Sub": (P1Sub, 1)}

DCLASSES = {}     # name -> (cls, [(field, init)], frozen, has_dict)


def _reg(cls):
    DCLASSES[cls.__name__] = (cls, [(f.name, f.init) for f in dataclasses.fields(cls)],
                              cls.__dataclass_params__.frozen, "__slots__" not in cls.__dict__)
    return cls


def _mk(name, spec, **kw):
    fields = []
    for fname, init in spec:
        fields.append((fname, object) if init else (fname, object, field(init=False, default=None)))
    cls = dataclasses.make_dataclass(name, fields, **kw)
    cls.__module__ = __name__
    globals()[name] = cls
    return _reg(cls)


for _fz in (False, True):
    for _sl in (False, True):
        _sfx = ("F" if _fz else "") + ("S" if _sl else "")
        _mk("D0" + _sfx, [], frozen=_fz, slots=_sl)
        _mk("D2" + _sfx, [("a", True), ("b", True)], frozen=_fz, slots=_sl)
        _mk("DN" + _sfx, [("a", True), ("n", False)], frozen=_fz, slots=_sl)
        _mk("DM" + _sfx, [("n", False), ("a", True), ("m", False), ("b", True)], frozen=_fz, slots=_sl)


@_reg
@dataclass
class DPost:
    """non-init field derived in __post_init__ (the rebuilt object must carry the MAPPED original, not the re-derived one)"""
    a: object
    d: object = field(init=False)

    def __post_init__(self):
        self.d = ("derived", self.a)


@_reg
@dataclass(frozen=True)
class DPostF:
    a: object
    d: object = field(init=False)

    def __post_init__(self):
        object.__setattr__(self, "d", ("derived", self.a))


_T = typing.TypeVar("_T")


@_reg
@dataclass
class DGen(typing.Generic[_T]):
    """subscripted generic: instances carry __orig_class__ in __dict__ (the copy loop of map_nested_value)"""
    a: object
    b: object = None


HASHABLE_DC = [n for n, (c, fs, fz, hd) in DCLASSES.items() if fz]


def make_dc(name, vals):
    cls, fields, frozen, has_dict = DCLASSES[name]
    kwargs = {f: v for (f, init), v in zip(fields, vals) if init}
    obj = (cls[int] if name == "DGen" else cls)(**kwargs)
    for (f, init), v in zip(fields, vals):
        if not init:
            object.__setattr__(obj, f, v)
    return obj


# ------------------------------------------------------------------ value <-> text
def atom(x):
    """Opaque text of a leaf."""
    if type(x) is Leaf:
        return x.t
    if x is None:
        return "N"
    if type(x) is bool:
        return "T" if x else "F"
    if type(x) is int:
        return "i%d" % x
    if type(x) is str:
        return "s" + x.encode().hex()
    if type(x) is bytes:
        return "b" + x.hex()
    if type(x) is frozenset:
        return "fz" + repr(sorted(map(atom, x))).encode().hex()
    if type(x) in (MyList, MyDict, collections.OrderedDict, collections.defaultdict):
        return "sub" + (type(x).__name__ + repr(x)).encode().hex()
    if isinstance(x, type):
        return "ty" + x.__name__
    raise TypeError("atom: " + repr(type(x)))


def is_ntuple(v):
    return isinstance(v, tuple) and type(v) is not tuple and hasattr(v, "_fields")


def is_dc(v):
    return dataclasses.is_dataclass(v) and not isinstance(v, type)


def tf(b):
    return "T" if b else "F"


def to_sx(v):
    """The harness's own reading of the grammar in the property statement (independent of redun.utils)."""
    t = type(v)
    if t is list:
        return "(" + " ".join(["L"] + [to_sx(x) for x in v]) + ")"
    if t is tuple:
        return "(" + " ".join(["U"] + [to_sx(x) for x in v]) + ")"
    if is_ntuple(v):
        return "(" + " ".join(["NT", t.__name__] + [to_sx(x) for x in v]) + ")"
    if t is set:
        return "(" + " ".join(["S"] + [to_sx(x) for x in v]) + ")"
    if t is dict:
        return "(" + " ".join(["D"] + ["(" + to_sx(k) + " " + to_sx(x) + ")" for k, x in v.items()]) + ")"
    if is_dc(v):
        cls, fields, frozen, has_dict = DCLASSES[t.__name__]
        assert cls is t
        return "(" + " ".join(["DC", t.__name__, tf(frozen), tf(has_dict)] +
                              ["(%s %s %s)" % (f, tf(init), to_sx(getattr(v, f))) for f, init in fields]) + ")"
    return atom(v)


def parse(text):
    toks = text.replace("(", " ( ").replace(")", " ) ").split()
    stack = [[]]
    for tk in toks:
        if tk == "(":
            stack.append([])
        elif tk == ")":
            x = stack.pop()
            stack[-1].append(x)
        else:
            stack[-1].append(tk)
    if len(stack) != 1 or len(stack[0]) != 1:
        raise ValueError("unparsable: " + text[:200])
    return stack[0][0]


def canon(t):
    """Canonical form of a value text: a set is a set, a dict is built in item order (last value wins)."""
    if isinstance(t, str):
        return ("leaf", t)
    h = t[0]
    if h in ("L", "U"):
        return (h, tuple(canon(x) for x in t[1:]))
    if h == "NT":
        return ("NT", t[1], tuple(canon(x) for x in t[2:]))
    if h == "S":
        return ("S", frozenset(canon(x) for x in t[1:]))
    if h == "D":
        d = {}
        for k, x in t[1:]:
            d[canon(k)] = canon(x)
        return ("D", frozenset(d.items()))
    if h == "DC":
        return ("DC", t[1], t[2], t[3], tuple((f, i, canon(x)) for f, i, x in t[4:]))
    raise ValueError("canon: " + repr(t)[:100])


def leaves_of(t, out):
    """Leaves of a parsed text, left to right (for multiset comparison only)."""
    if isinstance(t, str):
        out.append(t)
    elif t[0] in ("L", "U", "S"):
        for x in t[1:]:
            leaves_of(x, out)
    elif t[0] == "NT":
        for x in t[2:]:
            leaves_of(x, out)
    elif t[0] == "D":
        for k, x in t[1:]:
            leaves_of(k, out)
            leaves_of(x, out)
    elif t[0] == "DC":
        for f, i, x in t[4:]:
            leaves_of(x, out)
    return out


def shape_of(t):
    if isinstance(t, str):
        return "_"
    if t[0] in ("L", "U"):
        return [t[0]] + [shape_of(x) for x in t[1:]]
    if t[0] == "S":         # a set has no order: the shapes of its elements as a multiset
        return ["S"] + sorted((shape_of(x) for x in t[1:]), key=repr)
    if t[0] == "NT":
        return t[:2] + [shape_of(x) for x in t[2:]]
    if t[0] == "D":
        return ["D"] + [[shape_of(k), shape_of(x)] for k, x in t[1:]]
    return t[:4] + [[f, i, shape_of(x)] for f, i, x in t[4:]]


def has_class_in_key(t, in_key=False):
    """a namedtuple / dataclass inside a set element or dict key (Python equality there is not structural: P(1,2) == (1,2))"""
    if isinstance(t, str):
        return False
    if in_key and t[0] in ("NT", "DC", "U"):
        if t[0] != "U":
            return True
    if t[0] in ("L", "U"):
        return any(has_class_in_key(x, in_key) for x in t[1:])
    if t[0] == "NT":
        return any(has_class_in_key(x, in_key) for x in t[2:])
    if t[0] == "S":
        return any(has_class_in_key(x, True) for x in t[1:])
    if t[0] == "D":
        return any(has_class_in_key(k, True) or has_class_in_key(x, in_key) for k, x in t[1:])
    return any(has_class_in_key(x, in_key) for f, i, x in t[4:])


# ------------------------------------------------------------------ generator
class Gen:
    def __init__(self, rng):
        self.rng = rng
        self.n = 0

    def leaf(self, hashable):
        r = self.rng
        k = r.random()
        if k < 0.6:
            self.n += 1
            if r.random() < 0.15:       # repeated tag
                return Leaf("t%d" % r.randrange(max(1, self.n)))
            return Leaf("t%d" % self.n)
        if k < 0.75:
            return r.choice([0, 1, -1, 7, 10 ** 12, r.randrange(-50, 50)])
        if k < 0.85:
            return r.choice(["", "a", "ab", "é", "L", "S", "x y"])
        if k < 0.9:
            return None
        pool = [frozenset([1, 2]), frozenset(), frozenset([Leaf("z")]), b"ab", D2, DNF]
        if not hashable:
            pool += [MyList([1, 2]), MyDict(a=1), collections.OrderedDict(a=1), collections.defaultdict(list), MyList()]
        return r.choice(pool)

    def val(self, depth, hashable=False):
        r = self.rng
        if depth <= 0 or r.random() < 0.22:
            return self.leaf(hashable)
        n = r.choice([0, 1, 1, 2, 2, 3, 4])
        kinds = ["tuple", "tuple", "nt", "dc"] if hashable else ["list", "list", "tuple", "nt", "set", "dict", "dict", "dc", "dc"]
        k = r.choice(kinds)
        if k == "list":
            return [self.val(depth - 1) for _ in range(n)]
        if k == "tuple":
            return tuple(self.val(depth - 1, hashable) for _ in range(n))
        if k == "nt":
            name = r.choice(sorted(NTUPLES))
            cls, ar = NTUPLES[name]
            return cls(*[self.val(depth - 1, hashable) for _ in range(ar)])
        if k == "set":
            return {self.val(depth - 1, True) for _ in range(n)}
        if k == "dict":
            items = [(self.val(min(depth - 1, r.choice([0, 0, 1, 2])), True), self.val(depth - 1)) for _ in range(n)]
            return dict(items)
        name = r.choice(HASHABLE_DC if hashable else sorted(DCLASSES))
        cls, fields, frozen, has_dict = DCLASSES[name]
        return make_dc(name, [self.val(depth - 1, hashable) for _ in fields])


CORPUS = [
    # F20 witnesses (must pass on the repaired code)
    lambda: make_dc("DNF", [Leaf("a"), Leaf("n")]),
    lambda: make_dc("D2S", [Leaf("a"), Leaf("b")]),
    lambda: make_dc("DNS", [Leaf("a"), Leaf("n")]),
    lambda: make_dc("DNFS", [Leaf("a"), Leaf("n")]),
    lambda: make_dc("D0S", []),
    lambda: make_dc("DPostF", [Leaf("a"), Leaf("d")]),
    lambda: [make_dc("DMF", [Leaf("n"), Leaf("a"), Leaf("m"), Leaf("b")])],
    lambda: {"k": (make_dc("DNF", [Leaf("a"), [Leaf("n1"), Leaf("n2")]]),)},
    # the rest of the grammar
    lambda: make_dc("DPost", [Leaf("a"), Leaf("d")]),
    lambda: make_dc("DGen", [Leaf("a"), [Leaf("b")]]),
    lambda: make_dc("DM", [Leaf("n"), Leaf("a"), Leaf("m"), Leaf("b")]),
    lambda: {(Leaf("k1"), Leaf("k2")): [Leaf("v")], P2(Leaf("x"), Leaf("y")): {Leaf("e1"), Leaf("e2")}},
    lambda: [P3(Leaf("a"), (Leaf("b"),)), P0(), P1([Leaf("c")])],
    lambda: P2Sub(Leaf("x"), Leaf("y")),
    lambda: {(Leaf("t%d" % i), Leaf("t%d" % (100 + i))) for i in range(12)},              # sets of labelled containers
    lambda: [{P2(Leaf("t%d" % i), Leaf("t%d" % (200 + i))) for i in range(12)}, {make_dc("D2F", [Leaf("t%d" % i), Leaf("t%d" % (300 + i))]) for i in range(10)}],
    lambda: [P3Sub(Leaf("a"), P2SubSub(Leaf("b"), [Leaf("c")])), {P1Sub(Leaf("k")): P2Sub(Leaf("v"), P2(Leaf("w"), Leaf("z")))}],
    lambda: {Leaf("a"): Leaf("b"), Leaf("c"): Leaf("d")},
    lambda: [[], (), {}, set(), [[[Leaf("deep")]]]],
    lambda: [frozenset([1]), MyList([Leaf("hidden")]), collections.OrderedDict(a=Leaf("hidden")), D2],
    lambda: Leaf("bare"),
    lambda: {make_dc("D2F", [Leaf("a"), Leaf("b")]): make_dc("D2", [Leaf("c"), {Leaf("d")}])},
]


def classify_raise(e, text):
    name = type(e).__name__
    if name == "FrozenInstanceError":
        return "C19-map-raises-frozen-noninit-dataclass"
    if name == "AttributeError" and "__dict__" in str(e):
        return "C19-map-raises-slots-dataclass"
    return "C19-map-raises"


def check_value(ctx, v, utils, stream):
    text = to_sx(v)
    tree = parse(text)
    trivial = isinstance(tree, str)
    reqs = ["iter " + text, "visit " + text, "map m: " + text, "mapold m: " + text]
    # ---- real code
    it_err = None
    try:
        yielded = list(utils.iter_nested_value(v))
    except Exception as e:  # noqa: BLE001
        yielded = None
        it_err = e
    if yielded is None:
        it = None
        impl_iter = "!" + type(it_err).__name__
    else:
        # whatever is yielded is printed by the harness's own reader: a yielded container shows up as "(...)"
        it = [to_sx(x) for x in yielded]
        impl_iter = "(" + " ".join(it) + ")"
    log = []

    def f_inj(x):
        a = to_sx(x)
        if a.startswith("("):           # func applied to something the harness reads as a container
            log.append(a)
            return Leaf("m:<container>")
        log.append(a)
        return Leaf("m:" + a)

    def f_col(x):
        a = to_sx(x)
        return Leaf("c:<container>" if a.startswith("(") else "c:" + a[-1:])

    err = None
    try:
        r = utils.map_nested_value(f_inj, v)
        rtext = to_sx(r)
    except Exception as e:  # noqa: BLE001
        err = e
        r = None
        rtext = "!" + type(e).__name__
    try:
        rc = utils.map_nested_value(f_col, v)
        rctext = to_sx(rc)
    except Exception as e:  # noqa: BLE001
        rc = None
        rctext = "!" + type(e).__name__
    return dict(v=v, text=text, tree=tree, trivial=trivial, reqs=reqs, it=it, it_err=it_err, impl_iter=impl_iter, log=log, r=r, rtext=rtext,
                err=err, rctext=rctext, stream=stream)


def judge(ctx, c, replies, stats):
    m_iter, m_visit, m_map, m_old = replies
    text, tree = c["text"], c["tree"]
    depth = 0
    d = 0
    for ch in text:
        if ch == "(":
            d += 1
            depth = max(depth, d)
        elif ch == ")":
            d -= 1
    kinds = sorted({k for k in ("L", "U", "NT", "S", "D", "DC") if "(" + k + " " in text or "(" + k + ")" in text})
    ctx.case(key=None if c["trivial"] else text, sample={"value": text[:160], "iter": c["impl_iter"][:80], "mapped": c["rtext"][:160]},
             stream=c["stream"], depth=depth, outcome="raised" if c["err"] else "mapped")
    for k in kinds:
        ctx.count("container", k)
    # ---- correspondence
    if m_iter != c["impl_iter"]:
        ctx.mismatch("iter_nested_value order differs from model iterNested", case=text, model=m_iter, impl=c["impl_iter"])
    if c["err"] is None:
        m_log = "(" + " ".join(c["log"]) + ")"
        if m_visit != m_log:
            ctx.mismatch("order of func calls in map_nested_value differs from model visited", case=text, model=m_visit, impl=m_log)
    same = (not m_map.startswith("!") and not c["rtext"].startswith("!") and canon(parse(m_map)) == canon(parse(c["rtext"]))) \
        or m_map == c["rtext"]
    if not same:
        ctx.mismatch("map_nested_value result differs from model mapPy", case=text, model=m_map[:400], impl=c["rtext"][:400])
    old_same = (not m_old.startswith("!") and not c["rtext"].startswith("!") and canon(parse(m_old)) == canon(parse(c["rtext"]))) \
        or m_old == c["rtext"]
    stats["old_agrees" if old_same else "old_differs"] += 1
    if m_old.startswith("!"):
        stats["old_model_raises"] += 1
    # collapsing function: compare through the canonical form (model: structural map, then Python's set/dict collapsing)
    if not has_class_in_key(tree) and not c["rctext"].startswith("!"):
        mc = canon(parse(map_text(tree, lambda a: "c:" + a[-1:])))
        if mc != canon(parse(c["rctext"])):
            ctx.mismatch("collapsing map differs from structural map + set/dict collapsing", case=text, model=repr(mc)[:300],
                         impl=c["rctext"][:300])
    # ---- property oracle on the implementation
    # (a) the iterator yields exactly the leaves of the value (reference: the harness's own recursive flatten `leaves_of`
    #     over its own reading `to_sx`: nested dict keys - tuples, namedtuples, frozen dataclasses - are expanded)
    ref = sorted(leaves_of(tree, []))
    if c["it"] is None:
        ctx.violation("C19-iterator-raises", "iter_nested_value raised %s: %s" % (type(c["it_err"]).__name__, str(c["it_err"])[:120]),
                      case=text, expected=ref[:40], actual=c["impl_iter"])
    elif any(a.startswith("(") for a in c["it"]):
        ctx.violation("C19-iterator-yields-container", "iter_nested_value yielded a container instead of its leaves", case=text,
                      expected=ref[:40], actual=sorted(c["it"])[:40])
    elif sorted(c["it"]) != ref:
        ctx.violation("C19-iterator-misses-leaves", "iter_nested_value does not yield exactly the leaves of the value", case=text,
                      expected=ref[:40], actual=sorted(c["it"])[:40])
    if c["err"] is not None:
        ctx.violation(classify_raise(c["err"], text), "map_nested_value raised %s: %s" % (type(c["err"]).__name__, str(c["err"])[:120]),
                      case=text, expected="a rebuilt value", actual=c["rtext"])
        return
    rt = parse(c["rtext"])
    if shape_of(rt) != shape_of(tree):
        ctx.violation("C19-shape-changed", "map_nested_value (injective func) changed types or shape", case=text,
                      expected=repr(shape_of(tree))[:300], actual=repr(shape_of(rt))[:300])
    want = sorted("m:" + a for a in leaves_of(tree, []))
    got = sorted(leaves_of(rt, []))
    if want != got:
        ctx.violation("C19-leaf-not-replaced", "leaves of the result are not the images of the leaves of the argument", case=text,
                      expected=want[:40], actual=got[:40])
    if c["it"] is not None and sorted(c["it"]) != sorted(c["log"]):
        ctx.violation("C19-visited-differs-from-iterator", "map_nested_value applied func to other leaves than iter_nested_value yields",
                      case=text, expected=sorted(c["it"])[:40], actual=sorted(c["log"])[:40])
    if sorted(c["log"]) != ref:
        ctx.violation("C19-map-visits-other-leaves", "map_nested_value did not apply func to exactly the leaves of the value", case=text,
                      expected=ref[:40], actual=sorted(c["log"])[:40])
    v, r = c["v"], c["r"]
    if is_dc(v) and "__orig_class__" in getattr(v, "__dict__", {}):
        if getattr(r, "__dict__", {}).get("__orig_class__") != v.__dict__["__orig_class__"]:
            ctx.violation("C19-generic-alias-lost", "subscripted generic dataclass lost __orig_class__", case=text)


def map_text(t, f):
    """structural map on a parsed text -> text (harness side, for the collapsing function only)"""
    if isinstance(t, str):
        return f(t)
    if t[0] in ("L", "U", "S"):
        return "(" + " ".join([t[0]] + [map_text(x, f) for x in t[1:]]) + ")"
    if t[0] == "NT":
        return "(" + " ".join(t[:2] + [map_text(x, f) for x in t[2:]]) + ")"
    if t[0] == "D":
        return "(" + " ".join(["D"] + ["(" + map_text(k, f) + " " + map_text(x, f) + ")" for k, x in t[1:]]) + ")"
    return "(" + " ".join(t[:4] + ["(%s %s %s)" % (fl, i, map_text(x, f)) for fl, i, x in t[4:]]) + ")"


def run_values(ctx, values):
    import redun.utils as utils
    cases = [check_value(ctx, v, utils, stream) for stream, v in values]
    reqs = [q for c in cases for q in c["reqs"]]
    out = ctx.model("C19", reqs)
    stats = collections.Counter()
    for i, c in enumerate(cases):
        judge(ctx, c, out[4 * i:4 * i + 4], stats)
    ctx.note("pre-repair model (mapOld) agrees with the implementation on %d of %d values and raises on %d: %s" % (
        stats["old_agrees"], len(cases), stats["old_model_raises"],
        "implementation carries the repair" if stats["old_differs"] else
        ("implementation indistinguishable from pre-repair code" if stats["old_model_raises"] else "no distinguishing value")))


def run(ctx):
    g = Gen(ctx.rng)
    values = [("corpus", mk()) for mk in CORPUS]
    for _ in range(ctx.n(1500, 20000)):
        values.append(("generated", g.val(ctx.rng.choice([1, 2, 3, 3, 4, 5]))))
    run_values(ctx, values)
    scheduler_stage(ctx, g)


# ------------------------------------------------------------------ consequence: nested expressions are evaluated
def scheduler_stage(ctx, g):
    """Nestings whose leaves are task expressions, run on the real Scheduler: the result must be the same nesting with
    every expression replaced by its value (oracle: the harness's own rebuild)."""
    from redun import Scheduler, task
    from redun.config import Config
    rng = ctx.rng

    @task(name="c19_inc", namespace="verif_c19", cache=False)
    def inc(x):
        return x + 100

    def build(depth, hashable=False):
        """returns (value with expressions, expected value)"""
        if depth <= 0 or rng.random() < 0.25:
            n = rng.randrange(50)
            if hashable == "noexpr" or rng.random() < 0.4:
                return n, n
            return inc(n), n + 100
        k = rng.choice(["tuple", "nt"] if hashable else ["list", "tuple", "nt", "dict", "dc", "dc", "set"])
        n = rng.choice([0, 1, 2, 3])
        if k in ("list", "tuple"):
            xs = [build(depth - 1, hashable) for _ in range(n)]
            mk = list if k == "list" else tuple
            return mk(a for a, _ in xs), mk(b for _, b in xs)
        if k == "nt":
            xs = [build(depth - 1, hashable) for _ in range(2)]
            cls = rng.choice([P2, P2, P2Sub, P2SubSub])
            return cls(*[a for a, _ in xs]), cls(*[b for _, b in xs])
        if k == "set":      # ints only: hashing a top-level set sorts it (mixed element types are C16's subject)
            xs = [rng.randrange(50) for _ in range(n)]
            return set(xs), set(xs)
        if k == "dict":
            # composite keys (tuples / namedtuples) may contain expressions: they must be awaited and replaced too
            ks = [build(min(1, depth - 1) if rng.random() < 0.5 else 1, True) for _ in range(n)]
            vs = [build(depth - 1) for _ in range(n)]
            return {k_[0]: v_[0] for k_, v_ in zip(ks, vs)}, {k_[1]: v_[1] for k_, v_ in zip(ks, vs)}
        name = rng.choice(["D2", "DN", "DM", "DNF", "D2S", "DPost", "DMFS", "D2F"])
        cls, fields, frozen, has_dict = DCLASSES[name]
        xs = [build(depth - 1) for _ in fields]
        return make_dc(name, [a for a, _ in xs]), make_dc(name, [b for _, b in xs])

    import logging
    logging.getLogger("redun").setLevel(logging.ERROR)
    sched = Scheduler(config=Config(config_dict={"backend": {"db_uri": "sqlite:///:memory:"}}))
    sched.load()
    fixed = [      # expressions inside composite dict keys (tuple, namedtuple, frozen dataclass) and as a bare key
        ({("k", inc(1)): inc(2)}, {("k", 101): 102}),
        ({P2(inc(3), 4): [inc(5)]}, {P2(103, 4): [105]}),
        (P2Sub(inc(12), [inc(13)]), P2Sub(112, [113])),                 # subclasses of namedtuple classes
        ([P3Sub(inc(14), 1, (inc(15),)), {P2SubSub(1, inc(16)): P1Sub(inc(17))}], [P3Sub(114, 1, (115,)), {P2SubSub(1, 116): P1Sub(117)}]),
        ({make_dc("D2F", [inc(6), 7]): inc(8)}, {make_dc("D2F", [106, 7]): 108}),
        ({inc(9): 1, (inc(10), (inc(11),)): 2}, {109: 1, (110, (111,)): 2}),
    ]
    def labelled_set(n, kind, wrap):
        """a set whose elements are containers holding a LABEL and an expression: label i must end up next to the result of
        the call with argument i (every expression is replaced by its own result, whatever the iteration orders are)"""
        def el(i, v):
            if kind == "tuple":
                return ("L%d" % i, v)
            if kind == "nt":
                return P2("L%d" % i, v)
            if kind == "ntsub":
                return P2Sub(v, ("L%d" % i,))
            return make_dc("D2F", ["L%d" % i, v])
        a, b = {el(i, inc(i)) for i in range(n)}, {el(i, i + 100) for i in range(n)}
        return wrap(a), wrap(b)

    for kind in ("tuple", "nt", "ntsub", "dc"):
        fixed.append(labelled_set(12, kind, lambda x: x))
    fixed.append(labelled_set(16, "tuple", lambda x: [x, 1]))
    fixed.append(labelled_set(12, "nt", lambda x: {"k": (x,)}))
    rnd = [labelled_set(rng.choice([10, 12, 20]), rng.choice(["tuple", "nt", "ntsub", "dc"]),
                        rng.choice([lambda x: x, lambda x: [x], lambda x: make_dc("D2", [x, 0])])) for _ in range(ctx.n(6, 60))]
    todo = fixed + rnd + [build(rng.choice([1, 2, 3])) for _ in range(ctx.n(40, 400))]
    for expr, want in todo:
        text = to_sx_expr(expr)
        try:
            got = sched.run(expr)
        except Exception as e:  # noqa: BLE001
            got = None
            gtext = "!" + type(e).__name__ + ": " + str(e)[:100]
        else:
            try:
                gtext = to_sx(got)
            except TypeError:           # an Expression (or another non-literal) is still inside the result
                gtext = "?unevaluated " + to_sx_expr(got)
        ctx.case(key="sched:" + text, stream="scheduler", outcome="raised" if got is None else "evaluated")
        if gtext.startswith("!"):
            sig = "C19-map-raises-frozen-noninit-dataclass" if "FrozenInstanceError" in gtext else (
                "C19-map-raises-slots-dataclass" if "__dict__" in gtext else "C19-scheduler-nested-raises")
            ctx.violation(sig, "Scheduler.run of a nested value with expressions raised", case=text,
                          expected=to_sx(want), actual=gtext)
        elif gtext.startswith("?") or canon(parse(gtext)) != canon(parse(to_sx(want))):
            swapped = not gtext.startswith("?") and sorted(leaves_of(parse(gtext), [])) == sorted(leaves_of(parse(to_sx(want)), []))
            if swapped:
                ctx.violation("C19-nested-expression-replaced-by-another-result",
                              "Scheduler.run put the result of one nested expression in the place of another one", case=text,
                              expected=to_sx(want), actual=gtext)
            else:
                ctx.violation("C19-nested-expression-not-evaluated", "Scheduler.run did not replace every nested expression by its value",
                              case=text, expected=to_sx(want), actual=gtext)


def to_sx_expr(v):
    """like to_sx, expressions printed as e<arg>"""
    from redun.expression import Expression
    if isinstance(v, Expression):
        return "e%s" % (v.args[0],)
    t = type(v)
    if t in (list, tuple, set) or is_ntuple(v):
        head = {list: "L", tuple: "U", set: "S"}.get(t, "NT " + t.__name__)
        return "(" + " ".join([head] + [to_sx_expr(x) for x in v]) + ")"
    if t is dict:
        return "(" + " ".join(["D"] + ["(" + to_sx_expr(k) + " " + to_sx_expr(x) + ")" for k, x in v.items()]) + ")"
    if is_dc(v):
        return "(" + " ".join(["DC", t.__name__] + [to_sx_expr(getattr(v, f)) for f, _ in DCLASSES[t.__name__][1]]) + ")"
    return atom(v)


def from_tree(t):
    """rebuild a Python value from a value text (replay); raises KeyError for leaves that have no literal form"""
    if isinstance(t, str):
        if t == "N":
            return None
        if t[0] == "i" and t[1:].lstrip("-").isdigit():
            return int(t[1:])
        if t[0] == "s" and all(c in "0123456789abcdef" for c in t[1:]) and len(t) % 2 == 1 and not t.startswith("sub"):
            return bytes.fromhex(t[1:]).decode()
        if t[0] == "t" and t[1:].isdigit() or t in ("a", "b", "c", "d", "n", "m", "x", "y", "v", "z", "k1", "k2", "e1", "e2", "n1",
                                                      "n2", "bare", "deep", "hidden"):
            return Leaf(t)
        raise KeyError(t)
    h = t[0]
    if h == "L":
        return [from_tree(x) for x in t[1:]]
    if h == "U":
        return tuple(from_tree(x) for x in t[1:])
    if h == "NT":
        return NTUPLES[t[1]][0](*[from_tree(x) for x in t[2:]])
    if h == "S":
        return {from_tree(x) for x in t[1:]}
    if h == "D":
        return {from_tree(k): from_tree(x) for k, x in t[1:]}
    return make_dc(t[1], [from_tree(x) for f, i, x in t[4:]])


def replay(ctx, case):
    text = case.get("case")
    try:
        v = from_tree(parse(text))
    except Exception:  # noqa: BLE001
        print("replay: the case has leaves without a literal form; re-running the corpus and the generated cases of this seed")
        return run(ctx)
    print("replaying value:", text[:300])
    run_values(ctx, [("replay", v)])
