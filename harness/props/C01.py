"""C01 — Scheduler.run returns exactly the value / raises exactly the error the documented graph-reduction rules
prescribe.  Model: lean/RedunModel/Model/EvalCore.lean (big-step relation `Eval`, executable `evalAll`/`evalFuel`),
task table lean/RedunModel/Model/EvalLib.lean <-> harness/props/_evallib.py."""
import random
import time

ID = "C01"
READY = True
LEAN_MODULES = ["RedunModel.Props.C01"]
LEAN_DRIVERS = ["C01"]
THEOREMS = [
    "RedunModel.C01.evalFuel_sound",
    "RedunModel.C01.evalAll_sound",
    "RedunModel.C01.evalAll_complete",
    "RedunModel.C01.evalAll_exact",
    "RedunModel.C01.evalFuel_unique",
    "RedunModel.C01.value_fixed",
    "RedunModel.C01.result_is_value",
    "RedunModel.C01.reevaluation_identity",
    "RedunModel.C01.never_unknown",
]
TRUSTED = [
    "modelled, not verified: the Python bodies of the ~55 library tasks (props/_evallib.py <-> Model/EvalLib.lean), Python's "
    "operators on int/str/list/tuple/dict incl. the TypeError/IndexError/KeyError messages used, isinstance on the exception "
    "classes used, truthiness, dict/set construction with pairwise distinct simple keys",
    "the printer props/_evalgen.py:to_sx renders the real expression object handed to Scheduler.run; it refuses (Unsupported) "
    "what the model language has no form for",
]
ASSUMPTIONS = [
    "values: None, bool, int, str, list, tuple, dict, set, one namedtuple, one dataclass, exception instances/classes, Task / "
    "PartialTask / Thread objects; no floats, no Files/Handles; deterministic task bodies",
    "not in the model: task options other than executor/mode, get_context/update_context, limits, dryrun, script tasks",
    "where several sibling terms fail the rules admit the error of any of them (Promise.all rejects with the first rejection "
    "observed): the model returns the set of admissible outcomes and the real outcome must be a member",
    "an outcome the model marks `unk` (a Python behaviour not modelled, e.g. list * int) makes a case inconclusive, not failing; "
    "the count is reported",
]
RULE = ("programs = real redun expression objects built by a typed generator over the fixed task library, composed with nested "
        "containers, lazy operators (incl. lazy call), partial tasks, expression-valued defaults, cond, seq, catch, catch_all, "
        "map_ (incl. fusion), flat_map, apply_func/as_task, compose, fork_thread/join_thread, apply_tags, subrun; error leaves at "
        "any depth. Each program: printed from the real object, evaluated by the Lean model (set of admissible outcomes), run by "
        "the real Scheduler under the controlled executor with k seeded completion orders (+ free-running thread/process/async "
        "modes on a sample); outcome (canonical value, or error class + args text) must be a member of the model's set. "
        "distinct = distinct program texts; trivial = a plain value without any call/operator/scheduler form")
LEVEL_TEXT = ("Proved in Lean for every task table (bodies = arbitrary deterministic functions), every expression, no size bound: "
              "evalAll_sound / evalFuel_sound (every known outcome the executable evaluator reports is derivable by the big-step "
              "rules transcribing docs/implementation/evaluation.md and the scheduler tasks), evalAll_complete (when the evaluator "
              "reports no unknown, every outcome the rules allow is in its set: the set IS the denotation), evalFuel_unique "
              "(full determinism wherever evalFuel answers: the value or error is the only outcome the rules allow), value_fixed / "
              "result_is_value / reevaluation_identity (results are concrete values and evaluating them again — as done_job does "
              "after a CSE hit, and the outer scheduler after subrun — changes nothing), never_unknown. Tie: differential runs of "
              "generated programs on the real Scheduler under seeded completion orders and in thread/process/async modes.")
LEVEL_NOTE = ("PARTIAL with respect to the design's C01_sound: the event-loop machine (jobs, promises, _pending_expr memo, CSE, "
              "completion orders) is not inside this model, so 'for every schedule the machine's root promise settles with r => "
              "Eval e r' is not a theorem here; schedules are covered by the tie only (k seeded completion orders per program, "
              "free-running executors). Timing-dependent choice among several failing siblings is modelled as a relation (any of "
              "them), which over-approximates the machine (synchronous rejections always win in the code). Executor mode, "
              "pickling of arguments/results in process mode and async/await are runtime behaviour the model cannot exhibit. "
              "Task options, context, caching across executions are outside (C27, C26, C02).")
TECHNIQUE = "Lean 4 big-step semantics + sound & complete set-valued evaluator; differential testing of generated workflows on the real Scheduler under controlled schedules"

FUEL = 120
TIMING_CORPUS = ("catch_all", "shared", "fork", "two-errors", "catch-two-errors", "seq-stops", "containers")
CPU_BUDGET_QUICK, CPU_BUDGET_THOROUGH = 4.0, 330.0       # seconds of process CPU for the generated stream (not wall clock)


def corpus():
    from redun.functools import (apply_func, as_task, compose, const, delay, flat_map, force, identity, map_, seq, zip_)
    from redun.scheduler import apply_tags, catch, catch_all, cond, fork_thread

    from props import _evallib as L
    return {
        "inc": L.inc(1),
        "nested-kw": L.add(L.inc(1), b=L.inc(2)),
        "expr-default": L.addx(1),
        "expr-defaults-partly-given": L.addxx(1, c=5),
        "failing-default": L.dflt_fail(1),
        "failing-default-given": L.dflt_fail(1, 2),
        "failing-default-given-by-keyword": L.dflt_fail(1, b=2),
        "expr-default-given-by-keyword": L.addx(1, b=L.inc(5)),
        "containers": [L.inc(1), (L.inc(2), 3), {"a": L.inc(3), L.inc(4): 5}, [{L.inc(7), 1}]],
        "set-with-expression-root": {L.inc(1), 1, 2},            # fixed: Set.get_hash on unorderable elements
        "set-with-expression-arg": L.pair({L.inc(5), 1, "a"}, 2),
        "set-mixed-types": L.identity({1, "a"}) if hasattr(L, "identity") else identity({1, "a"}),
        "namedtuple": L.P(L.inc(1), 2),
        "dataclass": L.D(a=L.inc(1), b=[L.inc(2)]),
        "ops": L.inc(1) + L.inc(2) * 3,
        "radd": 5 + L.inc(1),
        "getitem": L.mklist(3)[1],
        "getitem-err": L.mklist(3)[5],
        "keyerror-str": L.mkdict("k", 1)["zz"],
        "keyerror-int": L.mkdict("k", 1)[3],
        "lazy-call": L.apply2(L.inc, 1),
        "lazy-call-partial": L.apply2(L.add.partial(b=2), 1),
        "partial-expr-arg": L.apply2(L.add.partial(b=L.inc(1)), 1),
        "lazy-call-partial-kw-override": identity(L.add.partial(b=2))(1, b=5),
        "lazy-call-partial-kw-extra": identity(L.kwonly.partial(1, k=2))(m=L.inc(3)),
        "map-partial-of-partial": map_(L.varsum.partial(1).partial(2, scale=3), [1, 2]),
        "cond": cond(L.inc(0) == 1, L.inc(10), L.raiser("V", 1)),
        "cond-untaken-error": cond(True, 1, L.raiser("V", 2)),
        "cond-noelse-false": cond(L.inc(0) == 2, 5),
        "cond-elif": cond(False, 1, L.inc(0) == 1, 2, 3),
        "cond-elif-noelse": cond(False, 1, False, 2),
        "seq": seq([L.inc(1), L.inc(2)]),
        "seq-stops": seq([L.inc(1), L.raiser("V", 1), L.raiser("K", 2)]),
        "seq-empty": seq([]),
        "seq-tuple": seq((L.inc(1),)),
        "catch": catch(L.raiser("V", 1), ValueError, L.rec_val),
        "catch-subclass": catch(L.raiser("S", 1), L.LibError, L.rec_val),
        "catch-nomatch": catch(L.raiser("K", 1), ValueError, L.rec_val),
        "catch-base": catch(L.raiser("K", 1), LookupError, L.rec_val),
        "catch-order": catch(L.raiser("S", 1), Exception, L.rec_zero, L.LibSubError, L.rec_val),
        "catch-reraise": catch(L.raiser("V", 1), ValueError, L.rec_reraise),
        "catch-partial": catch(L.raiser("V", 1), ValueError, L.pair.partial(7)),
        "catch-notcallable": catch(L.raiser("V", 1), ValueError, 5),
        "catch-in-map-in-partial": map_(L.apply2.partial(L.inc), [catch(L.raiser("V", 3), ValueError, L.rec_zero), 2]),
        "catch-two-errors": catch([L.raiser("V", 1), L.raiser("K", 2)], ValueError, L.rec_val, KeyError, L.rec_zero),
        "catch_all-ok": catch_all([L.inc(1), L.inc(2)]),
        "catch_all-first": catch_all([L.inc(1), L.raiser("V", 1), L.raiser("K", 2)]),
        "catch_all-recover": catch_all([L.inc(1), L.raiser("V", 1), L.raiser("V", 2)], ValueError, L.rec_count),
        "catch_all-nomatch": catch_all([L.inc(1), L.raiser("V", 1), L.raiser("K", 2)], ValueError, L.rec_count),
        "catch_all-dict": catch_all({"a": L.inc(1), "b": L.raiser("V", 1)}, ValueError, identity),
        # which error is re-raised is decided by TERM order, not by completion order
        "catch_all-first-of-three": catch_all([L.raiser("V", 1), L.inc(1), L.raiser("K", 2), L.raiser("L", 3)]),
        "catch_all-first-slow": catch_all([L.fail_after(2, "V"), L.raiser("K", 2)]),
        "catch_all-nomatch-two": catch_all([L.raiser("K", 1), L.raiser("V", 2), L.raiser("L", 3)], ValueError, L.rec_count),
        "catch_all-nomatch-slow": catch_all((L.fail_after(2, "S"), L.raiser("Z", 2)), KeyError, L.rec_count),
        "catch_all-uncovered-tuple": catch_all([L.raiser("V", 1), L.raiser("K", 2)], (L.LibError, TypeError), identity),
        "catch_all-covered-order": catch_all([L.raiser("V", 1), L.raiser("K", 2)], Exception, identity),
        "catch_all-dict-two": catch_all({"a": L.raiser("V", 1), "b": L.raiser("K", 2)}),
        "catch_all-in-task-result": L.identity(catch_all([L.fail_after(1, "L"), L.raiser("T", 9)])) if hasattr(L, "identity") else
        identity(catch_all([L.fail_after(1, "L"), L.raiser("T", 9)])),
        "map": map_(L.inc, [1, L.inc(2)]),
        "map-expr": map_(L.inc, L.mklist(3)),
        "map-fused": map_(L.inc, map_(L.neg, L.mklist(3))),
        "map-partial": map_(L.add.partial(b=5), (1, 2)),
        "map-notiter": map_(L.inc, L.inc(1)),
        "map-notcallable": map_(5, [1]),
        "flat_map": flat_map(L.mklist, [1, 2, 3]),
        "apply_func": apply_func(len, L.mklist(3)),
        "as_task": as_task(L.py_swap)(L.inc(1), 2),
        "const": const(L.inc(1), L.inc(2)),
        "compose": compose(L.inc, L.neg)(3),
        "delay-force": force(delay(L.inc(3))),
        "zip": zip_(L.mklist(2), [5, 6]),
        "tags": apply_tags(L.inc(1), [("a", "b")]),
        "tagit": L.tagit(1),
        "fork-join": L.fork_join(1),
        "fork-forget": L.fire_forget(1, "V"),
        "fork-fail-join": L.fork_fail_join("L"),
        "fork-value": fork_thread(L.inc(1)),
        # evaluation that continues under a forking job that has already concluded
        "fork-seq-join": L.joiner(L.fork_seq(3)),
        "fork-cond-join": L.joiner(L.fork_cond(0)),
        "fork-cond-join-else": L.joiner(L.fork_cond(4)),
        "fork-map-join": L.joiner(L.fork_map(3)),
        "fork-catch-join": L.joiner(L.fork_catch("V")),
        "fork-lazy-call-join": L.joiner(L.fork_lazy_call(2)),
        "fork-deep-fail-join": L.joiner(L.fork_deep(1, "K")),
        "fork-two-threads": L.join_all([L.fork_seq(2), L.fork_map(2), L.fork_cond(1)]),
        "fork-multi-never-joined": L.const(1, L.fork_deep(0, "V")),
        "recursion": L.rsum(4),
        "deep-failure": L.fail_after(3, "S"),
        "unpicklable-error": [L.inc(1), L.inc(L.busy(1))],
        "two-errors": [L.raiser("V", 1), L.raiser("K", 2)],
        "kwonly": L.kwonly(1, m=2),
        "varargs": L.varsum(1, 2, L.inc(3), scale=2),
        "and": L.inc(0) & L.inc(5),
        "or": L.inc(-1) | L.inc(5),
        "div0": L.inc(1) / 0,
        "notcallable": L.inc(1)(2),
        "getattr": L.wrap_nt(1, 2).x,
        "partial-value": L.add.partial(L.inc(1)),
        "task-values": [L.inc, L.add.partial(1, b=2)],
        "type-error-add": L.inc(1) + "a",
        # the VALUE of a lazy operator is reduced like any value: a container of task calls is evaluated recursively
        "lazy-call-returns-list": identity(L.py_fan)(3),
        "lazy-call-returns-dict": L.first([L.py_plan, 0])(2, None),
        "lazy-call-returns-dict-failing": identity(L.py_plan)(2, "K"),
        "lazy-call-returns-list-caught": catch(identity(L.py_plan)(1, "V"), ValueError, L.rec_val),
        "lazy-method-returns-list": L.mkplan(3).steps(),
        "lazy-method-returns-list-failing": L.mkplan(2, "L").steps(),
        "lazy-method-caught": catch(L.mkplan(2, "V").steps(), ValueError, L.rec_val),
        "lazy-getitem-returns-tuple": L.mkplan(2)[5],
        "lazy-bound-method-value": identity(L.mkplan(2).steps)(),
        "lazy-container-as-argument": L.total(identity(L.py_fan)(3)),
        "object-value": [L.mkplan(1, "V"), L.mkplan(2).n],
        # one term shared by two consumers under the same parent job (one promise per parent and expression hash)
        "shared-seq": [L.add(L.inc(1), L.twice(2)), seq([L.inc(1), L.inc(1)])],
        "shared-cond": [L.add(L.inc(1), L.inc(3)), cond(L.inc(1), L.inc(1), 0)],
        "shared-map-partial": [L.pair(L.mklist(2), L.mklist(3)), map_(L.pair.partial(L.mklist(2)), L.mklist(2))],
        "shared-later-first": [seq([L.inc(1), L.inc(1)]), L.add(L.twice(2), b=L.inc(1))],
        # a failing term absorbed at its first use and demanded again, later, under the same parent job
        "shared-failing-seq": seq([catch(L.raiser("V", 60), ValueError, L.rec_zero), L.raiser("V", 60)]),
        "shared-failing-seq-arg": seq([catch(L.raiser("K", 61), Exception, L.rec_zero), L.inc(L.raiser("K", 61)), 5]),
        "shared-failing-cond": cond(catch(L.raiser("L", 62), L.LibError, L.rec_zero) == 0, L.raiser("L", 62), 1),
        "shared-failing-catch_all": seq([catch_all([L.raiser("V", 63), L.inc(1)], ValueError, L.rec_count), L.raiser("V", 63)]),
        "shared-failing-recover-partial": catch(L.raiser("V", 64), ValueError, L.pair.partial(L.raiser("V", 64))),
        "shared-failing-thread": seq([const(0, fork_thread(L.fail_after(1, "S"))), L.fail_after(1, "S")]),
        "shared-failing-op": seq([catch(L.mklist(2)[5], IndexError, L.rec_zero), L.mklist(2)[5]]),
        "shared-failing": [L.pair(L.raiser("V", 50), L.inc(1)), catch(seq([L.raiser("V", 50), L.raiser("V", 50)]), ValueError, L.rec_zero)],
        "shared-in-task": L.identity([L.add(L.inc(1), L.rsum(2)), seq([L.inc(1), L.inc(1)])]) if hasattr(L, "identity") else
        identity([L.add(L.inc(1), L.rsum(2)), seq([L.inc(1), L.inc(1)])]),
        "rdiv-zero": 0 / L.inc(-1),
        "all-operators": [L.inc(1) == 2, L.inc(1) != 2, L.inc(1) < 3, L.inc(1) <= 2, L.inc(1) > 2, L.inc(1) >= 2, L.inc(1) + 1,
                          1 + L.inc(1), L.inc(1) - 1, 1 - L.inc(1), L.inc(1) * 3, 3 * L.inc(1), L.inc(1) & 0,
                          0 & L.inc(1), L.inc(1) | 0, 0 | L.inc(1), L.mklist(2)[0], L.wrap_nt(1, 2).y, identity(L.inc)(1),
                          L.mklist(2) == [0, 1], L.pair(1, "a") == (1, "a"), L.inc(0) == True],   # noqa: E712
        "dict-in-dataclass": L.wrap_dc(1, 2),
    }


def classify(model_outs, has_unk, real):
    """-> None (agrees) | 'inconclusive' | signature of the disagreement"""
    if real in model_outs:
        return None
    if has_unk:
        return "inconclusive"
    if real[0] == "hang":
        return "C01-hang"
    if real[0] == "unprintable":
        return "C01-result-not-a-model-value"
    kinds = {o[0] for o in model_outs}
    if real[0] == "ok":
        return "C01-value-differs" if "ok" in kinds else "C01-value-instead-of-error"
    return "C01-error-differs" if "err" in kinds else "C01-error-instead-of-value"


SET_CRASH = "C01-set-of-unorderable-terms-crashes-hash"


def signature_for(sig, sx, real):
    if real[0] == "err" and real[1] == "TypeError" and ("cannot be coerced to bool" in real[2] or "not supported between" in real[2]) \
            and "(S " in sx:
        return SET_CRASH
    return sig


def check_program(ctx, G, R, name, expr, sx, reply, seeds, tags):
    """controlled runs of one program against the model's outcome set"""
    outs, has_unk = G.parse_outs(reply)
    results = []
    for sd in seeds:
        real, ctl, sched = R.run_ctl(expr, sd)
        results.append(real)
        sig = classify(outs, has_unk, real)
        if sig == "inconclusive":
            ctx.count("inconclusive", "model-unk")
            break
        if sig:
            sig = signature_for(sig, sx, real)
            case = {"program": name, "expr": sx, "schedule_seed": sd, "choices": ctl.choices}
            ctx.mismatch("real outcome is not among the outcomes the reduction rules allow", case=case,
                         model=sorted(map(G.show, outs)), impl=G.show(real), signature=sig)
            ctx.violation(sig, "Scheduler.run differs from the documented reduction rules", case=case,
                          expected=sorted(map(G.show, outs)), actual=G.show(real), kind="input")
            break
    if len(outs) == 1 and not has_unk and len(set(results)) > 1:
        ctx.violation("C01-schedule-dependent-outcome", "outcome depends on the completion order although the rules determine it",
                      case={"program": name, "expr": sx}, expected=sorted(map(G.show, outs)), actual=sorted(map(G.show, results)),
                      kind="schedule")
    first = results[0] if results else ("none",)
    ctx.case(key=None if R.is_trivial(sx) else sx, sample={"program": name, "expr": sx[:300], "outcome": G.show(first)[:200]},
             outcome=first[0], admissible=("unk" if has_unk else min(len(outs), 3)), **tags)


OPERATORS = {"eq", "ne", "lt", "le", "gt", "ge", "add", "radd", "sub", "rsub", "mul", "rmul", "div", "rdiv", "and", "rand", "or",
             "ror", "call", "getattr", "getitem"}


def run(ctx):
    from props import _evalgen as G
    from props import _evalrun as R
    from redun.expression import _lazy_operation_registry
    rng = ctx.rng
    if set(_lazy_operation_registry) != OPERATORS:
        ctx.mismatch("the lazy-operator registry differs from the operator table of the model (EvalCore.applyOp)",
                     case={"registry": sorted(_lazy_operation_registry)}, model=sorted(OPERATORS),
                     impl=sorted(_lazy_operation_registry), signature="C01-operator-registry")
    progs = []          # (name, expr, sx, tags)
    for name, e in corpus().items():
        progs.append((name, e, G.to_sx(e), {"source": "corpus"}))
    base = rng.getrandbits(48)
    n = ctx.n(45, 900)
    feats = {}
    for i in range(n):
        prng = random.Random(base + i)
        gen = G.Gen(prng, p_err=prng.choice([0.0, 0.08, 0.15, 0.25]), max_fan=3 if ctx.tier == "quick" else 5)
        depth = prng.choice([1, 2, 2, 3, 3, 4]) if ctx.tier == "quick" else prng.choice([2, 3, 3, 4, 4, 5])
        for _ in range(30):
            try:
                e = gen.program(depth)
                sx = G.to_sx(e)
                break
            except G.Unsupported:
                ctx.count("generator", "unsupported-shape")
        else:
            continue
        for k, v in gen.feat.items():
            feats[k] = feats.get(k, 0) + v
        progs.append(("g%d" % i, e, sx, {"source": "generated", "depth": depth}))
    for k, v in sorted(feats.items()):
        ctx.count("feature", k, v)
    replies = ctx.model("C01", ["(eval i%d %s)" % (FUEL, sx) for _, _, sx, _ in progs])
    k_seeds = 2 if ctx.tier == "quick" else 3
    t_cpu = None
    cpu_budget = (CPU_BUDGET_QUICK if ctx.tier == "quick" else CPU_BUDGET_THOROUGH) * ctx.search_boost
    for idx, ((name, e, sx, tags), rep) in enumerate(zip(progs, replies)):
        # completion orders: first-submitted-first and last-submitted-first (a shared / earlier term finishes before or
        # after its siblings) and seeded random ones.  Quick tier: corpus programs about timing (catch_all, shared terms,
        # fork/join, several failing siblings) run under both fixed orders, the rest of the corpus and the generated programs
        # under one order each (alternating fifo / lifo / random); thorough tier: fifo, lifo and two random orders for all.
        corpus_entry = tags.get("source") == "corpus"
        if not corpus_entry and t_cpu is None:
            t_cpu = time.process_time()         # the budget covers the generated stream only
        if not corpus_entry and time.process_time() - t_cpu > cpu_budget:
            ctx.note("CPU budget reached after %d of %d programs (corpus always runs in full)" % (idx, len(progs)))
            ctx.count("budget", "generated programs skipped", len(progs) - idx)
            break
        if ctx.tier != "quick":
            seeds = ["fifo", "lifo"] + [rng.getrandbits(30) for _ in range(k_seeds - 1)]
        elif corpus_entry and name.startswith(TIMING_CORPUS):
            seeds = ["fifo", "lifo"]
        else:
            seeds = [["fifo"], ["lifo"], [rng.getrandbits(30)]][idx % 3]
        check_program(ctx, G, R, name, e, sx, rep, seeds, tags)
    free_running(ctx, G, R, base)


def free_running(ctx, G, R, base):
    """a few programs per run on the real executors: thread pool, process pool (fork), async tasks"""
    plans = [("thread", ("thread", None), False), ("process", ("process", None), False), ("async", (None,), True)]
    per = ctx.n(1, 30)
    progs = []
    for mode, modes, allow_async in plans:
        for i in range(per if (mode != "process" or ctx.tier != "quick") else 1):
            prng = random.Random(base * 7 + hash(mode) % 1000 + i)
            prng = random.Random("%d-%s-%d" % (base, mode, i))
            gen = G.Gen(prng, p_err=prng.choice([0.0, 0.1, 0.2]), modes=modes, allow_async=allow_async, max_fan=3)
            for _ in range(30):
                try:
                    e = gen.program(prng.choice([2, 3]))
                    sx = G.to_sx(e)
                    break
                except G.Unsupported:
                    pass
            else:
                continue
            progs.append((mode, "%s%d" % (mode, i), e, sx))
    replies = ctx.model("C01", ["(eval i%d %s)" % (FUEL, sx) for _, _, _, sx in progs])
    for (mode, name, e, sx), rep in zip(progs, replies):
        outs, has_unk = G.parse_outs(rep)
        real, _ = R.run_free(e, timeout=60)
        sig = classify(outs, has_unk, real)
        if sig == "inconclusive":
            ctx.count("inconclusive", "model-unk")
        elif sig:
            sig = signature_for(sig, sx, real)
            case = {"program": name, "expr": sx, "mode": mode, "free_running": True}
            ctx.mismatch("free-running outcome is not among the outcomes the reduction rules allow", case=case,
                         model=sorted(map(G.show, outs)), impl=G.show(real), signature=sig)
            ctx.violation(sig + "-" + mode, "Scheduler.run (executor mode %s) differs from the documented reduction rules" % mode,
                          case=case, expected=sorted(map(G.show, outs)), actual=G.show(real), kind="input")
        ctx.case(key=None if R.is_trivial(sx) else ("free", mode, sx), outcome=real[0], source="free-running", mode=mode,
                 admissible=("unk" if has_unk else min(len(outs), 3)))


def replay(ctx, case):
    """re-run exactly the recorded program (rebuilt from its text) on the model and on the implementation"""
    from props import _evalgen as G
    from props import _evalrun as R
    c = case.get("case") or {}
    sx = c.get("expr")
    if not sx:
        print("replay: no program text recorded; running the normal check")
        return run(ctx)
    e = G.from_sx(sx)
    sx2 = G.to_sx(e)
    if sx2 != sx:
        ctx.note("replay: rebuilt program prints differently (set order?): " + sx2[:200])
    rep = ctx.model("C01", ["(eval i%d %s)" % (FUEL, sx2)])[0]
    print("replay program:", sx2[:500])
    print("model outcomes:", rep[:500])
    if c.get("free_running"):
        real, _ = R.run_free(e, timeout=60)
        print("implementation (free-running):", G.show(real))
        outs, has_unk = G.parse_outs(rep)
        sig = classify(outs, has_unk, real)
        if sig and sig != "inconclusive":
            ctx.violation(signature_for(sig, sx2, real), "Scheduler.run differs from the documented reduction rules", case=c,
                          expected=sorted(map(G.show, outs)), actual=G.show(real))
        ctx.case(key=sx2)
        return
    seeds = [c["schedule_seed"]] if "schedule_seed" in c else [0, 1, 2]
    check_program(ctx, G, R, c.get("program", "replay"), e, sx2, rep, seeds, {"source": "replay"})
