"""C16 worker: runs in a FRESH interpreter (its own PYTHONHASHSEED), builds values from JSON specs and prints, per spec,
the value as laid out in this process (sets/frozensets in iteration order) and its redun value hash.

stdin : one JSON document per line  {"id": <str>, "spec": <spec>}
stdout: one line per spec           <id> TAB <laid-out value text> TAB get_hash(v) TAB get_hash(data=serialize()) TAB
        backend.record_value(v) TAB Argument.value_hash TAB CallNode.value_hash of a real call ident(v) ("-" unless "sched")
spec  : ["N"] ["T"] ["F"] ["i", n] ["s", str] ["b", hex] ["L", [..]] ["U", [..]] ["D", [[k, v], ..]]
        ["S", [..]] (elements are inserted in this order) ["FS", [..]] ["O", cls, [..]]
argv  : <repo path>
"""
import dataclasses
import json
import sys


@dataclasses.dataclass(frozen=True)
class K1:
    a: object


@dataclasses.dataclass(frozen=True)
class K2:
    a: object
    b: object


@dataclasses.dataclass
class M2:
    a: object
    b: object


CLASSES = {"K1": K1, "K2": K2, "M2": M2}


def build(sp):
    t = sp[0]
    if t == "N":
        return None
    if t == "T":
        return True
    if t == "F":
        return False
    if t == "i":
        return int(sp[1])
    if t == "s":
        return str(sp[1])
    if t == "b":
        return bytes.fromhex(sp[1])
    if t == "L":
        return [build(x) for x in sp[1]]
    if t == "U":
        return tuple(build(x) for x in sp[1])
    if t == "D":
        return {build(k): build(v) for k, v in sp[1]}
    if t == "S":
        s = set()
        for x in sp[1]:
            s.add(build(x))
        return s
    if t == "FS":
        return frozenset([build(x) for x in sp[1]])
    if t == "O":
        return CLASSES[sp[1]](*[build(x) for x in sp[2]])
    raise ValueError(t)


def text(v):
    t = type(v)
    if v is None:
        return "N"
    if t is bool:
        return "T" if v else "F"
    if t is int:
        return "i%d" % v
    if t is str:
        return "s" + v.encode("utf-8").hex()
    if t is bytes:
        return "b" + v.hex()
    if t is list:
        return "(" + " ".join(["L"] + [text(x) for x in v]) + ")"
    if t is tuple:
        return "(" + " ".join(["U"] + [text(x) for x in v]) + ")"
    if t is dict:
        return "(" + " ".join(["D"] + ["(" + text(k) + " " + text(x) + ")" for k, x in v.items()]) + ")"
    if t is set:
        return "(" + " ".join(["S"] + [text(x) for x in v]) + ")"
    if t is frozenset:
        return "(" + " ".join(["FS"] + [text(x) for x in v]) + ")"
    if t.__name__ in CLASSES:
        return "(" + " ".join(["O", t.__name__] + [text(getattr(v, f.name)) for f in dataclasses.fields(v)]) + ")"
    raise TypeError(t)


def err(e):
    return "!" + type(e).__name__


def main():
    repo = sys.argv[1]
    sys.path.insert(0, repo)
    import logging

    from redun import Scheduler, task
    from redun.backends.db import Argument, CallNode, Job, RedunBackendDb
    from redun.config import Config
    from redun.value import get_type_registry
    logging.getLogger("redun").setLevel(logging.ERROR)
    reg = get_type_registry()
    backend = RedunBackendDb(db_uri="sqlite:///:memory:")
    backend.load()

    @task(name="c16_ident", namespace="verif_c16", cache=False)
    def ident(x):
        return x

    sched = None
    seen_jobs = set()
    out = []
    for line in sys.stdin:
        line = line.strip()
        if not line:
            continue
        doc = json.loads(line)
        v = build(doc["spec"])
        layout = text(v)
        try:                                    # TypeRegistry.get_hash(value)
            h0 = reg.get_hash(v)
        except Exception as e:  # noqa: BLE001
            h0 = err(e)
        try:                                    # the value interface with the caller's serialisation
            vi = reg.get_value(v)
            h1 = vi.get_hash(data=vi.serialize())
        except Exception as e:  # noqa: BLE001
            h1 = err(e)
        try:                                    # what a real backend stores
            h2 = backend.record_value(v)
        except Exception as e:  # noqa: BLE001
            h2 = err(e)
        arg = res = "-"
        if doc.get("sched"):                    # a real task call: recorded argument and result hashes
            try:
                if sched is None:
                    sched = Scheduler(config=Config({"backend": {"db_uri": "sqlite:///:memory:"}}))
                    sched.load()
                sched.run(ident(v))
                session = sched.backend.session
                jobs = [j for j in session.query(Job).filter(Job.task_hash == ident.hash).all() if j.id not in seen_jobs]
                seen_jobs.update(j.id for j in jobs)
                (job,) = jobs
                node = session.query(CallNode).filter(CallNode.call_hash == job.call_hash).one()
                res = node.value_hash
                (a,) = session.query(Argument).filter(Argument.call_hash == job.call_hash).all()
                arg = a.value_hash
            except Exception as e:  # noqa: BLE001
                arg = res = err(e)
        if text(v) != layout:
            layout = "!layout-changed"
        out.append("\t".join([doc["id"], layout, h0, h1, h2, arg, res]))
    sys.stdout.write("\n".join(out) + "\n")


if __name__ == "__main__":
    main()
