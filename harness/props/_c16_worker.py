"""C16 worker: runs in a FRESH interpreter (its own PYTHONHASHSEED), builds values from JSON specs and prints, per spec,
the value as laid out in this process (sets/frozensets in iteration order) and its redun value hash.

stdin : one JSON document per line  {"id": <str>, "spec": <spec>}
stdout: one line per spec           <id> TAB <laid-out value text> TAB get_hash(v) TAB get_hash(data=serialize()) TAB
        backend.record_value(v) TAB Argument.value_hash TAB CallNode.value_hash TAB CallNode.args_hash of a real call ident(v) ("-" unless "sched") TAB get_hash(v) once more
spec  : ["N"] ["T"] ["F"] ["i", n] ["f", float.hex()] ["s", str] ["b", hex] ["L", [..]] ["U", [..]] ["D", [[k, v], ..]]
        ["S", [..]] (elements are inserted in this order) ["FS", [..]] ["O", cls, [..]]
        ["X", cls, spec]        instance of a subclass (SetSub, FSetSub, ListSub, DictSub, TupleSub, StrSub, IntSub) of a builtin
        ["R", "L"|"U", n, row]  list / tuple holding the same row OBJECT n times (equal to ["L"|"U", [row] * n] built apart)
argv  : <repo path> [fwd | rev | even | odd | evenrev | oddrev]   order in which the specs are hashed / which half of
        the spec indices is hashed at all (a process with another history)
"""
import dataclasses
import functools
import json
import struct
import sys


@dataclasses.dataclass(frozen=True)
class K1:
    a: object


@dataclasses.dataclass(frozen=True)
class K2:
    a: object
    b: object


@dataclasses.dataclass
class M2:
    a: object
    b: object


@dataclasses.dataclass
class CP2:
    """instance __dict__ gets two non-field entries (cached properties) once they are read"""
    x: object

    @functools.cached_property
    def alpha_value(self):
        return ("alpha", self.x)

    @functools.cached_property
    def beta_value(self):
        return ("beta", self.x)


CLASSES = {"K1": K1, "K2": K2, "M2": M2, "CP2": CP2}


class SetSub(set):
    """a tag collection: subclass of a type that has a registered proxy (Set)"""


class FSetSub(frozenset):
    pass


class ListSub(list):
    pass


class DictSub(dict):
    pass


class TupleSub(tuple):
    pass


class StrSub(str):
    pass


class IntSub(int):
    pass


SUBCLASSES = {"SetSub": (SetSub, set), "FSetSub": (FSetSub, frozenset), "ListSub": (ListSub, list), "DictSub": (DictSub, dict),
              "TupleSub": (TupleSub, tuple), "StrSub": (StrSub, str), "IntSub": (IntSub, int)}


def build(sp):
    t = sp[0]
    if t == "N":
        return None
    if t == "T":
        return True
    if t == "F":
        return False
    if t == "i":
        return int(sp[1])
    if t == "f":
        return float.fromhex(sp[1])
    if t == "s":
        return str(sp[1])
    if t == "b":
        return bytes.fromhex(sp[1])
    if t == "L":
        return [build(x) for x in sp[1]]
    if t == "U":
        return tuple(build(x) for x in sp[1])
    if t == "R":                        # ["R", "L"|"U", n, row]: the SAME row object n times ([row] * n)
        row = build(sp[3])
        return [row] * sp[2] if sp[1] == "L" else (row,) * sp[2]
    if t == "D":
        return {build(k): build(v) for k, v in sp[1]}
    if t == "S":
        s = set()
        for x in sp[1]:
            s.add(build(x))
        return s
    if t == "FS":
        return frozenset([build(x) for x in sp[1]])
    if t == "X":                        # ["X", cls, spec of a value of the base type]: cls(base value)
        return SUBCLASSES[sp[1]][0](build(sp[2]))
    if t == "O":
        obj = CLASSES[sp[1]](*[build(x) for x in sp[2]])
        if sp[1] == "CP2":
            obj.alpha_value, obj.beta_value
        return obj
    raise ValueError(t)


def text(v):
    t = type(v)
    if t.__name__ in SUBCLASSES and SUBCLASSES[t.__name__][0] is t:
        # pickle (copyreg) writes the class by reference and builtin(value): that copy is what gets laid out
        return "(X " + t.__name__ + " " + text(SUBCLASSES[t.__name__][1](v)) + ")"
    if v is None:
        return "N"
    if t is bool:
        return "T" if v else "F"
    if t is int:
        return "i%d" % v
    if t is float:
        return "f" + struct.pack(">d", v).hex()
    if t is str:
        return "s" + v.encode("utf-8").hex()
    if t is bytes:
        return "b" + v.hex()
    if t is list:
        return "(" + " ".join(["L"] + [text(x) for x in v]) + ")"
    if t is tuple:
        return "(" + " ".join(["U"] + [text(x) for x in v]) + ")"
    if t is dict:
        return "(" + " ".join(["D"] + ["(" + text(k) + " " + text(x) + ")" for k, x in v.items()]) + ")"
    if t is set:
        return "(" + " ".join(["S"] + [text(x) for x in v]) + ")"
    if t is frozenset:
        return "(" + " ".join(["FS"] + [text(x) for x in v]) + ")"
    if t.__name__ in CLASSES:
        # what pickle writes for the instance: the values of __dict__ in __dict__ order (fields, then extras)
        return "(" + " ".join(["O", t.__name__] + [text(x) for x in v.__dict__.values()]) + ")"
    raise TypeError(t)


def err(e):
    return "!" + type(e).__name__


def main():
    repo = sys.argv[1]
    sys.path.insert(0, repo)
    import logging

    from redun import Scheduler, task
    from redun.backends.db import Argument, CallNode, Job, RedunBackendDb
    from redun.config import Config
    from redun.value import get_type_registry
    logging.getLogger("redun").setLevel(logging.ERROR)
    reg = get_type_registry()
    backend = RedunBackendDb(db_uri="sqlite:///:memory:")
    backend.load()

    @task(name="c16_ident", namespace="verif_c16", cache=False)
    def ident(x):
        return x

    sched = None
    seen_jobs = set()
    out = []
    # history: the order in which this process meets the values (and which ones it meets at all)
    mode = sys.argv[2] if len(sys.argv) > 2 else "fwd"
    docs = [json.loads(line) for line in sys.stdin if line.strip()]
    if mode.startswith("even") or mode.startswith("odd"):
        par = 0 if mode.startswith("even") else 1
        docs = [d for d in docs if int(d["id"].split(".")[0]) % 2 == par]
    if mode.endswith("rev"):
        docs.reverse()
    for doc in docs:
        v = build(doc["spec"])
        layout = text(v)
        try:                                    # TypeRegistry.get_hash(value)
            h0 = reg.get_hash(v)
        except Exception as e:  # noqa: BLE001
            h0 = err(e)
        try:                                    # the value interface with the caller's serialisation
            vi = reg.get_value(v)
            h1 = vi.get_hash(data=vi.serialize())
        except Exception as e:  # noqa: BLE001
            h1 = err(e)
        try:                                    # what a real backend stores
            h2 = backend.record_value(v)
        except Exception as e:  # noqa: BLE001
            h2 = err(e)
        try:                                    # ... and again, now that the registry has seen the type (get_type_name)
            h3 = reg.get_hash(v)
        except Exception as e:  # noqa: BLE001
            h3 = err(e)
        arg = res = argsh = "-"
        if doc.get("sched"):                    # a real task call: recorded argument and result hashes
            try:
                if sched is None:
                    sched = Scheduler(config=Config({"backend": {"db_uri": "sqlite:///:memory:"}}))
                    sched.load()
                sched.run(ident(v))
                session = sched.backend.session
                jobs = [j for j in session.query(Job).filter(Job.task_hash == ident.hash).all() if j.id not in seen_jobs]
                seen_jobs.update(j.id for j in jobs)
                (job,) = jobs
                node = session.query(CallNode).filter(CallNode.call_hash == job.call_hash).one()
                res = node.value_hash
                argsh = node.args_hash
                (a,) = session.query(Argument).filter(Argument.call_hash == job.call_hash).all()
                arg = a.value_hash
            except Exception as e:  # noqa: BLE001
                arg = res = argsh = err(e)
        if text(v) != layout:
            layout = "!layout-changed"
        out.append("\t".join([doc["id"], layout, h0, h1, h2, arg, res, argsh, h3]))
    sys.stdout.write("\n".join(out) + "\n")


if __name__ == "__main__":
    main()
