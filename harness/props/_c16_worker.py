"""C16 worker: runs in a FRESH interpreter (its own PYTHONHASHSEED), builds values from JSON specs and prints, per spec,
the value as laid out in this process (sets/frozensets in iteration order) and its redun value hash.

stdin : one JSON document per line  {"id": <str>, "spec": <spec>}
stdout: one line per spec           <id> TAB <laid-out value text> TAB <hash | !ErrorName>
spec  : ["N"] ["T"] ["F"] ["i", n] ["s", str] ["b", hex] ["L", [..]] ["U", [..]] ["D", [[k, v], ..]]
        ["S", [..]] (elements are inserted in this order) ["FS", [..]] ["O", cls, [..]]
argv  : <repo path>
"""
import dataclasses
import json
import sys


@dataclasses.dataclass(frozen=True)
class K1:
    a: object


@dataclasses.dataclass(frozen=True)
class K2:
    a: object
    b: object


@dataclasses.dataclass
class M2:
    a: object
    b: object


CLASSES = {"K1": K1, "K2": K2, "M2": M2}


def build(sp):
    t = sp[0]
    if t == "N":
        return None
    if t == "T":
        return True
    if t == "F":
        return False
    if t == "i":
        return int(sp[1])
    if t == "s":
        return str(sp[1])
    if t == "b":
        return bytes.fromhex(sp[1])
    if t == "L":
        return [build(x) for x in sp[1]]
    if t == "U":
        return tuple(build(x) for x in sp[1])
    if t == "D":
        return {build(k): build(v) for k, v in sp[1]}
    if t == "S":
        s = set()
        for x in sp[1]:
            s.add(build(x))
        return s
    if t == "FS":
        return frozenset([build(x) for x in sp[1]])
    if t == "O":
        return CLASSES[sp[1]](*[build(x) for x in sp[2]])
    raise ValueError(t)


def text(v):
    t = type(v)
    if v is None:
        return "N"
    if t is bool:
        return "T" if v else "F"
    if t is int:
        return "i%d" % v
    if t is str:
        return "s" + v.encode("utf-8").hex()
    if t is bytes:
        return "b" + v.hex()
    if t is list:
        return "(" + " ".join(["L"] + [text(x) for x in v]) + ")"
    if t is tuple:
        return "(" + " ".join(["U"] + [text(x) for x in v]) + ")"
    if t is dict:
        return "(" + " ".join(["D"] + ["(" + text(k) + " " + text(x) + ")" for k, x in v.items()]) + ")"
    if t is set:
        return "(" + " ".join(["S"] + [text(x) for x in v]) + ")"
    if t is frozenset:
        return "(" + " ".join(["FS"] + [text(x) for x in v]) + ")"
    if t.__name__ in CLASSES:
        return "(" + " ".join(["O", t.__name__] + [text(getattr(v, f.name)) for f in dataclasses.fields(v)]) + ")"
    raise TypeError(t)


def main():
    repo = sys.argv[1]
    sys.path.insert(0, repo)
    from redun.value import get_type_registry
    reg = get_type_registry()
    out = []
    for line in sys.stdin:
        line = line.strip()
        if not line:
            continue
        doc = json.loads(line)
        v = build(doc["spec"])
        try:
            h = reg.get_hash(v)
        except Exception as e:  # noqa: BLE001
            h = "!" + type(e).__name__
        out.append("%s\t%s\t%s" % (doc["id"], text(v), h))
    sys.stdout.write("\n".join(out) + "\n")


if __name__ == "__main__":
    main()
