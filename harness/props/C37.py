"""C37 — the task registry stays consistent (TaskRegistry.add/rename/task_hashes, wraps_task renames).
Model: lean/RedunModel/Model/Registry.lean; theorems: lean/RedunModel/Props/C37.lean."""
import importlib
import os
import shutil
import sys
import tempfile

from core import Raw, sx, unsx

ID = "C37"
READY = True
LEAN_MODULES = ["RedunModel.Props.C37"]
LEAN_DRIVERS = ["C37"]
THEOREMS = [
    "RedunModel.C37.counts_exact",
    "RedunModel.C37.counts_positive",
    "RedunModel.C37.task_hashes_eq",
    "RedunModel.C37.lookup_current_name",
    "RedunModel.C37.names_unique",
    "RedunModel.C37.lookup_pure",
    "RedunModel.C37.queries_do_not_matter",
    "RedunModel.C37.get_hash_none_iff_count_zero",
    "RedunModel.C37.get_hash_finds_registered",
    "RedunModel.C37.wrap_names",
    "RedunModel.C37.wrap_names_stacked",
]
TRUSTED = [
    "modelled, not verified: Python dict/defaultdict semantics (insertion order, pop, `+= 1` on a missing key), "
    "in-place mutation of the registered Task object by rename()/recursive_rename (object identity = `oid` in the model)",
    "task hashes are opaque in the model (every theorem is for arbitrary hash assignments); the tie checks that the real "
    "digests and the model's pre-image strings T(fullname|body|included hashes) are in bijection over each history",
]
ASSUMPTIONS = [
    "a wrapper decorator is applied to the Task object currently registered under its full name (decorator stacking at "
    "definition time); wrapping a stale Task object that was since redefined is outside the domain",
    "wrapper names are non-empty (wraps_task falls back to the function name); names/namespaces are valid redun identifiers",
    "one registry, one thread",
]
RULE = ("histories of 1..12 operations over namespaces {'', ns, ns.sub, _w, ns._w}, names {a,b,c}, three bodies, compat hashes, "
        "two wrapper kinds with default or explicit wrapper names, defined in a module that sets redun_namespace = lib (so a wrapper of a "
        "top-level task must keep the EMPTY namespace): define / redefine (same or new body) / wrap / wrap again / "
        "define at a hidden name / registry.rename (also onto occupied names, also breaking a wrapper's pointer), interleaved with read-only "
        "queries (get(hash=) of a registered / formerly registered / never registered hash, get(task_name=) of a present / absent name, "
        "iteration); after every "
        "operation the real registry (_tasks items, _task_hash_counts items, task_hashes) is compared with the Lean model and the "
        "property oracle is evaluated on the real registry. distinct = distinct operation sequences; trivial = a single define")
LEVEL_TEXT = ("Full strength (all histories, arbitrary names and hashes): counts_exact (count of h = number of registered tasks with "
              "hash h), counts_positive, task_hashes_eq (task_hashes = hashes held), lookup_current_name + names_unique (every task "
              "stored and found under its current full name), lookup_pure / queries_do_not_matter (read-only queries leave names, counts and "
              "task_hashes unchanged), get_hash_none_iff_count_zero + get_hash_finds_registered (by-hash lookup vs counts), wrap_names (plain task: wrapper keeps the visible name, original moves "
              "to namespace.wrapper.name) and wrap_names_stacked (second wrapper on top: both lower layers move, pointer updated). "
              "Tied to redun/task.py by step-by-step comparison of the real TaskRegistry with the model over generated histories.")
LEVEL_NOTE = ("wrap_names_stacked is proved for two layers below the new wrapper (the general n-layer statement is exercised by the tie "
              "only); stale-object wraps are outside the model; module reloading / multiple registries are not modelled.")
TECHNIQUE = "Lean 4 invariant proof over a registry state machine + differential correspondence with the real TaskRegistry"

MODULE_SRC = '''
from redun.task import wraps_task

# the wrapper decorators live in a module with its own default namespace: a wrapper must still keep the wrapped task's
# visible namespace, the empty one included (it must not be inferred again from here)
redun_namespace = "lib"


def body0(x):
    return x + 0


def body1(x):
    return x + 1


def body2(x):
    return x * 2


def make_w(wrapper_name=None):
    @wraps_task(wrapper_name=wrapper_name)
    def _w(inner_task):
        def do_w(*args, **kwargs):
            return inner_task.func(*args, **kwargs)

        return do_w

    return _w


def make_v(wrapper_name=None):
    @wraps_task(wrapper_name=wrapper_name)
    def _v(inner_task):
        def do_v(*args, **kwargs):
            return 2 * inner_task.func(*args, **kwargs)

        return do_v

    return _v
'''

NAMESPACES = ["", "ns", "ns.sub", "_w", "ns._w", "x", "lib"]
NAMES = ["a", "b", "c"]
WNAMES = [None, None, None, "x", "_w", "ns"]


def line(op, *args):
    return op + " " + " ".join(sx(a) for a in args)


def fullname(ns, name):
    return ns + "." + name if ns else name


class Real:
    """The real registry, swapped in for the global one."""

    def __init__(self, mod):
        rt = importlib.import_module("redun.task")
        self.rt = rt
        self.mod = mod
        self.reg = rt.TaskRegistry()
        self.oids = {}
        self.next_oid = 0

    def oid(self, obj):
        return self.oids[id(obj)][0]

    def new_oid(self, obj):
        self.oids[id(obj)] = (self.next_oid, obj)      # keep obj alive so id() stays unique
        self.next_oid += 1
        return self.next_oid - 1

    def dump(self):
        tasks = []
        for key, t in self.reg._tasks.items():
            tasks.append((key, self.oids.get(id(t), (-1,))[0], t.namespace, t.name, t.hash, t.get_task_option("wrapped_task")))
        counts = list(self.reg._task_hash_counts.items())
        try:
            hashes = sorted(self.reg.task_hashes)
        except AssertionError:
            hashes = "!AssertionError"
        return tasks, counts, hashes


def gen_query(rng, real):
    """Read-only queries: get(hash=) for a registered / formerly registered / never registered hash, get(task_name=)
    for a present / absent name, iteration."""
    k = rng.random()
    if k < 0.55:
        live = {id(t) for t in real.reg._tasks.values()}
        cur = [o for o, obj in real.oids.values() if id(obj) in live]
        gone = [o for o, obj in real.oids.values() if id(obj) not in live]
        pick = rng.random()
        if gone and pick < 0.45:
            return ("geth", rng.choice(gone))
        if cur and pick < 0.8:
            return ("geth", rng.choice(cur))
        return ("geth", None)
    if k < 0.9:
        keys = list(real.reg._tasks)
        if keys and rng.random() < 0.6:
            return ("getn", rng.choice(keys))
        return ("getn", fullname(rng.choice(NAMESPACES), rng.choice(NAMES)))
    return ("iter",)


def gen_op(rng, real):
    keys = list(real.reg._tasks)
    if keys and rng.random() < 0.3:
        return gen_query(rng, real)
    k = rng.random()
    if not keys or k < 0.38:
        ns = rng.choice(["", "", "ns", "ns.sub", "lib"]) if rng.random() < 0.8 else rng.choice(NAMESPACES)
        name = rng.choice(NAMES)
        if rng.random() < 0.15:
            return ("defc", ns, name, rng.choice(["H1", "H2"]))
        return ("def", ns, name, rng.randrange(3))
    if k < 0.5 and keys:
        # redefinition of an existing name (possibly a hidden or wrapper name)
        t = real.reg._tasks[rng.choice(keys)]
        return ("def", t.namespace, t.name, rng.randrange(3))
    if k < 0.9:
        wrappers = [key for key in keys if real.reg._tasks[key].get_task_option("wrapped_task")]
        target = rng.choice(wrappers) if wrappers and rng.random() < 0.5 else rng.choice(keys)
        return ("wrap", target, rng.choice("wv"), rng.choice(WNAMES))
    old = rng.choice(keys) if rng.random() < 0.85 else fullname(rng.choice(NAMESPACES), rng.choice(NAMES))
    if rng.random() < 0.4 and keys:
        t = real.reg._tasks[rng.choice(keys)]
        return ("ren", old, t.namespace, t.name)         # onto an occupied name
    return ("ren", old, rng.choice(NAMESPACES), rng.choice(NAMES))


def model_hash_def(op):
    if op[0] == "defc":
        return "C(%s)" % op[3]
    return "T(%s|body%d|)" % (fullname(op[1], op[2]), op[3])


def apply_real(real, op):
    """Run one operation on the real registry. Returns (status, model request line, info for the oracle)."""
    rt, reg, mod = real.rt, real.reg, real.mod
    info = {}
    if op[0] in ("def", "defc"):
        ns, name = op[1], op[2]
        if op[0] == "def":
            t = rt.task(name=name, namespace=ns)(getattr(mod, "body%d" % op[3]))
        else:
            t = rt.task(name=name, namespace=ns, compat=[op[3]])(mod.body0)
        oid = real.new_oid(t)
        return "ok", line("def", oid, ns, name, model_hash_def(op)), info
    if op[0] == "geth":
        by_oid = {o: obj for o, obj in real.oids.values()}
        digest = by_oid[op[1]].hash if op[1] is not None else "f" * 40
        got = reg.get(hash=digest)
        info = dict(query=True, answer=None if got is None else real.oids.get(id(got), (-1,))[0], digest=digest, got=got)
        return "ok", "geth " + ("N" if op[1] is None else "i%d" % op[1]), info
    if op[0] == "getn":
        got = reg.get(task_name=op[1])
        info = dict(query=True, answer=None if got is None else real.oids.get(id(got), (-1,))[0], got=got)
        return "ok", line("getn", op[1]), info
    if op[0] == "iter":
        got = list(reg)
        info = dict(query=True, answer=[real.oids.get(id(t), (-1,))[0] for t in got], got=got)
        return "ok", "iter", info
    if op[0] == "ren":
        _, old, ns, name = op
        try:
            reg.rename(old, new_namespace=ns, new_name=name)
            st = "ok"
        except AssertionError:
            st = "!AssertionError"
        return st, line("ren", old, ns, name), info
    if op[0] == "wrap":
        _, target, kind, wname = op
        obj = reg.get(task_name=target)
        eff_wname = wname or ("_" + kind)
        # chain before the wrap, for the oracle
        chain, cur, seen = [], obj, 0
        while cur is not None and seen < 50:
            chain.append((cur, cur.namespace, cur.name))
            nxt = cur.get_task_option("wrapped_task")
            cur = reg.get(task_name=nxt) if nxt else None
            seen += 1
        deco = getattr(mod, "make_" + kind)(wname)
        woid = real.next_oid
        try:
            wt = deco(obj)
            real.new_oid(wt)
            st = "ok"
            info = dict(wrapper=wt, chain=chain, wname=eff_wname, visible=(obj is not None and chain[0][1:]))
        except AttributeError:
            st = "!AttributeError"
            real.next_oid += 1
        except AssertionError:
            st = "!AssertionError"
            real.next_oid += 1
        except RecursionError:
            st = "!RecursionError"
            real.next_oid += 1
        return st, line("wrap", target, eff_wname, woid, "do_" + kind), info
    raise ValueError(op)


def oracle(ctx, real, ops, op, st, info):
    """The property statement on the real registry after `op`."""
    reg = real.reg
    case = {"ops": [list(map(str, o)) for o in ops]}
    held = {t.hash for t in reg._tasks.values()}
    try:
        th = set(reg.task_hashes)
    except AssertionError:
        ctx.violation("C37-count-below-one", "task_hashes asserts: a hash count is < 1", case, "all counts >= 1",
                      repr(dict(reg._task_hash_counts)), kind="history")
        th = None
    if th is not None and th != held:
        ctx.violation("C37-task-hashes-differ", "task_hashes differs from the hashes of the registered tasks", case,
                      sorted(held), sorted(th), kind="history")
    for h, n in reg._task_hash_counts.items():
        m = sum(1 for t in reg._tasks.values() if t.hash == h)
        if n != m:
            ctx.violation("C37-count-inexact", "hash count differs from the number of registered tasks with that hash", case,
                          m, n, kind="history")
    for key, t in reg._tasks.items():
        if key != t.fullname or reg.get(task_name=t.fullname) is not t:
            ctx.violation("C37-not-under-current-name", "a registered task is not found under its current full name", case,
                          t.fullname, key, kind="history")
    if op[0] == "geth":
        got, digest = info["got"], info["digest"]
        holders = [t for t in reg._tasks.values() if t.hash == digest]
        if (got is None) != (not holders) or (got is not None and got.hash != digest):
            ctx.violation("C37-get-by-hash-wrong", "get(hash=) does not return a registered task with that hash iff one exists", case,
                          [t.fullname for t in holders], repr(got), kind="history")
    if op[0] == "getn" and info["got"] is not reg._tasks.get(op[1]):
        ctx.violation("C37-get-by-name-wrong", "get(task_name=) does not return the task registered under that name", case,
                      repr(reg._tasks.get(op[1])), repr(info["got"]), kind="history")
    if op[0] == "iter" and [id(t) for t in info["got"]] != [id(t) for t in reg._tasks.values()]:
        ctx.violation("C37-iteration-wrong", "iterating the registry does not yield the registered tasks", case,
                      len(reg._tasks), len(info["got"]), kind="history")
    if op[0] == "wrap" and st == "ok":
        wt, chain, w = info["wrapper"], info["chain"], info["wname"]
        vis_ns, vis_name = chain[0][1], chain[0][2]
        if reg.get(task_name=fullname(vis_ns, vis_name)) is not wt or (wt.namespace, wt.name) != (vis_ns, vis_name):
            ctx.violation("C37-wrapper-not-visible", "after wrapping, the visible name does not map to the wrapper", case,
                          fullname(vis_ns, vis_name), repr(reg.get(task_name=fullname(vis_ns, vis_name))), kind="history")
        # every layer moved to namespace.wrapper_name.name; pointers follow
        moved = [(obj, (ns + "." + w) if ns else w, name) for obj, ns, name in chain]
        names = [fullname(ns, name) for _, ns, name in moved]
        clash = len(set(names)) != len(names) or fullname(vis_ns, vis_name) in names
        if not clash:
            for i, (obj, ns, name) in enumerate(moved):
                if reg.get(task_name=fullname(ns, name)) is not obj:
                    ctx.violation("C37-original-not-hidden", "after wrapping, a wrapped layer is not at namespace.wrapper.name",
                                  case, fullname(ns, name), repr(reg.get(task_name=fullname(ns, name))), kind="history")
                ptr = (wt if i == 0 else moved[i - 1][0]).get_task_option("wrapped_task")
                if ptr != fullname(ns, name):
                    ctx.violation("C37-pointer-stale", "wrapped_task pointer does not name the hidden task", case,
                                  fullname(ns, name), ptr, kind="history")


def compare(ctx, ops, i, st, reply, real_dump, hmap, rmap, info=None):
    """Model reply vs real registry; hashes compared through a bijection model pre-image <-> digest."""
    parts = unsx(reply)
    mst = str(parts[0])
    case = {"ops": [list(map(str, o)) for o in ops[:i + 1]]}
    if mst != st:
        ctx.mismatch("operation status differs", case, mst, st)
        return False
    if len(parts) == 5:         # a read-only query: its answer first
        ans = parts[1]
        parts = [parts[0]] + parts[2:]
        m_ans = list(ans[1:]) if str(ans[0]) == "iter" else ans[1]
        if info is None or m_ans != info.get("answer"):
            ctx.mismatch("answer of the query differs", case, repr(m_ans), repr(info and info.get("answer")))
            return False
    mt = [tuple(x) for x in parts[1][1:]]
    mc = [tuple(x) for x in parts[2][1:]]
    mh = list(parts[3][1:])
    rt_, rc, rh = real_dump

    def link(mhash, digest):
        a = hmap.setdefault(mhash, digest)
        b = rmap.setdefault(digest, mhash)
        return a == digest and b == mhash

    ok = len(mt) == len(rt_) and len(mc) == len(rc)
    if ok:
        for (mk, mo, mns, mn, mhs, mw), (rk, ro, rns, rn, rhs, rw) in zip(mt, rt_):
            ok = ok and (mk, mo, mns, mn, mw) == (rk, ro, rns, rn, rw) and link(mhs, rhs)
        for (mhs, mn), (rhs, rn) in zip(mc, rc):
            ok = ok and mn == rn and link(mhs, rhs)
        if rh == "!AssertionError":
            ok = False
        else:
            ok = ok and len(set(mh)) == len(mh) and sorted(hmap.get(x, "?") for x in mh) == rh
    if not ok:
        ctx.mismatch("registry state differs after operation %d" % i, case, reply[:600],
                     repr((rt_, rc, rh))[:600])
    return ok


def run_history(ctx, mod, ops_or_len, rng=None):
    """Run one history on the real code; returns (ops, statuses, request lines, dumps, infos)."""
    rt = importlib.import_module("redun.task")
    real = Real(mod)
    saved = rt._task_registry
    rt._task_registry = real.reg
    ops, sts, reqs, dumps, infos = [], [], [Raw("reset")], [], []
    try:
        n = ops_or_len if isinstance(ops_or_len, int) else len(ops_or_len)
        for i in range(n):
            op = gen_op(rng, real) if isinstance(ops_or_len, int) else tuple(ops_or_len[i])
            if op[0] == "wrap" and real.reg.get(task_name=op[1]) is None:
                continue
            st, req, info = apply_real(real, op)
            ops.append(op)
            sts.append(st)
            reqs.append(req)
            dumps.append(real.dump())
            infos.append(info)
            oracle(ctx, real, ops, op, st, info)
    finally:
        rt._task_registry = saved
    return ops, sts, reqs, dumps, infos


CORPUS = [
    # top-level task (empty namespace) wrapped by a decorator from a module with redun_namespace = "lib"; an existing lib.f stays
    [("def", "lib", "a", 1), ("def", "", "a", 0), ("wrap", "a", "w", None), ("getn", "a"), ("getn", "lib.a"), ("wrap", "a", "v", None)],
    # read-only queries: hash of a redefined (no longer registered) task, a never registered hash, then more definitions
    [("def", "", "a", 0), ("def", "", "a", 1), ("geth", 0), ("geth", 1), ("geth", None), ("getn", "a"), ("getn", "zz"), ("iter",),
     ("def", "", "b", 0), ("wrap", "a", "w", None), ("geth", 0)],
    [("def", "ns", "a", 0), ("wrap", "ns.a", "w", None), ("def", "ns", "a", 2), ("geth", 1), ("getn", "ns._w.a"), ("def", "ns", "a", 2)],
    [("def", "ns", "a", 0), ("wrap", "ns.a", "w", None), ("wrap", "ns.a", "v", None), ("wrap", "ns.a", "w", None)],
    [("def", "", "a", 0), ("wrap", "a", "w", None), ("def", "", "a", 0), ("wrap", "a", "w", None)],   # equal hashes under two names
    [("def", "", "a", 1), ("ren", "a", "x", "a"), ("def", "", "a", 1), ("ren", "x.a", "", "a")],
    [("defc", "", "a", "H1"), ("defc", "", "b", "H1"), ("defc", "ns", "a", "H1"), ("def", "", "a", 0), ("ren", "b", "ns", "a")],
    [("def", "ns", "a", 0), ("wrap", "ns.a", "w", None), ("ren", "ns._w.a", "", "c"), ("wrap", "ns.a", "v", None)],  # dangling pointer
    [("def", "ns", "a", 0), ("wrap", "ns.a", "w", None), ("def", "ns._w", "a", 2), ("wrap", "ns.a", "w", "x")],
    [("def", "", "b", 2), ("ren", "zzz", "", "q")],
    [("def", "ns", "a", 0), ("wrap", "ns.a", "w", "ns"), ("wrap", "ns.ns.a", "v", None), ("wrap", "ns.a", "v", "_w")],
]


def run(ctx):
    tmp = tempfile.mkdtemp(prefix="c37_")
    modname = "c37_bodies_%d" % os.getpid()
    with open(os.path.join(tmp, modname + ".py"), "w") as f:
        f.write(MODULE_SRC)
    sys.path.insert(0, tmp)
    try:
        mod = importlib.import_module(modname)
        hist = []
        for ops in CORPUS:
            hist.append(run_history(ctx, mod, ops))
        for _ in range(ctx.n(1500, 30000)):
            hist.append(run_history(ctx, mod, ctx.rng.choice([1, 2, 3, 4, 5, 6, 8, 10, 12]), ctx.rng))
        lines = [str(r) for h in hist for r in h[2]]
        replies = ctx.model("C37", lines)
        pos = 0
        for ops, sts, reqs, dumps, infos in hist:
            pos += 1  # reset
            hmap, rmap = {}, {}
            good = True
            for i in range(len(ops)):
                if good:
                    good = compare(ctx, ops, i, sts[i], replies[pos], dumps[i], hmap, rmap, infos[i])
                pos += 1
            kinds = [o[0] for o in ops]
            ctx.case(key=None if len(ops) <= 1 and kinds[:1] in ([], ["def"]) else tuple(ops),
                     sample={"ops": [list(map(str, o)) for o in ops], "statuses": sts,
                             "final_keys": [t[0] for t in dumps[-1][0]] if dumps else []},
                     length=len(ops), wraps=min(kinds.count("wrap"), 4),
                     queries=min(sum(kinds.count(k) for k in ("geth", "getn", "iter")), 5),
                     errors=",".join(sorted({s for s in sts if s != "ok"})) or "none",
                     max_count=max([n for d in dumps for _, n in d[1]] or [0]))
    finally:
        sys.path.remove(tmp)
        sys.modules.pop(modname, None)
        shutil.rmtree(tmp, ignore_errors=True)


def replay(ctx, case):
    ops = (case.get("case") or {}).get("ops")
    print("replay history:", ops)
    if not ops:
        return run(ctx)
    tmp = tempfile.mkdtemp(prefix="c37_")
    modname = "c37_bodies_%d" % os.getpid()
    with open(os.path.join(tmp, modname + ".py"), "w") as f:
        f.write(MODULE_SRC)
    sys.path.insert(0, tmp)
    try:
        mod = importlib.import_module(modname)
        conv = []
        for o in ops:
            o = list(o)
            if o[0] == "def":
                o[3] = int(o[3])
            if o[0] == "wrap":
                o[3] = None if o[3] == "None" else o[3]
            if o[0] == "geth":
                o[1] = None if o[1] == "None" else int(o[1])
            conv.append(tuple(o))
        ops2, sts, reqs, dumps, infos = run_history(ctx, mod, conv)
        replies = ctx.model("C37", [str(r) for r in reqs])
        hmap, rmap = {}, {}
        for i in range(len(ops2)):
            if not compare(ctx, ops2, i, sts[i], replies[i + 1], dumps[i], hmap, rmap, infos[i]):
                break
        ctx.case(key=tuple(ops2), sample={"ops": ops, "statuses": sts})
    finally:
        sys.path.remove(tmp)
        sys.modules.pop(modname, None)
        shutil.rmtree(tmp, ignore_errors=True)
