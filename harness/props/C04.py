"""C04 — cached results with external values are replayed only while still valid.
Model: lean/RedunModel/Model/FileSys.lean (file classes, symbolic hashes) + Model/ExtCache.lean (cache entry,
the validity branch of Scheduler._get_cache, re-execution)."""
import dataclasses
import json
import logging

from props._filesys import World, r_path

ID = "C04"
READY = True          # on a /repo that carries harness/findings_proposed/C04-contentfile-missing.fix.diff (see final report)
LEAN_MODULES = ["RedunModel.Props.C04", "RedunModel.Model.FileSysIO"]
LEAN_DRIVERS = ["C04"]
THEOREMS = [
    "RedunModel.C04.replay_iff_valid",
    "RedunModel.C04.valid_means_hashes_equal",
    "RedunModel.C04.replay_only_if_valid",
    "RedunModel.C04.replay_changes_nothing",
    "RedunModel.C04.invalid_reexecutes_once",
    "RedunModel.C04.no_raise",
    "RedunModel.C04.reexec_reflects_state",
    "RedunModel.C04.returned_is_current",
    "RedunModel.C04.full_cache_is_returned",
    "RedunModel.C04.run_again_replays",
    "RedunModel.C04.shallow_rerun_remark",
    "RedunModel.C04.history_returned_is_current",
    "RedunModel.C04.deleted_file_invalidates",
    "RedunModel.C04.deleted_member_invalidates",
    "RedunModel.C04.immutable_never_invalidates",
    "RedunModel.C04.observe_of_valid",
    "RedunModel.C04.cinv_runChain",
    "RedunModel.C04.chain_answer_current",
    "RedunModel.C04.chain_consumer_runs_iff_new",
]
TRUSTED = [
    "hashes are symbolic in the model (a hash is its pre-image); the tie compares pre-images recovered from the real "
    "digests through hooks on redun.file.hash_struct / hash_stream; SHA collisions are outside the claim",
    "modelled, not verified: POSIX file semantics, glob+isfile, pickle round trip of file values (__getstate__ keeps "
    "path and hash), the sqlite Evaluation/CallNode tables as one overwritable cache entry per (task, args) key; the kernel "
    "clock is replaced by an explicit clock (os.utime inside the LocalFileSystem._open/copy layer)",
    "the task body is a parameter of the theorems (any function of the filesystem); the tie uses bodies that write a "
    "fixed list of files and return a fixed nesting of values",
]
ASSUMPTIONS = [
    "local filesystem, no permission errors; paths from a fixed universe of 26 file paths; file paths and directory paths "
    "are disjoint",
    "the model's directory listing is abstract (the universe paths below a directory that currently exist). The harness "
    "takes as 'the members of a Dir / FileSet' what a recursive glob enumerates: regular files, also those reached through "
    "a symlink to a directory (target outside the tree, or a hidden directory inside it) or through a symlink to a file, "
    "named by the path through the link; names with a leading dot and dangling links are not members. The trees contain "
    "such links, nested real directories and hidden files/dirs; link targets are never named directly by a value (no "
    "aliasing of two universe paths); the correspondence compares redun's listing (through the recorded hash pre-images) and "
    "the real tree with this reading",
    "external leaves are the 9 file classes and Staging values; Handle leaves are not generated here (handle validity "
    "is C25's subject)",
    "workflows make(), consume(make()) and outer() whose result is the call expression inner(x=<container of the values>) "
    "(modelled like consume(make()): the cached expression is valid iff every nested argument leaf is, the inner job is "
    "keyed by the recorded leaf hashes), run repeatedly with unchanged code and arguments against one in-memory backend; "
    "default (full) and shallow check_valid on make; thread executor; execution clock strictly increasing; no Staging "
    "leaves in consume(make()) workflows (a Staging value pickles the hashes of its two inner Files, which the model's "
    "consumer key does not carry)",
    "the oracle demands: nothing raised; at most one execution per run; a replayed result holds only values whose recorded "
    "hash is their current hash; independently of redun's hash functions, a replay happens only while the files named by "
    "the returned values are (by the harness's own bookkeeping of size/mtime/bytes/membership) in a state in which the "
    "task once ran, and after an execution the written files hold the task's bytes; a new result's hashes are current; the downstream answer "
    "equals the harness's own observation of the current files. It does not demand a replay when everything is valid "
    "(the model decides that, and the correspondence compares it — including the shallow-mode re-executions of "
    "shallow_rerun_remark)",
]
RULE = ("histories (4-10 steps) of run / delete / truncate / rewrite (size or mtime or neither changed) / touch / add "
        "directory member over a task returning 1-4 leaves (9 file classes, Staging, plain) nested in list/tuple/dict/dataclass "
        "(returned directly, passed to a consumer task, or carried as the argument of a returned call expression); "
        "after every step the execution count, escaped exception, recorded hash pre-images of the returned leaves and the "
        "whole file tree are compared with the model, and the property oracle is applied to the real scheduler. distinct = "
        "distinct history texts; non-trivial = at least two runs with an external mutation between them")
LEVEL_TEXT = ("Proved in Lean for every task body, universe, filesystem and cache state, for both check_valid modes (full "
              "strength, on the model of the repaired code): replay_iff_valid + valid_means_hashes_equal (a cached result is replayed iff every external "
              "leaf's recorded hash equals its current hash, immutable classes always), replay_only_if_valid, "
              "invalid_reexecutes_once, no_raise (the validity check itself cannot fail: run fails only if the task body "
              "does), reexec_reflects_state / returned_is_current (whatever run returns is valid in the filesystem it leaves "
              "behind), run_again_replays, history_returned_is_current (over all histories of external mutations and runs), "
              "deleted_file_invalidates / deleted_member_invalidates / immutable_never_invalidates; downstream of the task: "
              "chain_answer_current (the answer of a consumer called on the result, replayed or not, equals what it would "
              "compute now) with its invariant cinv_runChain. run_again_replays / full_cache_is_returned are for the default "
              "mode; shallow_rerun_remark is the closed witness why not for shallow (not demanded by the property). Tied to /repo by running "
              "real workflows on an in-memory backend and comparing execution counts, exceptions, recorded hashes and file "
              "contents step by step.")
LEVEL_NOTE = ("The model mirrors /repo with the proposed repair of ContentFile._calc_hash for a missing path (without it "
              "the check reports the escaping RedunFileNotFoundError with a replay). The scheduler is reduced to the "
              "_get_cache validity branch for one job; executors, CSE and multi-job programs are C01/C02/C06's subject. "
              "Handles are not covered here.")
TECHNIQUE = "Lean 4 proof on a cache/filesystem model + differential replay of run/mutation histories on the real scheduler"

TOPS = [("d1",), ("d2",), ("d3",)]
SUBS = [("d1", "s"), ("d2", "s"), ("d3", "s")]
U = [("f",), ("g",)]
for _d in TOPS:
    U += [_d + (x,) for x in "abc"] + [_d + ("s", x) for x in "ac"]
# members reached only through symbolic links, and a deeper real directory:
#   dX/l        -> <ext>/LX            (symlink to a directory outside the tree)          members dX/l/a, dX/l/c
#   d2/s/l      -> <root>/.store2      (symlink to a hidden directory inside the tree)    member  d2/s/l/a
#   d3/lf       -> <ext>/F3            (symlink to a file; dangling while the file is missing)
#   d1/s/t/a                           (nested real directories)
# hidden files d1/.h and d2/.hd/x exist and are edited by histories, but are never members (glob skips dot names)
for _d in TOPS:
    U += [_d + ("l", x) for x in "ac"]
U += [("d2", "s", "l", "a"), ("d3", "lf"), ("d1", "s", "t", "a")]
HIDDEN = [("d1", ".h"), ("d2", ".hd", "x")]
DATA = [b"", b"a", b"b", b"ab", b"ba", b"abc", b"hello world"]


def prepare_tree(w):
    import os
    for d in TOPS:
        os.makedirs(os.path.join(w.ext, "L" + d[0]))
        w.link(d + ("l",), os.path.join(w.ext, "L" + d[0]))
    os.makedirs(os.path.join(w.root, ".store2"))
    w.link(("d2", "s", "l"), os.path.join(w.root, ".store2"))
    w.link(("d3", "lf"), os.path.join(w.ext, "F3"))
    for h in HIDDEN:
        w.xwrite(h, b"hidden", 900)
SHAPES = ["single", "list", "tuple", "dict", "nested", "dataclass"]


@dataclasses.dataclass
class Box:
    """a user dataclass as container of returned values / of a call expression's argument"""
    first: object
    rest: tuple
    note: int = 7

_S = {"count": 0, "ccount": 0, "world": None, "tasks": None}


# ---------------------------------------------------------------------- workflow
def build(shape, vals):
    if shape == "single" and len(vals) == 1:
        return vals[0]
    if shape in ("single", "list"):
        return list(vals)
    if shape == "tuple":
        return tuple(vals)
    if shape == "dict":
        return {"k%d" % i: v for i, v in enumerate(vals)}
    if shape == "dataclass":
        return Box(vals[0], tuple(vals[1:]))
    return [vals[0], {"a": tuple(vals[1:]), "b": 7}]


def flatten(shape, n, res):
    if shape == "single" and n == 1:
        return [res]
    if shape in ("single", "list", "tuple"):
        return list(res)
    if shape == "dict":
        return [res["k%d" % i] for i in range(n)]
    if shape == "dataclass":
        return [res.first] + list(res.rest)
    return [res[0]] + list(res[1]["a"])


def observe(w, o):
    """what the downstream task looks at: size of a File / ContentFile, number of member files of a Dir / FileSet;
    nothing for immutable classes, staging values and plain leaves"""
    rf = w.rf
    if isinstance(o, (rf.IFile, rf.IFileSet, rf.IDir)) or not isinstance(o, (rf.File, rf.FileSet)):
        return 0
    if isinstance(o, rf.File):
        return o.size() if o.exists() else -1
    return len(list(o))


def expected_observation(spec_leaf, snap):
    """the harness's own computation of the same observation from its snapshot (oracle, independent of redun)"""
    k = spec_leaf[0]
    if k in ("plain", "staging") or spec_leaf[1] == "imm":
        return 0
    if k == "file":
        e = snap.get(tuple(spec_leaf[2]))
        return -1 if e is None else len(e[0])
    d = tuple(spec_leaf[2])
    rec = True if k == "dir" else spec_leaf[3]
    return sum(1 for p in snap if p[:len(d)] == d and (len(p) > len(d) if rec else len(p) == len(d) + 1))


def tasks():
    if _S["tasks"] is None:
        from redun import task

        def body(case_id, writes, outs, shape):
            _S["count"] += 1
            w = _S["world"]
            for comps, data in writes:
                w.rf.File(w.abs(comps)).write(data, mode="wb")
            vals = [o[1] if o[0] == "plain" else w.make(o) for o in outs]
            return build(shape, vals)

        # the task description travels as ONE json string: redun hashes arguments by pickling them, and a pickle of nested
        # tuples depends on which sub-objects are shared (memo), which changes when an expression is replayed from the
        # cache — pickle-identity sensitivity is C16's subject, not this check's
        def unpack(spec_json):
            d = dec(json.loads(spec_json))
            return d["writes"], d["outs"], d["shape"]

        def make(case_id: str, spec_json: str):
            return body(case_id, *unpack(spec_json))

        def make_shallow(case_id: str, spec_json: str):
            return body(case_id, *unpack(spec_json))
        def consume(case_id: str, x, shape: str, n: int):
            _S["ccount"] += 1
            w = _S["world"]
            return [observe(w, o) for o in flatten(shape, n, x)]
        def inner(case_id: str, shape: str, n: int, x=None):
            _S["ccount"] += 1
            w = _S["world"]
            return [observe(w, o) for o in flatten(shape, n, x)]
        inner_t = task(namespace="verif_gj_c04", name="inner")(inner)

        def outer(case_id: str, spec_json: str):
            # the RESULT of this task is a call expression whose keyword argument carries the values, nested in `shape`
            writes, outs, shape = unpack(spec_json)
            return inner_t(case_id, shape, len(outs), x=body(case_id, writes, outs, shape))
        _S["tasks"] = {
            "outer": task(namespace="verif_gj_c04", name="outer")(outer),
            "full": task(namespace="verif_gj_c04", name="make")(make),
            "shallow": task(namespace="verif_gj_c04", name="make_shallow", check_valid="shallow")(make_shallow),
            "consume": task(namespace="verif_gj_c04", name="consume")(consume),
        }
    return _S["tasks"]


# ---------------------------------------------------------------------- generator
def gen_leaf(rng):
    k = rng.random()
    fam = rng.choice(["plain", "plain", "content", "content", "imm"])
    if k < 0.45:
        return ("file", fam, rng.choice(U))
    if k < 0.68:
        return ("dir", fam, rng.choice(TOPS + TOPS + TOPS + SUBS + [("d1", "l"), ("d2", "s", "l"), ("d1", "s", "t")]))
    if k < 0.82:
        return ("fset", fam, rng.choice(TOPS + SUBS + [("d3", "l")]), rng.random() < 0.5)
    if k < 0.88:
        return ("staging", rng.random() < 0.5, fam, rng.choice(U), rng.choice(U))
    return ("plain", rng.randrange(5))


def below(d):
    return [p for p in U if p[:len(d)] == d and len(p) > len(d)]


def gen_case(rng, nsteps):
    outs = [gen_leaf(rng) for _ in range(rng.choice([1, 1, 2, 3, 4]))]
    if all(o[0] == "plain" for o in outs):
        outs[0] = ("file", rng.choice(["plain", "content"]), rng.choice(U))
    writes = []
    for o in outs:
        if o[0] == "file" and rng.random() < 0.85:
            writes.append((o[2], rng.choice(DATA)))
        elif o[0] in ("dir", "fset"):
            bl = below(o[2])
            for p in rng.sample(bl, min(len(bl), rng.choice([0, 1, 2, 2, 3]))):
                writes.append((p, rng.choice(DATA)))
    if rng.random() < 0.2:
        writes.append((rng.choice(U), rng.choice(DATA)))
    seen, ws = set(), []
    for p, d in writes:
        if p not in seen:
            seen.add(p)
            ws.append((p, d))
    chain = False
    if not any(o[0] == "staging" for o in outs):
        chain = rng.choice([False, False, False, True, True, "expr", "expr", "expr"])
    spec = dict(writes=tuple(ws), outs=tuple(outs), shape=rng.choice(SHAPES),
                variant="full" if chain == "expr" else rng.choice(["full", "full", "shallow"]), chain=chain)
    touched = [p for p, _ in ws] or U
    interesting = touched + [p for o in outs if o[0] in ("dir", "fset") for p in below(o[2])]
    clock = [2000]
    steps = [("run", clock[0])]
    for _ in range(nsteps):
        k = rng.random()
        p = rng.choice(interesting) if rng.random() < 0.85 else rng.choice(U)
        if rng.random() < 0.06:
            p = rng.choice(HIDDEN)
        t = rng.choice([clock[0], clock[0], clock[0] + 1, clock[0] - 1, 1500, rng.randrange(1000, 3000)])
        if k < 0.45:
            clock[0] += rng.choice([1, 5, 10])
            steps.append(("run", clock[0]))
        elif k < 0.62:
            steps.append(("xremove", p))
        elif k < 0.70:
            steps.append(("xtrunc", p, t))
        elif k < 0.78:
            steps.append(("xtouch", p, t))
        else:
            data = rng.choice(DATA)
            same = [d for q, d in ws if q == p]
            if same and rng.random() < 0.55:
                data = same[0] if rng.random() < 0.5 else bytes(reversed(same[0]))   # same bytes / same size
            steps.append(("xwrite", p, data, t))
    clock[0] += 1
    steps.append(("run", clock[0]))
    return spec, steps


def S(writes, outs, shape="list", variant="full", chain=False):
    return dict(writes=tuple(writes), outs=tuple(outs), shape=shape, variant=variant, chain=chain)


CORPUS = [
    # F3: the content-hashed output is deleted; the next run must re-execute, not raise
    (S([(("f",), b"abc")], [("file", "content", ("f",))], "single"), [("run", 2000), ("run", 2001), ("xremove", ("f",)), ("run", 2002), ("run", 2003)]),
    (S([(("f",), b"abc")], [("plain", 1), ("file", "content", ("f",))], "nested", "shallow"),
     [("run", 2000), ("xremove", ("f",)), ("run", 2002), ("run", 2003)]),
    # a ContentFile that the task never writes: recorded as missing, created later
    (S([], [("file", "content", ("g",))], "single"), [("run", 2000), ("run", 2001), ("xwrite", ("g",), b"a", 1500), ("run", 2002), ("run", 2003)]),
    # File: delete / rewrite with other size / same size other mtime / identical stat
    (S([(("f",), b"abc")], [("file", "plain", ("f",))], "single"),
     [("run", 2000), ("run", 2001), ("xremove", ("f",)), ("run", 2002), ("xwrite", ("f",), b"ab", 2002), ("run", 2003),
      ("xwrite", ("f",), b"cba", 2003), ("run", 2004), ("xwrite", ("f",), b"cba", 2009), ("run", 2005), ("xtouch", ("f",), 2010),
      ("run", 2006), ("xtrunc", ("f",), 2006), ("run", 2007)]),
    # ContentFile: touch and same-bytes rewrite stay valid, other bytes do not
    (S([(("f",), b"abc")], [("file", "content", ("f",))], "dict"),
     [("run", 2000), ("xtouch", ("f",), 2500), ("run", 2001), ("xwrite", ("f",), b"abc", 2600), ("run", 2002),
      ("xwrite", ("f",), b"cba", 2600), ("run", 2003), ("run", 2004)]),
    # Dir membership: add, remove, nested container
    (S([(("d1", "a"), b"a"), (("d1", "s", "c"), b"b")], [("plain", 0), ("dir", "plain", ("d1",))], "nested"),
     [("run", 2000), ("run", 2001), ("xwrite", ("d1", "b"), b"", 2001), ("run", 2002), ("run", 2003), ("xremove", ("d1", "s", "c")),
      ("run", 2004), ("xremove", ("d1", "b")), ("run", 2005), ("run", 2006)]),
    (S([(("d2", "a"), b"a")], [("dir", "content", ("d2",)), ("fset", "content", ("d2",), False), ("fset", "plain", ("d2",), True)], "tuple"),
     [("run", 2000), ("xtouch", ("d2", "a"), 2500), ("run", 2001), ("xwrite", ("d2", "s", "a"), b"a", 2001), ("run", 2002), ("run", 2003)]),
    # immutable classes and staging values: always replayed
    (S([(("f",), b"abc"), (("d1", "a"), b"a")], [("file", "imm", ("f",)), ("dir", "imm", ("d1",)), ("fset", "imm", ("d1",), True),
                                                     ("staging", False, "plain", ("f",), ("g",))], "list"),
     [("run", 2000), ("xremove", ("f",)), ("xremove", ("d1", "a")), ("run", 2001), ("xwrite", ("f",), b"zz", 2001), ("run", 2002)]),
    # shallow mode: re-creating an older result does not refresh its CallNode timestamp; the stale newer node is looked
    # up on every later run (re-executions that the property does not forbid; mirrored by the model's `nodes`)
    (S([], [("dir", "content", ("d3", "s"))], "nested", "shallow"),
     [("run", 2000), ("xwrite", ("d3", "s", "a"), b"ba", 2001), ("run", 2002), ("xremove", ("d3", "s", "a")), ("run", 2012), ("run", 2013),
      ("run", 2014)]),
    # downstream consumer: follows a re-executed upstream result, is replayed when the recorded hashes come back
    (S([(("f",), b"abc")], [("file", "content", ("f",)), ("dir", "plain", ("d1",))], "list", "full", True),
     [("run", 2000), ("run", 2001), ("xwrite", ("d1", "a"), b"a", 2001), ("run", 2002), ("xremove", ("f",)), ("run", 2003),
      ("xremove", ("d1", "a")), ("run", 2004), ("xwrite", ("f",), b"abcd", 2004), ("run", 2005), ("run", 2006)]),
    (S([(("g",), b"ab")], [("file", "plain", ("g",))], "single", "shallow", True),
     [("run", 2000), ("xtrunc", ("g",), 2000), ("run", 2001), ("xwrite", ("g",), b"ab", 2000), ("run", 2002), ("run", 2003)]),
    # content-hashed collections: the member path set stays, the content changes (same size / truncate / delete+recreate)
    (S([(("d1", "a"), b"ab"), (("d1", "b"), b"abc")], [("fset", "content", ("d1",), False)], "single"),
     [("run", 2000), ("run", 2001), ("xwrite", ("d1", "a"), b"ba", 2000), ("run", 2002), ("run", 2003), ("xtrunc", ("d1", "b"), 2003),
      ("run", 2004), ("xremove", ("d1", "a")), ("xwrite", ("d1", "a"), b"zz", 2004), ("run", 2005), ("run", 2006)]),
    (S([(("d2", "a"), b"ab"), (("d2", "s", "c"), b"abc")], [("plain", 1), ("fset", "content", ("d2",), True)], "nested", "shallow", True),
     [("run", 2000), ("xwrite", ("d2", "s", "c"), b"cba", 2000), ("run", 2001), ("run", 2002), ("xremove", ("d2", "a")),
      ("xwrite", ("d2", "a"), b"x", 2002), ("run", 2003), ("xtrunc", ("d2", "a"), 2003), ("run", 2004), ("run", 2005)]),
    (S([(("d3", "a"), b"ab"), (("d3", "c"), b"abc")], [("dir", "content", ("d3",)), ("fset", "content", ("d3",), False)], "dict", "full", True),
     [("run", 2000), ("xwrite", ("d3", "c"), b"xyz", 2000), ("run", 2001), ("xtrunc", ("d3", "a"), 2001), ("run", 2002),
      ("xremove", ("d3", "c")), ("xwrite", ("d3", "c"), b"abcd", 2002), ("run", 2003), ("run", 2004)]),
    (S([(("f",), b"ab"), (("g",), b"abc")], [("staging", False, "content", ("f",), ("g",)), ("file", "content", ("f",))], "tuple"),
     [("run", 2000), ("xwrite", ("f",), b"ba", 2000), ("run", 2001), ("xremove", ("g",)), ("xwrite", ("g",), b"q", 2001), ("run", 2002),
      ("xtrunc", ("f",), 2002), ("run", 2003), ("run", 2004)]),
    # the task's RESULT is a call expression; the external values sit inside a container argument of that expression
    (S([(("f",), b"abc")], [("plain", 1), ("file", "plain", ("f",))], "list", "full", "expr"),
     [("run", 2000), ("run", 2001), ("xtrunc", ("f",), 2001), ("run", 2002), ("run", 2003), ("xremove", ("f",)), ("run", 2004), ("run", 2005)]),
    (S([(("d1", "a"), b"a")], [("dir", "plain", ("d1",)), ("file", "content", ("d1", "a"))], "dict", "full", "expr"),
     [("run", 2000), ("xwrite", ("d1", "b"), b"b", 2000), ("run", 2001), ("run", 2002), ("xwrite", ("d1", "a"), b"zz", 2002), ("run", 2003),
      ("xremove", ("d1", "b")), ("run", 2004), ("run", 2005)]),
    (S([(("g",), b"ab")], [("file", "content", ("g",)), ("plain", 2)], "dataclass", "full", "expr"),
     [("run", 2000), ("xwrite", ("g",), b"abcd", 2000), ("run", 2001), ("xremove", ("g",)), ("xwrite", ("g",), b"q", 2001), ("run", 2002), ("run", 2003)]),
    (S([(("d2", "a"), b"ab")], [("plain", 0), ("dir", "content", ("d2",)), ("file", "plain", ("d2", "a"))], "nested", "full", "expr"),
     [("run", 2000), ("run", 2001), ("xtouch", ("d2", "a"), 2500), ("run", 2002), ("xwrite", ("d2", "c"), b"", 2002), ("run", 2003), ("run", 2004)]),
    (S([(("f",), b"abc")], [("file", "plain", ("f",)), ("file", "imm", ("g",))], "tuple", "full", "expr"),
     [("run", 2000), ("xwrite", ("f",), b"cba", 2000), ("run", 2001), ("xwrite", ("f",), b"cba", 2001), ("run", 2002), ("run", 2003)]),
    # members that are reached only through a symlinked sub-directory (outside target; hidden in-tree target), a symlinked
    # file, nested real directories, hidden files: rewrite / truncate / delete / recreate behind the link
    (S([(("d1", "a"), b"a"), (("d1", "l", "a"), b"ab")], [("dir", "plain", ("d1",))], "single"),
     [("run", 2000), ("run", 2001), ("xwrite", ("d1", "l", "a"), b"changed", 2001), ("run", 2002), ("run", 2003),
      ("xremove", ("d1", "l", "a")), ("run", 2004), ("xtrunc", ("d1", "l", "a"), 2004), ("run", 2005), ("xwrite", ("d1", ".h"), b"x", 2005),
      ("run", 2006), ("xwrite", ("d1", "l", "c"), b"new", 2006), ("run", 2007), ("run", 2008)]),
    (S([(("d2", "s", "l", "a"), b"ab"), (("d2", "a"), b"a")], [("plain", 1), ("dir", "content", ("d2",))], "nested", "full", True),
     [("run", 2000), ("xwrite", ("d2", "s", "l", "a"), b"abcd", 2000), ("run", 2001), ("run", 2002), ("xremove", ("d2", "s", "l", "a")),
      ("run", 2003), ("xwrite", ("d2", ".hd", "x"), b"", 2003), ("run", 2004)]),
    (S([(("d3", "lf"), b"abc"), (("d3", "l", "c"), b"c")], [("dir", "plain", ("d3",)), ("file", "content", ("d3", "lf"))], "dict", "shallow"),
     [("run", 2000), ("run", 2001), ("xremove", ("d3", "lf")), ("run", 2002), ("xwrite", ("d3", "lf"), b"zzz", 2002), ("run", 2003),
      ("xtouch", ("d3", "l", "c"), 2500), ("run", 2004), ("run", 2005)]),
    (S([(("d1", "s", "t", "a"), b"a"), (("d1", "l", "c"), b"c")], [("dir", "plain", ("d1", "s")), ("dir", "plain", ("d1", "l")),
                                                                     ("fset", "content", ("d1",), True)], "dataclass", "full", "expr"),
     [("run", 2000), ("xwrite", ("d1", "s", "t", "a"), b"ab", 2000), ("run", 2001), ("xwrite", ("d1", "l", "c"), b"d", 2001), ("run", 2002),
      ("xremove", ("d1", "l", "c")), ("run", 2003), ("run", 2004)]),
    # one invalid leaf deep in a container is enough
    (S([(("f",), b"a"), (("g",), b"b")], [("file", "imm", ("f",)), ("plain", 3), ("file", "plain", ("g",))], "nested", "shallow"),
     [("run", 2000), ("run", 2001), ("xtrunc", ("g",), 2001), ("run", 2002), ("run", 2003)]),
]


# ---------------------------------------------------------------------- protocol
def r_out(o):
    return "P" if o[0] == "plain" else World.r_val(o)


def model_line(spec, st):
    k = st[0]
    if k == "run":
        ws = " ".join("(%s b%s)" % (r_path(p), d.hex()) for p, d in spec["writes"])
        return "(%s i%d %s (%s) (%s))" % ("chain" if spec.get("chain") else "run", st[1], spec["variant"], ws,
                                          " ".join(r_out(o) for o in spec["outs"]))
    if k == "xremove":
        return "(xremove %s)" % r_path(st[1])
    if k in ("xtouch", "xtrunc"):
        return "(%s %s i%d)" % (k, r_path(st[1]), st[2])
    if k == "xwrite":
        return "(xwrite %s b%s i%d)" % (r_path(st[1]), st[2].hex(), st[3])
    raise ValueError(st)


def lines_for(spec, steps):
    lines = ["(init (%s))" % " ".join(r_path(p) for p in U)]
    for st in steps:
        lines.append(model_line(spec, st))
        lines.append("(fs)")
    return lines


def enc(x):
    if isinstance(x, bytes):
        return {"hex": x.hex()}
    if isinstance(x, (tuple, list)):
        return [enc(y) for y in x]
    if isinstance(x, dict):
        return {k: enc(v) for k, v in x.items()}
    return x


def dec(x):
    if isinstance(x, dict) and set(x) == {"hex"}:
        return bytes.fromhex(x["hex"])
    if isinstance(x, list):
        return tuple(dec(y) for y in x)
    if isinstance(x, dict):
        return {k: dec(v) for k, v in x.items()}
    return x


# ---------------------------------------------------------------------- real execution
def real_fs(w):
    snap = w.snapshot()
    out = []
    for p in U:
        if p in snap:
            b, mt = snap.pop(p)
            out.append("(%s b%s i%d)" % (r_path(p), b.hex(), int(mt)) if mt == int(mt) else "(%s ?mtime)" % r_path(p))
        else:
            out.append("(%s N)" % r_path(p))
    for p in sorted(snap):
        out.append("(?outside-universe %s)" % "/".join(p))
    return "(" + " ".join(out) + ")"


def leaf_hash(obj):
    h = getattr(obj, "_hash", None)
    return h if h else obj.get_hash()


def is_ext(w, obj):
    return isinstance(obj, (w.rf.File, w.rf.FileSet, w.rf.Staging))


def run_case(ctx, w, sched, case_id, spec, steps, replies, label):
    w.reset()
    prepare_tree(w)
    w.struct_of.clear()
    w.bytes_of.clear()
    case = {"spec": enc(spec), "steps": enc(steps), "label": label}
    t = tasks()[spec["variant"]]
    n = len(spec["outs"])
    spec_json = json.dumps(enc({"writes": spec["writes"], "outs": spec["outs"], "shape": spec["shape"]}), sort_keys=True)
    it = iter(replies)
    next(it)
    exec_states = set()    # the harness's own view (size/mtime/bytes/membership, no redun hash involved) of what the returned
                           # values name, taken right after each execution of the task
    nruns = 0
    diverged = False
    tk = tasks()
    for i, st in enumerate(steps):
        k = st[0]
        if k == "run":
            w.clock = st[1]
            before, cbefore = _S["count"], _S["ccount"]
            try:
                if spec.get("chain") == "expr":
                    expr = tk["outer"](case_id, spec_json)
                else:
                    expr = t(case_id, spec_json)
                if spec.get("chain") is True:
                    expr = tk["consume"](case_id, expr, spec["shape"], n)
                res = sched.run(expr)
                err = None
            except Exception as e:  # noqa: BLE001
                res, err = None, e
            executed, cexecuted = _S["count"] - before, _S["ccount"] - cbefore
            nruns += 1
            word = {0: "replay", 1: "exec"}.get(executed, "exec%d" % executed)
            leaves = None
            if err is not None:
                out = "!" + type(err).__name__
            elif spec.get("chain"):
                out = "(%s) (%s%s)" % (word, {0: "creplay", 1: "cexec"}.get(cexecuted, "cexec%d" % cexecuted),
                                       "".join(" i%d" % x for x in res))
            else:
                leaves = flatten(spec["shape"], n, res)
                out = "(%s%s)" % (word, "".join(" " + (w.r_hash(leaf_hash(o)) if is_ext(w, o) else "P") for o in leaves))
            # ---- the property oracle on the real scheduler
            snap = w.snapshot()
            if err is not None:
                missing_cf = isinstance(err, FileNotFoundError) and any(
                    (o[0] == "file" and o[1] == "content" and tuple(o[2]) not in snap) or
                    (o[0] == "staging" and o[2] == "content") for o in spec["outs"])
                ctx.violation("C04-contentfile-deleted-output-raises" if missing_cf else "C04-run-raises",
                              "scheduler.run raised %s instead of (re-)executing the task" % type(err).__name__,
                              case=case, expected="exec or replay", actual=out, kind="history")
            else:
                if executed > 1 or cexecuted > 1 or (nruns == 1 and executed != 1):
                    ctx.violation("C04-wrong-execution-count", "the task ran %d times in one run (first run: %s)"
                                  % (executed, nruns == 1), case=case, expected="0 or 1 (first run: 1)", actual=out, kind="history")
                named = tuple(World.state_keys(sp, snap)[1] if sp[0] != "plain" else None for sp in spec["outs"])
                if executed:
                    exec_states.add(named)
                    wrong = [p for p, d in spec["writes"] if snap.get(tuple(p), (None,))[0] != d]
                    if wrong:
                        ctx.violation("C04-reexecution-did-not-restore-outputs", "after the task ran, %s do(es) not hold what the "
                                      "task writes" % wrong[:3], case=case, expected="task outputs", actual=out, kind="history")
                elif named not in exec_states:
                    changed = [sp for sp, a in zip(spec["outs"], named)
                               if sp[0] != "plain" and all(e[spec["outs"].index(sp)] != a for e in exec_states)]
                    ctx.violation("C04-altered-output-replayed", "a cached result was replayed although the files named by %s were "
                                  "deleted or altered (size / mtime / bytes / membership) and are in a state in which the task never "
                                  "ran" % (changed[:2] or "the returned values",), case=case, expected="re-execution", actual=out,
                                  kind="history")
                if leaves is not None:
                    for o, sp in zip(leaves, spec["outs"]):
                        if not is_ext(w, o):
                            continue
                        if leaf_hash(o) != w.hash_of(w.fresh(o)):
                            ctx.violation("C04-replayed-invalid-result" if executed == 0 else "C04-reexecuted-result-not-current",
                                          "the %s result holds %s whose recorded hash is not its current hash"
                                          % ("replayed" if executed == 0 else "new", sp), case=case,
                                          expected=w.r_hash(w.hash_of(w.fresh(o))), actual=w.r_hash(leaf_hash(o)), kind="history")
                else:
                    want = [expected_observation(sp, snap) for sp in spec["outs"]]
                    if list(res) != want:
                        ctx.violation("C04-downstream-result-not-current", "consume(make()) returned observations that do not "
                                      "reflect the current files (upstream %s, consumer %s)" % (word, "ran" if cexecuted else "replayed"),
                                      case=case, expected=want, actual=list(res), kind="history")
        elif k == "xremove":
            w.xremove(st[1])
            out = "ok"
        elif k == "xtouch":
            if w.read(st[1]) is not None:
                import os
                os.utime(w.abs(st[1]), (st[2], st[2]))
            out = "ok"
        elif k == "xtrunc":
            if w.read(st[1]) is not None:
                w.xwrite(st[1], b"", st[2])
            out = "ok"
        elif k == "xwrite":
            w.xwrite(st[1], st[2], st[3])
            out = "ok"
        else:
            raise ValueError(st)
        fs = real_fs(w)
        m_out, m_fs = next(it), next(it)
        if not diverged and (out != m_out or fs != m_fs):
            diverged = True
            ctx.mismatch("C04 step %d %s: model and real scheduler disagree" % (i, k), case=case,
                         model={"reply": m_out, "fs": m_fs}, impl={"reply": out, "fs": fs})


def run_cases(ctx, cases):
    from redun import Scheduler
    logging.getLogger("redun").setLevel(logging.CRITICAL)
    lines, spans = [], []
    for label, spec, steps in cases:
        ls = lines_for(spec, steps)
        spans.append((len(lines), len(lines) + len(ls)))
        lines += ls
    replies = ctx.model("C04", lines)
    bad = [r for r in replies if r.startswith("bad-")]
    if bad:
        ctx.mismatch("model driver rejected a generated request (generator left the modelled domain)", case=None,
                     model=bad[0], impl=None)
    with World(U) as w:
        _S["world"] = w
        try:
            sched = Scheduler()
            sched.load()
            for idx, ((label, spec, steps), (a, b)) in enumerate(zip(cases, spans)):
                kinds = [s[0] for s in steps]
                runs = [i for i, k in enumerate(kinds) if k == "run"]
                nontrivial = len(runs) >= 2 and any(k != "run" for k in kinds[runs[0]:runs[-1]])
                ctx.case(key="\n".join(lines[a:b]) if nontrivial else None,
                         sample={"label": label, "steps": [model_line(spec, s) for s in steps][:10]},
                         shape=spec["shape"], variant=spec["variant"], n_leaves=len(spec["outs"]),
                         workflow={False: "make()", True: "consume(make())", "expr": "outer() returning inner(x=...)"}[spec.get("chain", False)])
                for kd in kinds:
                    ctx.count("step", kd)
                for o in spec["outs"]:
                    ctx.count("leaf", o[0] + ("/" + (o[2] if o[0] == "staging" else o[1]) if o[0] != "plain" else ""))
                run_case(ctx, w, sched, "%s-%d" % (label, idx), spec, steps, replies[a:b], label)
        finally:
            _S["world"] = None


def run(ctx):
    cases = [("corpus-%d" % i, spec, steps) for i, (spec, steps) in enumerate(CORPUS)]
    rng = ctx.rng
    for i in range(ctx.n(75, 1400)):
        spec, steps = gen_case(rng, rng.choice([3, 5, 7, 9]))
        cases.append(("gen-%d" % i, spec, steps))
    run_cases(ctx, cases)


def replay(ctx, case):
    c = case.get("case") or {}
    if not isinstance(c, dict) or "steps" not in c:
        ctx.note("replay file has no history; running the normal check")
        return run(ctx)
    spec, steps = dec(c["spec"]), list(dec(c["steps"]))
    print("replay:", json.dumps([model_line(spec, s) for s in steps]))
    run_cases(ctx, [("replay", spec, steps)])
