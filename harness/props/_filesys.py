"""Shared by C04 and C30 (group gJ): a temp-dir universe for redun's file value classes, a deterministic
filesystem clock (every file written or copied through redun's LocalFileSystem gets the mtime the harness chose,
set with os.utime — the wall clock is never observed), hooks on redun.file.hash_struct / hash_stream that log
digest -> pre-image, and the rendering of a digest as the model's symbolic hash `H` (Model/FileSys.lean)."""
import io
import os
import shutil
import tempfile

FAMS = ("plain", "imm", "content")


def hx(s):
    return s.encode().hex()


def r_path(comps):
    return "(" + " ".join("s" + hx(c) for c in comps) + ")"


class World:
    """One temp root + the patches.  Use as a context manager; everything is undone on exit."""

    def __init__(self, universe):
        self.U = [tuple(p) for p in universe]
        self.uidx = {p: i for i, p in enumerate(self.U)}
        self.clock = 1000
        self.struct_of = {}      # digest -> list (hash_struct argument)
        self.bytes_of = {}       # content digest -> bytes
        self.copies = 0          # LocalFileSystem.copy calls (to tell "skipped" from "copied")
        self.root = None

    # ------------------------------------------------------------------ install / remove
    def __enter__(self):
        import redun.file as rf
        self.rf = rf
        self.root = os.path.realpath(tempfile.mkdtemp(prefix="verif-gJ-"))
        self.ext = os.path.realpath(tempfile.mkdtemp(prefix="verif-gJ-ext-"))   # targets of symlinks that leave the tree
        w = self
        self._saved = (rf.LocalFileSystem._open, rf.LocalFileSystem.copy, rf.hash_struct, rf.hash_stream)
        orig_open, orig_copy, orig_hs, orig_hstream = self._saved

        def _open(fs, path, mode, **kw):
            stream = orig_open(fs, path, mode, **kw)
            if set(mode) & set("wax+"):
                inner_close = stream.close

                def close():
                    inner_close()
                    os.utime(path, (w.clock, w.clock))
                    stream.close = inner_close
                stream.close = close
            return stream

        def copy(fs, src_path, dest_path):
            w.copies += 1
            orig_copy(fs, src_path, dest_path)
            if rf.get_proto(dest_path) == "local":
                os.utime(dest_path, (w.clock, w.clock))

        def hash_struct(struct):
            d = orig_hs(struct)
            w.struct_of[d] = list(struct)
            return d

        def hash_stream(stream, *a, **kw):
            data = stream.read()
            d = orig_hstream(io.BytesIO(data), *a, **kw)
            w.bytes_of[d] = data
            return d

        rf.LocalFileSystem._open = _open
        rf.LocalFileSystem.copy = copy
        rf.hash_struct = hash_struct
        rf.hash_stream = hash_stream
        return self

    def __exit__(self, *exc):
        rf = self.rf
        rf.LocalFileSystem._open, rf.LocalFileSystem.copy, rf.hash_struct, rf.hash_stream = self._saved
        shutil.rmtree(self.root, ignore_errors=True)
        shutil.rmtree(self.ext, ignore_errors=True)
        return False

    def reset(self):
        """Empty the temp root and the link-target area (between cases)."""
        for top in (self.root, self.ext):
            for name in os.listdir(top):
                p = os.path.join(top, name)
                if os.path.islink(p) or not os.path.isdir(p):
                    os.remove(p)
                else:
                    shutil.rmtree(p)

    def link(self, comps, target):
        """symlink <root>/<comps> -> target (absolute path; may not exist yet)"""
        p = self.abs(comps)
        os.makedirs(os.path.dirname(p), exist_ok=True)
        os.symlink(target, p)

    # ------------------------------------------------------------------ paths
    def abs(self, comps):
        return os.path.join(self.root, *comps) if comps else self.root

    def rel(self, path):
        path = path.rstrip("/")
        if path == self.root:
            return ()
        if not path.startswith(self.root + "/"):
            return ("?outside", path)
        return tuple(path[len(self.root) + 1:].split("/"))

    # ------------------------------------------------------------------ raw filesystem (not through redun)
    def xwrite(self, comps, data, t):
        p = self.abs(comps)
        os.makedirs(os.path.dirname(p), exist_ok=True)
        with open(p, "wb") as f:
            f.write(data)
        os.utime(p, (t, t))

    def xremove(self, comps):
        p = self.abs(comps)
        if os.path.islink(p):
            p = os.path.realpath(p)          # a symlink to a file: delete the file, keep the (now dangling) link
        try:
            os.remove(p)
        except FileNotFoundError:
            pass

    def read(self, comps):
        try:
            with open(self.abs(comps), "rb") as f:
                return f.read()
        except OSError:             # missing, or unreachable (ENOTDIR, ELOOP, ENAMETOOLONG): no bytes to read
            return None

    def snapshot(self):
        """{rel path: (bytes, mtime)} of what a recursive glob of the root enumerates as files: regular files, reached
        also through symlinks to directories and symlinks to files (named by the path through the link), hidden
        names (leading dot) skipped, dangling links skipped."""
        out = {}
        for d, dirs, files in os.walk(self.root, followlinks=True):
            dirs[:] = [x for x in dirs if not x.startswith(".")]
            for f in files:
                p = os.path.join(d, f)
                if f.startswith(".") or not os.path.isfile(p):
                    continue
                st = os.stat(p)
                with open(p, "rb") as fh:
                    out[self.rel(p)] = (fh.read(), st.st_mtime)
        return out

    # ------------------------------------------------------------------ the harness's own view of "the state a value names"
    @staticmethod
    def state_keys(spec, snap):
        """(fine, coarse) for a value spec in a filesystem snapshot {rel: (bytes, mtime)}: the property's reading of
        "tracks the filesystem", independent of redun's hash functions — the hash must be a function of `fine`
        (same fine key => same hash) and must separate `coarse` (different coarse key => different hash).
        File: existence/size/mtime.  ContentFile, ContentFileSet: bytes.  Dir, FileSet: member set with size/mtime.
        ContentDir: fine = members with size/mtime/bytes, coarse = members with size (the code hashes its members by
        size/mtime; the statement's content clause names files, so nothing finer is demanded).  Immutable, Staging: constant."""
        k, fam = spec[0], (spec[2] if spec[0] == "staging" else spec[1])
        if k == "staging" or fam == "imm":
            return ("const",), ("const",)
        if k == "file":
            e = snap.get(tuple(spec[2]))
            if fam == "content":
                key = ("bytes", None if e is None else e[0])
            else:
                key = ("stat", None if e is None else (len(e[0]), e[1]))
            return key, key
        d = tuple(spec[2])
        rec = True if k == "dir" else spec[3]
        mem = [(p, e) for p, e in snap.items() if p[:len(d)] == d and (len(p) > len(d) if rec else len(p) == len(d) + 1)]
        if k == "fset" and fam == "content":
            key = frozenset((p, e[0]) for p, e in mem)
            return key, key
        if k == "dir" and fam == "content":
            return frozenset((p, len(e[0]), e[1], e[0]) for p, e in mem), frozenset((p, len(e[0])) for p, e in mem)
        key = frozenset((p, len(e[0]), e[1]) for p, e in mem)
        return key, key

    # ------------------------------------------------------------------ classes
    def cls(self, kind, fam):
        rf = self.rf
        return {
            ("file", "plain"): rf.File, ("file", "imm"): rf.IFile, ("file", "content"): rf.ContentFile,
            ("fset", "plain"): rf.FileSet, ("fset", "imm"): rf.IFileSet, ("fset", "content"): rf.ContentFileSet,
            ("dir", "plain"): rf.Dir, ("dir", "imm"): rf.IDir, ("dir", "content"): rf.ContentDir,
            ("sfile", "plain"): rf.StagingFile, ("sfile", "imm"): rf.IStagingFile, ("sfile", "content"): rf.ContentStagingFile,
            ("sdir", "plain"): rf.StagingDir, ("sdir", "imm"): rf.IStagingDir, ("sdir", "content"): rf.ContentStagingDir,
        }[(kind, fam)]

    def make(self, spec):
        """spec: ("file", fam, comps) | ("fset", fam, comps, recursive) | ("dir", fam, comps)
                 | ("staging", is_dir, fam, loc, rem)  -> a new redun value object"""
        k = spec[0]
        if k == "file":
            return self.cls("file", spec[1])(self.abs(spec[2]))
        if k == "dir":
            return self.cls("dir", spec[1])(self.abs(spec[2]))
        if k == "fset":
            return self.cls("fset", spec[1])(os.path.join(self.abs(spec[2]), "**" if spec[3] else "*"))
        if k == "staging":
            return self.cls("sdir" if spec[1] else "sfile", spec[2])(self.abs(spec[3]), self.abs(spec[4]))
        raise ValueError(spec)

    def fresh(self, obj):
        """A new object of the same class for the same path / pattern (its hash is computed from the filesystem)."""
        rf = self.rf
        if isinstance(obj, rf.Staging):
            return type(obj)(obj.local.path, obj.remote.path)
        if isinstance(obj, rf.Dir):
            return type(obj)(obj.path)
        if isinstance(obj, rf.FileSet):
            return type(obj)(obj.pattern)
        return type(obj)(obj.path)

    @staticmethod
    def hash_of(obj):
        return obj.hash if hasattr(type(obj), "hash") else obj.get_hash()

    # ------------------------------------------------------------------ rendering
    @staticmethod
    def r_val(spec):
        k = spec[0]
        if k == "file":
            return "(file %s %s)" % (spec[1], r_path(spec[2]))
        if k == "dir":
            return "(dir %s %s)" % (spec[1], r_path(spec[2]))
        if k == "fset":
            return "(fset %s %s %s)" % (spec[1], r_path(spec[2]), "T" if spec[3] else "F")
        if k == "staging":
            return "(staging %s %s %s %s)" % ("T" if spec[1] else "F", spec[2], r_path(spec[3]), r_path(spec[4]))
        raise ValueError(spec)

    def _member_key(self, digest):
        st = self.struct_of.get(digest)
        if st and len(st) >= 3 and isinstance(st[2], str) and st[0] in ("File", "ContentFile"):
            p = self.rel(st[2] if st[0] == "File" else st[1])
            return (self.uidx.get(p, 10 ** 6), repr(p))
        return (10 ** 7, str(digest))

    def r_hash(self, digest):
        """digest -> the model's rendering of its pre-image; unknown digests render as ?<digest> (never equal
        to a model line)."""
        if digest is None:
            return "N"
        st = self.struct_of.get(digest)
        if st is None:
            return "?" + str(digest)
        tag = st[0]
        try:
            if tag == "File" and len(st) == 5 and st[1] == "local":
                mt = float(st[4])
                if mt != int(mt):
                    return "?mtime" + st[4]
                return "(stat %s i%d i%d)" % (r_path(self.rel(st[2])), st[3], int(mt))
            if tag == "ContentFile" and len(st) == 3:
                if st[2] == "":
                    body = "N"
                elif st[2] in self.bytes_of:
                    body = "b" + self.bytes_of[st[2]].hex()
                else:
                    body = "?" + st[2]
                return "(content %s %s)" % (r_path(self.rel(st[1])), body)
            if tag in ("IFile", "IFileSet", "IDir") and len(st) == 2:
                return "(imm %s %s)" % (tag, r_path(self.rel(st[1])))
            if tag in ("FileSet", "ContentFileSet", "Dir", "ContentDir"):
                ms = sorted(st[2:], key=self._member_key)
                return "(coll %s %s (%s))" % (tag, r_path(self.rel(st[1])), " ".join(self.r_hash(m) for m in ms))
            if tag.startswith("redun.") and tag.endswith(("StagingFile", "StagingDir")) and len(st) == 3:
                return "(staging %s %s %s)" % (tag[len("redun."):], r_path(self.rel(st[1])), r_path(self.rel(st[2])))
        except Exception as e:  # noqa: BLE001
            return "?render-%s" % type(e).__name__
        return "?struct" + repr(st)[:80]
