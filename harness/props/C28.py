"""C28 — dry runs execute nothing and predict the real run.  Model: SchedCore with dryrun = true."""
import json
import os
import random
import shutil
import tempfile

import ctl_sched
import sched_corr as sc
from props import C06 as c06
from props import C08 as base

ID = "C28"
READY = True
LEAN_MODULES = ["RedunModel.Props.C28"]
LEAN_DRIVERS = ["Sched"]
THEOREMS = [
    "RedunModel.C28.no_submit",
    "RedunModel.C28.nothing_in_flight",
    "RedunModel.C28.consumes_nothing",
    "RedunModel.C28.dryInv_popN",
    "RedunModel.C28.complete_predicts_partial",
    "RedunModel.SchedCore.reachable_dry",
    "RedunModel.SchedCore.dry_real_lockstep",
    "RedunModel.C28.complete_predicts",
    "RedunModel.C28.resolved_root_had_no_miss",
    "RedunModel.SchedCore.reachable_dryTok",
    "RedunModel.SchedCore.no_miss_of_root_resolved",
    "RedunModel.C28.incomplete_predicts",
    "RedunModel.C28.incomplete_every_run",
    "RedunModel.SchedCore.miss_submits",
]
TRUSTED = base.TRUSTED + [
    "the backend state before the run is abstracted to one flag per call (miss / single-reduction entry / ultimate-reduction entry); the harness "
    "derives it from the Evaluation rows actually present in the sqlite file",
]
ASSUMPTIONS = base.ASSUMPTIONS + ["feasible limit configurations only (no job demands more than its limit)", "backend histories: empty; after a complete or failed earlier execution of the same program; after editing one task "
                                  "(new version => new task hash)", "programs in which one call occurs under two different contexts are compared in "
                                  "single-execution histories only: in a later execution the same-execution lookup may serve one from the other through the "
                                  "context tags the shared call node got in the earlier execution (same node, hence the same value), which the model's "
                                  "one-flag-per-call abstraction of the backend state does not carry"]
RULE = ("generated job-tree programs; backend state = empty | after a first (possibly failing) real run | after that plus an edit of one task; on a "
        "copy of the sqlite file a DRY run (controlled scheduler, interposed executor counting submissions and task-function calls) is compared "
        "event by event with the model, then a REAL run on another copy is the oracle: dry run submits nothing; if it returns v the real run "
        "returns v with zero submissions; if it stops (DryRunResult) the real run submits at least one job. distinct = distinct (program, "
        "backend history, edit); non-trivial = backend not empty")
LEVEL_TEXT = ("Lean 4 proof for all programs and schedules that a dry run never submits a job, has nothing in flight and consumes no limits; "
              "the lock-step theorem (complete_predicts_partial): as long as every job of the dry run is served by a twin or the cache, the real "
              "run passes through exactly the same states and submits nothing; and now the FULL prediction theorem for completed dry runs "
              "(complete_predicts): if the dry run's root job is resolved after n events (not finished earlier) then no job took the 'would run' "
              "exit - proved from the dry-run invariant reachable_dryTok (nothing is registered or collapsed in a dry run, every job has at most "
              "one queued event, a settled job has none, Promise.all counts exactly the pending children, a job resolves only after all its "
              "children resolved) and the fact that a job that misses never resolves (no_miss_of_root_resolved) - hence the real run from the "
              "same backend state goes through the same n states, resolves its root and submits nothing. The CONVERSE is proved too "
              "(incomplete_predicts / incomplete_every_run): if the dry run serves its first n events from twins and the cache and the next "
              "event is the execution of a job that misses both and has an executor (the 'would run' exit), then with feasible limits the "
              "real run on the same backend state passes through the same n states and hands that job to its executor at that very event, "
              "and every reachable state of every real run is one of these common states or has at least one submission. Remainder "
              "(oracle only): dry runs in which a job WITHOUT executor misses (and is rejected, identically in both runs) before the first "
              "runnable miss, and infeasible limit configurations.")
LEVEL_NOTE = "task functions are never called in a dry run is observed through the interposed executor (no submission => no call)"
TECHNIQUE = base.TECHNIQUE


def eval_keys(sched, ctl, p):
    """cache keys (model key ids) that have an Evaluation row in this backend"""
    from redun.backends.db import Evaluation
    hashes = {h for (h,) in sched.backend.session.query(Evaluation.eval_hash).all()}
    keys = set()
    for name, eh, ch, job in ctl.submissions:
        if eh in hashes and getattr(job, "_vid", None) is not None:
            keys.add(p.specs[job._vid]["key"])
    return keys


def multi_ctx_key(p):
    """some call (cache key) occurs under two different contexts (one may be the empty one).  In a LATER execution the same-execution lookup can then
    serve one of them from the other: both produced the same call node in the earlier execution, so the node carries both context
    tags (same task, arguments, result and children - the shared value is the right one).  The model's abstraction of the backend
    state (one flag per call) has no context tags of earlier executions, so such programs are compared in single-execution
    histories only."""
    seen = {}
    for sp in p.specs:
        seen.setdefault(sp["key"], set()).add(sp["ctx"])        # ctx 0 = empty context: its node is tagged by the others too
    return any(len(v) > 1 for v in seen.values())


def scenario(ctx, p, rng, tmp, items, kind):
    if kind != "empty" and multi_ctx_key(p):
        kind = "empty"
    db = os.path.join(tmp, "base%d.db" % ctx.evaluations)
    uri = lambda path: "sqlite:///" + path  # noqa: E731
    history = "empty"
    pre = {}
    edited = None
    if kind != "empty":
        s1 = ctl_sched.make_scheduler(None, limits=p.limits_cfg, db_uri=uri(db))
        st1, _, ctl1, _ = sc.run_real(p, rng=random.Random(rng.random()), sched=s1)
        k1 = eval_keys(s1, ctl1, p)
        s1.backend.session.close()
        history = "after-run-" + st1
        if kind == "edit":
            edited = rng.randrange(len(p.defs))
            p.versions[edited] = "2"
            history += "+edit%d" % edited
        for i, sp in enumerate(p.specs):
            if sp["key"] in k1 and sp["callee"] != edited:
                pre[i] = "single"
    else:
        s0 = ctl_sched.make_scheduler(None, db_uri=uri(db))
        s0.backend.session.close()
    dba, dbb = db + ".dry", db + ".real"
    shutil.copy(db, dba)
    shutil.copy(db, dbb)
    sa = ctl_sched.make_scheduler(None, limits=p.limits_cfg, db_uri=uri(dba))
    std, vd, ctld, _ = sc.run_real(p, rng=random.Random(rng.random()), dryrun=True, sched=sa)
    sa.backend.session.close()
    sb = ctl_sched.make_scheduler(None, limits=p.limits_cfg, db_uri=uri(dbb))
    strr, vr, ctlr, _ = sc.run_real(p, rng=random.Random(rng.random()), sched=sb)
    sb.backend.session.close()
    for f in (db, dba, dbb):
        try:
            os.remove(f)
        except OSError:
            pass
    p.versions.clear()
    case = {"program": p.to_json(), "history": history, "dry": std, "real": strr, "dry_choices": ctld.choice_log}
    ctx.case(key=(json.dumps(p.to_json(), sort_keys=True), history) if kind != "empty" else None,
             sample={"program": p.to_json(), "history": history, "dry": std, "real": strr, "real_submissions": len(ctlr.submissions)},
             history=kind, dry=std, real=strr, cached_positions=len(pre))
    if ctld.submissions or ctld.calls:
        ctx.violation("C28-dryrun-submits", "a dry run handed a job to an executor / called a task function", case=case,
                      expected=0, actual=len(ctld.submissions), kind="history")
    if std == "ok":
        if strr != "ok" or vr != vd:
            ctx.violation("C28-dryrun-value-differs", "dry run completed but the real run on the same backend returns something else",
                          case=case, expected=repr(vd)[:200], actual=(strr, repr(vr)[:200]), kind="history")
        if ctlr.submissions:
            ctx.violation("C28-complete-dryrun-but-real-run-executes", "dry run completed but the real run submitted jobs", case=case,
                          expected=0, actual=len(ctlr.submissions), kind="history")
    elif std == "dryrun":
        if not ctlr.submissions:
            ctx.violation("C28-dryrun-stops-but-nothing-to-run", "dry run reported additional jobs but the real run executed none",
                          case=case, expected=">= 1 submission", actual=(strr, 0), kind="history")
    items.append((p, ctld, True, pre, case))


# calls that only CSE may serve (cache_scope="CSE") whose twin was replayed from the backend earlier in the same execution:
# the twin is shallower (resolved first in the scheduler's FIFO order) or deeper / later (still unresolved: the CSE-only call runs)
CORPUS = [
    ([(False, [dict(callee=2), dict(callee=1)], None), (False, [dict(callee=2, scope="CSE")], None), (False, [], None)], {}),
    ([(False, [dict(callee=1), dict(callee=2)], None), (False, [dict(callee=2, scope="CSE")], None), (False, [], None)], {}),
    ([(False, [dict(callee=3), dict(callee=1)], None), (False, [dict(callee=2)], None), (False, [dict(callee=3, scope="CSE"), dict(callee=3)], None),
      (False, [], ["r0"])], {"r0": 1}),
    ([(False, [dict(callee=2), dict(callee=1), dict(callee=2, scope="CSE")], None), (False, [dict(callee=2, scope="CSE"), dict(callee=3)], None),
      (False, [dict(callee=3)], None), (False, [], None)], {}),
    ([(False, [dict(callee=2, prov=False), dict(callee=2), dict(callee=1)], None), (False, [dict(callee=2, scope="CSE")], None), (False, [], None)], {}),
]


def with_cse_twin(p, rng):
    """p plus one CSE-only call of a definition that the root also calls directly (twin first or last among the root's calls)"""
    n = len(p.defs)
    if n < 3:
        return p
    c = rng.randrange(2, n)
    holders = [j for j in range(1, c) if not p.defs[j].fails]
    if not holders:
        return p
    j = rng.choice(holders)
    defs = [sc.Defn(d.fails, [sc.Site(**{k: v for k, v in st.__dict__.items()}) for st in d.sites], d.limits, d.reads_ctx) for d in p.defs]
    twin = sc.Site(c)
    if rng.random() < 0.7:
        defs[0].sites.insert(0, twin)
    else:
        defs[0].sites.append(twin)
    if not any(st.callee == j for st in defs[0].sites):
        defs[0].sites.append(sc.Site(j))
    defs[j].sites.append(sc.Site(c, scope=rng.choice(["CSE", "CSE", None])))
    try:
        q = sc.Program(defs, dict(p.limits_cfg))
    except ValueError:
        return p
    return q if sc.feasible(q) else p


_CONN = []


def _conn_class():
    """module-level Handle subclass (picklable, registered once)"""
    if not _CONN:
        from redun import Handle

        class C28Conn(Handle):
            def __init__(self, name, uri, namespace=None):
                self.uri = uri
        C28Conn.__module__ = __name__
        C28Conn.__qualname__ = "C28Conn"
        globals()["C28Conn"] = C28Conn
        _CONN.append(C28Conn)
    return _CONN[0]


def handle_histories(ctx, tmp):
    """oracle only (the scheduler-core model has no Handles): workflows that thread a Handle through their tasks.  The fork of
    a Handle argument enters the job's cache key, so the dry run must derive the same keys as the real run."""
    from redun import Handle, task
    from redun.scheduler import DryRunResult
    ctl_sched.quiet()
    calls = []

    Conn = _conn_class()

    def mk(version):
        @task(namespace="c28h", name="create", version="1")
        def create(conn):
            calls.append("create")
            return conn

        @task(namespace="c28h", name="insert", version=version)
        def insert(conn, n):
            calls.append("insert")
            return conn

        @task(namespace="c28h", name="count", version="1")
        def count(conn, other=None):
            calls.append("count")
            return 3

        @task(namespace="c28h", name="main", version="1")
        def main(shape):
            conn = create(Conn("conn", "db://x"))
            if shape == "chain":
                return count(insert(conn, 3))
            if shape == "fork":
                return [count(insert(conn, 1)), count(insert(conn, 2))]
            return count(insert(conn, 1), other=[insert(conn, 2), {"k": conn}])
        return main

    def one(db, version, shape, dryrun):
        del calls[:]
        sched = ctl_sched.make_scheduler(None, db_uri="sqlite:///" + db)
        try:
            out = ("ok", sched.run(mk(version)(shape), dryrun=dryrun))
        except DryRunResult:
            out = ("dryrun", None)
        except Exception as e:  # noqa: BLE001
            out = ("err", type(e).__name__ + ": " + str(e)[:120])
        sched.backend.session.close()
        return out, list(calls)

    for shape in ("chain", "fork", "nested"):
        for history in ("cached", "edited"):
            db = os.path.join(tmp, "h-%s-%s.db" % (shape, history))
            one(db, "1", shape, False)
            v = "1" if history == "cached" else "2"
            shutil.copy(db, db + ".dry")
            shutil.copy(db, db + ".real")
            (std, vd), dcalls = one(db + ".dry", v, shape, True)
            (strr, vr), rcalls = one(db + ".real", v, shape, False)
            case = {"shape": shape, "history": history, "dry": std, "real": strr, "real_calls": rcalls}
            ctx.case(key=("handles", shape, history), sample=case, history="handles-" + history, dry=std, real=strr)
            if dcalls:
                ctx.violation("C28-dryrun-submits", "a dry run called a task function", case=case, expected=[], actual=dcalls, kind="history")
            if std == "ok" and (strr != "ok" or vr != vd or rcalls):
                ctx.violation("C28-complete-dryrun-but-real-run-executes", "dry run completed but the real run executed tasks or returned "
                              "something else", case=case, expected=(std, repr(vd)), actual=(strr, repr(vr), rcalls), kind="history")
            if std == "dryrun" and not rcalls:
                ctx.violation("C28-dryrun-stops-but-nothing-to-run", "dry run reported additional jobs but the real run executed no task "
                              "(Handle-threading workflow)", case=case, expected=">= 1 task executed", actual=(strr, rcalls), kind="history")


def file_histories(ctx, tmp):
    """oracle only (the scheduler-core model has no external values): cached results that are Files.  After the real run the file
    is deleted / rewritten / left alone; the dry run must make the same validity decision as the real run (it completes iff the
    real run executes nothing)."""
    from redun import File, task
    from redun.scheduler import DryRunResult
    ctl_sched.quiet()
    calls = []
    path = os.path.join(tmp, "c28-data.txt")

    @task(namespace="c28f", name="make_file", version="1")
    def make_file(p, text):
        calls.append("make_file")
        f = File(p)
        f.write(text)
        return f

    @task(namespace="c28f", name="read_file", version="1")
    def read_file(f):
        calls.append("read_file")
        return f.read()

    @task(namespace="c28f", name="main", version="1")
    def main(p, shape):
        f = make_file(p, "hello")
        return read_file(f) if shape == "chain" else [f, read_file(f)]

    def one(db, shape, dryrun):
        del calls[:]
        sched = ctl_sched.make_scheduler(None, db_uri="sqlite:///" + db)
        try:
            out = ("ok", repr(sched.run(main(path, shape), dryrun=dryrun))[:80])
        except DryRunResult:
            out = ("dryrun", None)
        except Exception as e:  # noqa: BLE001
            out = ("err", type(e).__name__ + ": " + str(e)[:120])
        sched.backend.session.close()
        return out, list(calls)

    for shape in ("chain", "list"):
        for change in ("none", "delete", "rewrite", "touch-same"):
            db = os.path.join(tmp, "f-%s-%s.db" % (shape, change))
            if os.path.exists(path):
                os.remove(path)
            one(db, shape, False)
            if change == "delete":
                os.remove(path)
            elif change == "rewrite":
                open(path, "w").write("other text")
            elif change == "touch-same":
                st = os.stat(path)
                open(path, "w").write("hello")
                os.utime(path, (st.st_atime, st.st_mtime))
            shutil.copy(db, db + ".dry")
            shutil.copy(db, db + ".real")
            (std, vd), dcalls = one(db + ".dry", shape, True)
            state = open(path).read() if os.path.exists(path) else None
            (strr, vr), rcalls = one(db + ".real", shape, False)
            case = {"shape": shape, "external_change": change, "file_before_real_run": state, "dry": std, "real": strr, "real_calls": rcalls}
            ctx.case(key=("files", shape, change), sample=case, history="files-" + change, dry=std, real=strr)
            if dcalls or (change != "none" and state is not None and os.path.exists(path) and False):
                ctx.violation("C28-dryrun-submits", "a dry run called a task function", case=case, expected=[], actual=dcalls, kind="history")
            if std == "ok" and (strr != "ok" or vr != vd or rcalls):
                ctx.violation("C28-complete-dryrun-but-real-run-executes", "dry run completed but the real run executed tasks or returned "
                              "something else (cached File result no longer valid)", case=case, expected=(std, vd), actual=(strr, vr, rcalls),
                              kind="history")
            if std == "dryrun" and not rcalls:
                ctx.violation("C28-dryrun-stops-but-nothing-to-run", "dry run reported additional jobs but the real run executed no task "
                              "(File-valued results)", case=case, expected=">= 1 task executed", actual=(strr, rcalls), kind="history")


def run(ctx):
    rng = ctx.rng
    items = []
    tmp = tempfile.mkdtemp(prefix="verif-c28-")
    try:
        handle_histories(ctx, tmp)
        file_histories(ctx, tmp)
        kinds = ["empty", "rerun", "rerun", "edit", "edit"]
        for i in range(ctx.n(30, 500)):
            p = sc.gen_program(rng, p_fail=0.12, p_limits=0.3, allow_badexec=(i % 5 == 0))
            while not sc.feasible(p):       # an infeasible job waits forever in a real run (outside C28's domain)
                p = sc.gen_program(rng, p_fail=0.12, p_limits=0.3, allow_badexec=(i % 5 == 0))
            if i % 3 == 1:
                p = with_cse_twin(p, rng)
            scenario(ctx, p, rng, tmp, items, kinds[i % len(kinds)])
            if len(items) >= 50:
                base.flush(ctx, items)
        for defs, cfg in CORPUS + c06.CORPUS + base.CORPUS:
            p = c06.mk_prog([tuple(d) for d in defs], cfg)
            for kind in ("rerun", "edit"):
                scenario(ctx, p, rng, tmp, items, kind)
        base.flush(ctx, items)
    finally:
        shutil.rmtree(tmp, ignore_errors=True)


def replay(ctx, case):
    print("replay:", json.dumps(case.get("case"))[:400])
    run(ctx)
