"""C10 — remote-executor monitors never lose a submitted job.

Model: lean/RedunModel/Model/Monitor.lean (scheduler thread, monitor threads, Glue submission thread,
coarse arrayer thread; one transition per LINE event of _start/_monitor/stop/_submission_thread and of the
last two lines of _submit; five executors = five `Variant` values).
Tie: harness/ctl_threads.py steps the REAL executor classes (cloud clients faked in-process) line by line
under a schedule; after every step the executed line, every thread's next line and the protocol state
(is_running, pending map, queue, arrayer liveness, done/reject calls) are compared with the model's.
Oracle: at quiescence every submitted job has been reported to the scheduler exactly once."""
import inspect
import os
import re
import shutil
import tempfile
from contextlib import ExitStack
from types import SimpleNamespace as NS

from core import Infra

ID = "C10"
READY = True
LEAN_MODULES = ["RedunModel.Props.C10"]
LEAN_DRIVERS = ["C10"]
THEOREMS = [
    "RedunModel.C10.refuted_docker",
    "RedunModel.C10.refuted_aws_batch",
    "RedunModel.C10.refuted_k8s",
    "RedunModel.C10.refuted_gcp_batch",
    "RedunModel.C10.refuted_glue",
    "RedunModel.C10.refuted_glue_in_hand",
    "RedunModel.C10.conservation",
    "RedunModel.C10.reported_at_most_once",
    "RedunModel.C10.no_lost_job_partial",
    "RedunModel.C10.no_monitor_crash_partial",
    "RedunModel.C10.wf_variants",
    "RedunModel.C10.fault_is_reported",
    "RedunModel.C10.exc_paths",
    "RedunModel.C10.submit_tracks_job",
    "RedunModel.C10.locked_no_lost_job",
]
VARIANTS = ["docker", "batch", "k8s", "gcp", "glue"]

TRUSTED = [
    "atomicity: the unit of interleaving is one sys.monitoring LINE event of _start/_monitor/stop/_submission_thread and of "
    "the job-recording line and the `self._start()` line of _submit; everything a line calls outside those functions "
    "(cloud fakes, _process_job_status, JobArrayer.add_job/stop) belongs to that line's step",
    "the job arrayer is modelled coarsely in this property (add_job atomic, one arrayer step = one poll that hands over "
    "every queued job, stop() ends it); its line-level behaviour is property C11",
    "cloud/container APIs (docker, AWS Batch, K8S, GCP Batch, Glue, S3) are in-process fakes that accept every submission "
    "and report every job as SUCCEEDED at the next poll; their real behaviour is outside the claim",
    "fault injection: the environment step F arms one transient cloud error (botocore ClientError TooManyRequestsException); it is "
    "raised by the next fake parse_job_result call, i.e. inside status processing, after the job has been popped from the "
    "pending map (before the pop for Glue)",
    "AWS Batch reunite path: the fake Batch API lists in-flight jobs of an earlier execution at the first submission only; "
    "their state (RUNNING/SUCCEEDED/FAILED/gone) is changed by environment steps, only before the submission of the matching "
    "job begins; a reunited job completes (or fails, if the old job FAILED) at the next poll",
    "modelled, not verified: Thread.start/is_alive/join, OrderedDict/deque order, `and`/`or` short-circuit in one line",
]
ASSUMPTIONS = [
    "one scheduler thread submits; Executor.stop() is not called from outside during the schedule (only by the monitor "
    "itself); jobs are non-script tasks with default options (one arrayer group; min_array_size larger than the job count "
    "so groups are handed over as single jobs, or min = max = 1 so that a group of n > 1 jobs takes the arrayer's "
    "overflow path: one job per poll, remainder re-queued); job_monitor_interval = 0",
    "interleavings explored by the tie: the directed witness schedules plus pre-emption bounded random schedules",
]
RULE = ("a case = (executor, arrayer max_array_size, number of jobs, schedule over {S, M k, U k, A, F = arm one cloud error}) executed line by line on the real executor "
        "class under harness/ctl_threads.py and on the Lean model; compared after every step: executed line, next line of "
        "every thread, is_running, pending map, queue, arrayer liveness, arrayer.num_pending (= queue length in the model), "
        "done/reject calls. distinct = distinct "
        "(executor, jobs, schedule); non-trivial = at least one context switch while the scheduler thread is between the "
        "recording line and the end of _start or a monitor is on its exit path")
LEVEL_TEXT = ("Proved in Lean: refuted_docker / refuted_aws_batch / refuted_k8s / refuted_gcp_batch / refuted_glue (closed "
              "traces of the line-level model in which a job recorded while the monitor is between its loop test and the "
              "end of stop() is never reported) and refuted_glue_in_hand (the Glue monitor leaves while the submission "
              "thread holds the only job between popleft and running_glue_jobs[...] = job): the target C10_no_lost_job is "
              "FALSE for all five executors as found. conservation / reported_at_most_once: for EVERY variant and every "
              "interleaving a recorded job is in exactly one of queue / pending / in hand / reported (so a lost job stays "
              "visible in the pending map, it is never dropped or double reported). no_lost_job_partial (+ "
              "no_monitor_crash_partial, wf_variants): for Docker, AWS Batch, K8S and GCP Batch that window is the ONLY way "
              "to lose a job — in every interleaving in which no job is recorded while a monitor is between its failed "
              "loop test and the point where _start would start a new thread, nothing is lost and no monitor crashes "
              "(not covered: Glue, which has the second loss mode). fault_is_reported (+ exc_paths): for all five executors "
              "and every interleaving, a job that a status-processing step removed from the pending map before a cloud "
              "call failed (injected throttling error) is always covered by a scheduler-level error "
              "(reject_job(None, error)) raised or about to be raised — never silently dropped. submit_tracks_job: the recording "
              "step of _submit (with or without the reunite path, modelled for AWS Batch) always puts the job into the pending "
              "map or the queue. locked_no_lost_job: the hand-off "
              "done under one lock (monitor: loop test and clearing the flag; submitter: flag test, set, thread start) "
              "loses no job in any interleaving — the specification of the repair. Tie: line-by-line lockstep of the "
              "five real executor classes with the model under controlled schedules.")
LEVEL_NOTE = ("partial: on the unchanged tree the property is violated (known finding family, see findings_proposed/C10.json); "
              "the universally quantified theorems are conservation, the partial theorem (no loss outside the window) and the "
              "repair specification, not the target. The "
              "model cannot exhibit: real cloud latency/failures, script tasks, reunited in-flight jobs, debug (local "
              "docker) mode, external stop(), pre-emption inside a line, and the arrayer's internals (C11): the arrayer is one "
              "coarse thread here; the tie adds a scheduling point between the return of its thread function and the end "
              "of the thread (never reached on the unchanged tree, where that function only returns when stopped), so an "
              "arrayer that winds down on its own is exercised against concurrent submissions by the oracle.")
TECHNIQUE = "Lean 4 line-level interleaving model (5 variants) + closed counter-example traces + sys.monitoring lockstep replay"

SLEEP = "time.sleep(self.interval)"
JOIN = {22: ("stop", "self._thread"), 23: ("stop", "and self._thread.is_alive()"),
        24: ("stop", "and threading.get_ident() != self._thread.ident"), 25: ("stop", "self._thread.join()")}
NEWT = "self._thread = threading.Thread(target=self._monitor, daemon=False)"
EXC = {17: ("_monitor", "except Exception as error:"), 18: ("_monitor", "self._scheduler.reject_job(None, error)")}
SHUT = {19: ("_monitor", 'self.log("Shutting down executor...", level=logging.DEBUG)'), 20: ("_monitor", "self.stop()")}

# label id (Model/Monitor.lean) -> (function, stripped source line)
LABELS = {
    "docker": {
        1: ("_submit", 'self._pending_jobs[docker_resp["jobId"]] = job'), 2: ("_submit", "self._start()"),
        3: ("_start", "os.makedirs(self._scratch_prefix, exist_ok=True)"), 4: ("_start", "if not self._is_running:"),
        5: ("_start", "self._is_running = True"), 6: ("_start", NEWT), 7: ("_start", "self._thread.start()"),
        10: ("_monitor", "assert self._scheduler"), 11: ("_monitor", "try:"),
        12: ("_monitor", "while self._is_running and self._pending_jobs:"),
        13: ("_monitor", "jobs = iter_job_status(self._scratch_prefix, dict(self._pending_jobs))"),
        14: ("_monitor", "for job in jobs:"), 15: ("_monitor", "self._process_job_status(job)"),
        16: ("_monitor", "time.sleep(self._interval)"), **EXC, **SHUT,
        21: ("stop", "self._is_running = False"), **JOIN,
    },
    "batch": {
        1: ("_submit", "self.arrayer.add_job(job)"), 2: ("_submit", "self._start()"),
        36: ("_submit", "self.pending_batch_jobs[batch_job_id] = job"),
        4: ("_start", "if not self.is_running:"), 3: ("_start", "self._aws_user = aws_utils.get_aws_user()"),
        5: ("_start", "self.is_running = True"), 6: ("_start", NEWT), 7: ("_start", "self._thread.start()"),
        10: ("_monitor", "assert self._scheduler"), 8: ("_monitor", "chunk_size = 100"),
        9: ("_monitor", "pending_truncate = 10"), 11: ("_monitor", "try:"),
        12: ("_monitor", "while self.is_running and (self.pending_batch_jobs or self.arrayer.num_pending):"),
        26: ("_monitor", "if self._scheduler.logger.level >= logging.DEBUG:"),
        27: ("_monitor", "jobs = iter_batch_job_status("), 13: ("_monitor", "list(self.pending_batch_jobs.keys()),"),
        28: ("_monitor", "pending_truncate=pending_truncate,"), 29: ("_monitor", "aws_region=self.aws_region,"),
        14: ("_monitor", "for i, job in enumerate(jobs):"), 15: ("_monitor", "self._process_job_status(job)"),
        30: ("_monitor", "if i % chunk_size == 0:"), 31: ("_monitor", SLEEP), 16: ("_monitor", SLEEP), **EXC, **SHUT,
        32: ("stop", "self._docker_executor.stop()"), 33: ("stop", "self.arrayer.stop()"),
        21: ("stop", "self.is_running = False"), **JOIN,
    },
    "k8s": {
        1: ("_submit", "self.arrayer.add_job(job)"), 2: ("_submit", "self._start()"),
        4: ("_start", "if self.is_running:"), 3: ("_start", "return"), 5: ("_start", "self.is_running = True"),
        8: ("_start", "if self.create_namespace:"), 9: ("_start", "self._setup_secrets()"),
        6: ("_start", NEWT), 7: ("_start", "self._thread.start()"),
        10: ("_monitor", "assert self._scheduler"), 11: ("_monitor", "try:"),
        12: ("_monitor", "while self.is_running and (self.pending_k8s_jobs or self.arrayer.num_pending):"),
        26: ("_monitor", "self.log("), 27: ("_monitor", 'f"Preparing {self.arrayer.num_pending} job(s) for Job Arrays.",'),
        28: ("_monitor", "level=logging.DEBUG,"),
        29: ("_monitor", "self.log("), 30: ("_monitor", 'f"Waiting on {len(self.pending_k8s_jobs)} K8S job(s): "'),
        31: ("_monitor", '+ " ".join(sorted(self.pending_k8s_jobs.keys())),'),
        13: ("_monitor", "pending_jobs = list(self.pending_k8s_jobs.keys())"),
        32: ("_monitor", "jobs = k8s_describe_jobs(self._k8s_client, pending_jobs, self.namespace)"),
        14: ("_monitor", "for job in jobs:"), 15: ("_monitor", "self._process_k8s_job_status(job)"),
        16: ("_monitor", SLEEP), 17: EXC[17], 34: ("_monitor", 'self.log("_monitor got exception", level=logging.INFO)'),
        18: EXC[18], **SHUT, 33: ("stop", "self.arrayer.stop()"), 21: ("stop", "self.is_running = False"),
    },
    "gcp": {
        1: ("_submit", "self.arrayer.add_job(job)"), 2: ("_submit", "self._start()"),
        4: ("_start", "if not self._thread or not self._thread.is_alive():"), 5: ("_start", "self.is_running = True"),
        6: ("_start", NEWT), 7: ("_start", "self._thread.start()"),
        10: ("_monitor", "assert self._scheduler"), 8: ("_monitor", "gcp_batch_client = gcp_utils.get_gcp_batch_client()"),
        11: ("_monitor", "try:"),
        12: ("_monitor", "while self.is_running and (self.pending_batch_tasks or self.arrayer.num_pending):"),
        26: ("_monitor", "if self._scheduler.logger.level >= logging.DEBUG:"),
        13: ("_monitor", "task_names = list(self.pending_batch_tasks.keys())"), 14: ("_monitor", "for name in task_names:"),
        27: ("_monitor", "try:"),
        28: ("_monitor", "task = gcp_utils.get_task(client=gcp_batch_client, task_name=name)  # ty: ignore[invalid-argument-type]"),
        15: ("_monitor", "self._process_task_status(task)"), 16: ("_monitor", SLEEP), **EXC, **SHUT,
        35: ("_monitor", "except NotFound:"),
        21: ("stop", "self.is_running = False"), 32: ("stop", "self._docker_executor.stop()"),
        33: ("stop", "self.arrayer.stop()"), **JOIN,
    },
    "glue": {
        1: ("submit", "self.pending_glue_jobs.append(job)"), 2: ("submit", "self._start()"),
        4: ("_start", "if not self.is_running:"), 5: ("_start", "self.is_running = True"),
        8: ("_start", "if not self._monitor_thread.is_alive():"),
        6: ("_start", "self._monitor_thread = threading.Thread(target=self._monitor, daemon=False)"),
        7: ("_start", "self._monitor_thread.start()"), 9: ("_start", "if not self._submit_thread.is_alive():"),
        26: ("_start", "self._submit_thread = threading.Thread(target=self._submission_thread, daemon=False)"),
        27: ("_start", "self._submit_thread.start()"),
        10: ("_monitor", "assert self._scheduler"), 28: ("_monitor", "assert self.glue_job_name"), 11: ("_monitor", "try:"),
        12: ("_monitor", "while self.is_running and (self.running_glue_jobs or self.pending_glue_jobs):"),
        29: ("_monitor", "jobs = glue_describe_jobs("), 13: ("_monitor", "list(self.running_glue_jobs.keys()),"),
        30: ("_monitor", "glue_job_name=self.glue_job_name,"), 31: ("_monitor", "aws_region=self.aws_region,"),
        14: ("_monitor", "for job in jobs:"), 15: ("_monitor", "self._process_job_status(job)"), 16: ("_monitor", SLEEP),
        **EXC, 20: ("_monitor", "self.stop()"), 21: ("stop", "self.is_running = False"),
        40: ("_submission_thread", "assert self._scheduler"), 41: ("_submission_thread", "try:"),
        42: ("_submission_thread", "while self.is_running and self.pending_glue_jobs:"),
        43: ("_submission_thread", "fail_counter = 0"),
        44: ("_submission_thread", "while fail_counter < 5 and self.pending_glue_jobs:"),
        45: ("_submission_thread", "job = self.pending_glue_jobs.popleft()"),
        46: ("_submission_thread", "job_id = self.submit_pending_job(job)"),
        47: ("_submission_thread", "if job_id is None:"),
        48: ("_submission_thread", "self.running_glue_jobs[job_id] = job"),
        49: ("_submission_thread", "time.sleep(self.retry_interval)"),
    },
}
# labels of a monitor's exit path up to the point after which a submission is safe again
EXIT_LABELS = {
    "docker": {19, 20, 21, 17, 18}, "batch": {19, 20, 32, 33, 21, 17, 18}, "k8s": {19, 20, 33, 21, 17, 34, 18},
    "gcp": {19, 20, 21, 32, 33, 22, 23, 24, 25, 35, 17, 18}, "glue": {20, 21, 17, 18},
}
ARR_WAIT = "<arrayer-wait>"
THREAD_EXIT = "<thread-exit>"
FAULT = "<cloud-error-armed>"
ENV = "<cloud-state>"
DRAIN_LIMIT = 3000
STALL_STEPS = 400      # a monitor loop iteration is < 40 lines


# ------------------------------------------------------------------ fakes shared by the rigs
class FakeTask:
    fullname = "ns.t"
    name = "t"
    namespace = "ns"
    script = False
    hash = "h"


class FakeJob:
    def __init__(self, i):
        self.n = i
        self.id = f"j{i}"
        self.task = FakeTask()
        self.args = ((), {})
        self.eval_hash = f"e{i}"
        self.execution = None

    def get_options(self):
        return {}

    def get_option(self, key, default=None):
        return default


class FakeSched:
    def __init__(self):
        self.reported = []      # job numbers in call order (done_job / reject_job(job, ...))
        self.crashes = []       # reject_job(None, error)
        self.logger = NS(level=0)
        self.config = NS(configdir=tempfile.gettempdir())

    def done_job(self, job, result, job_tags=()):
        self.reported.append(job.n)

    def reject_job(self, job, error, error_traceback=None, job_tags=()):
        if job is None:
            self.crashes.append(repr(error)[:120])
        else:
            self.reported.append(job.n)

    def log(self, *a, **k):
        pass

    def add_job_tags(self, *a, **k):
        pass


def lines_matching(fn, pats):
    src, start = inspect.getsourcelines(fn)
    return {start + i for i, ln in enumerate(src) if any(re.search(p, ln) for p in pats)}


ARR_CFG = {"job_monitor_interval": "0", "job_stale_time": "-1", "min_array_size": "9999", "max_array_size": "10000",
           "code_package": "false"}


class Rig:
    """One real executor under the deterministic thread controller."""

    def __init__(self, variant, njobs, arrmax=0, listed=()):
        self.variant = variant
        self.njobs = njobs
        # AWS Batch reunite path: jobs for which the first listing of the Batch queue (gather_inflight_jobs) shows an
        # in-flight Batch job of an earlier execution, and that Batch job's state: R(unning) S(ucceeded) F(ailed) G(one)
        self.listed = [j for j in listed if j < njobs] if variant == "batch" else []
        self.old_status = {j: "R" for j in self.listed}
        self.pre_shown = []
        self.cur_index = 0
        # arrayer max_array_size: 0 = never reached (min 9999 / max 10000: every group goes out as single jobs);
        # 1 = min 1 / max 1: a group of n > 1 jobs is handed over one job per poll, the remainder is re-queued
        # (the overflow path of submit_pending_jobs) — still single-job submissions, so no array-job fakes are needed
        self.arrmax = arrmax if variant in ("batch", "k8s", "gcp") else 0
        self.arr_cfg = dict(ARR_CFG, min_array_size="1", max_array_size="1") if self.arrmax == 1 else ARR_CFG
        self.sched = FakeSched()
        self.stack = ExitStack()
        self.tmp = tempfile.mkdtemp(prefix="verif-c10-")
        self.trace = []
        self.events = []
        self.switches = 0
        self.hit = False
        self.fault_armed = False    # the next parse_job_result (a scratch-store read inside status processing) raises once
        self.faults = 0
        self.fired = 0              # injected errors that were actually raised
        self._last = None
        getattr(self, "_build_" + variant)()
        from ctl_threads import Controller, CtlEvent
        roles = {"_monitor": "M", "_monitor_stale_jobs": "A", "_submission_thread": "U"}
        join_rx = re.compile(r"^self\._thread\.join\(\)")
        self.ctl = Controller(self.targets, role_of=lambda n: roles.get(n, "T"),
                              blockers=[(join_rx, lambda frame, thread: frame.f_locals["self"]._thread.is_alive())],
                              exit_roles={"A"})     # an arrayer thread whose function returns on its own stays alive one more step
        if hasattr(self.ex, "arrayer"):
            self.ex.arrayer._exit_flag = CtlEvent(self.ctl, ARR_WAIT, wake_on_set=True)

    def _error(self, scratch, job, batch_job_metadata=None):
        """fake parse_job_error (status processing of a FAILED cloud job): same injection point as _result"""
        self._result(scratch, job)
        return (RuntimeError("batch job failed"), NS(logs=None))

    def _result(self, scratch, job):
        """fake parse_job_result: the job's result exists — unless the environment has armed a transient cloud error"""
        if self.fault_armed:
            self.fault_armed = False
            self.fired += 1
            from botocore.exceptions import ClientError
            raise ClientError({"Error": {"Code": "TooManyRequestsException", "Message": "Rate exceeded"},
                               "ResponseMetadata": {"HTTPStatusCode": 429}}, "GetObject")
        return ("r", True)

    def _patch(self, obj, name, value):
        old = getattr(obj, name)
        setattr(obj, name, value)
        self.stack.callback(setattr, obj, name, old)

    # -------------------------------------------------------------- the five executors with faked clouds
    def _build_docker(self):
        import redun.executors.docker as m
        from redun.config import Config
        cfg = Config({"x": {"image": "img", "scratch": self.tmp, "job_monitor_interval": "0", "code_package": "false"}})
        self.ex = m.DockerExecutor("x", scheduler=self.sched, config=cfg["x"])
        self._patch(m, "submit_task", lambda image, scratch, job, task, **kw: {"jobId": "c" + job.id, "redun_job_id": job.id})
        self._patch(m, "iter_job_status", lambda scratch, jobs: [{"jobId": k, "status": m.SUCCEEDED, "logs": ""} for k in jobs])
        self._patch(m, "parse_job_result", self._result)
        X = m.DockerExecutor
        self.targets = [(X._submit, lines_matching(X._submit, [r"self\._pending_jobs\[", r"^\s+self\._start\(\)"])),
                        X._start, X._monitor, X.stop]
        self.flag = lambda: self.ex._is_running
        self.pend = lambda: [j.n for j in self.ex._pending_jobs.values()]
        self.queue = lambda: []

    def _arr_queue(self):
        return [j.n for js in self.ex.arrayer.pending.values() for j in js]

    def _build_batch(self):
        import redun.executors.aws_batch as m
        from redun.config import Config
        cfg = Config({"x": {"image": "img", "queue": "q", "s3_scratch": "s3://b/r/", **self.arr_cfg}})
        self.ex = m.AWSBatchExecutor("x", scheduler=self.sched, config=cfg["x"])
        calls = []

        def get_jobs(statuses=None):        # the Batch queue listing: only the first one (resumed workflow) shows old jobs
            calls.append(1)
            return iter([{"jobName": "redun-job-e%d" % j, "jobId": "old%d" % j} for j in self.listed] if len(calls) == 1 else [])

        self.ex.get_jobs = get_jobs
        old = lambda i: self.old_status.get(int(i[3:])) if i.startswith("old") else None  # noqa: E731
        self._patch(m, "aws_describe_jobs", lambda ids, chunk_size=100, aws_region=None: iter(
            [{"jobId": i, "status": {"R": "RUNNING", "S": m.SUCCEEDED, "F": m.FAILED}[old(i)]} for i in ids if old(i) in ("R", "S", "F")]))
        self._patch(m, "parse_job_error", self._error)
        self._patch(m, "parse_job_logs", lambda *a, **k: [])
        self._patch(m.aws_utils, "get_aws_user", lambda *a, **k: "u")
        self._patch(m, "submit_task", lambda image, queue, scratch, job, task, **kw: {"jobId": "b" + job.id, "jobName": "n"})
        self._patch(m, "iter_batch_job_status",
                    lambda ids, pending_truncate=10, aws_region=None: [
                        {"jobId": k, "status": m.FAILED if old(k) == "F" else m.SUCCEEDED} for k in ids])
        self._patch(m, "get_job_log_stream", lambda job, aws_region=None: None)
        self._patch(m, "parse_job_result", self._result)
        X = m.AWSBatchExecutor
        self.targets = [(X._submit, lines_matching(X._submit, [r"self\.arrayer\.add_job\(job\)", r"^\s+self\._start\(\)",
                                                              r"self\.pending_batch_jobs\[batch_job_id\] = job"])),
                        X._start, X._monitor, X.stop]
        self.flag = lambda: self.ex.is_running
        self.pend = lambda: [j.n for j in self.ex.pending_batch_jobs.values()]
        self.queue = self._arr_queue

    def _build_k8s(self):
        import redun.executors.k8s as m
        from redun.config import Config

        class FakeK8SClient:
            core = None
            batch = None

            def version(self):
                return (1, 25)

        self._patch(m.k8s_utils, "K8SClient", FakeK8SClient)
        cfg = Config({"x": {"type": "k8s", "image": "img", "scratch": "s3://b/r/", "create_namespace": "false", **self.arr_cfg}})
        self.ex = m.K8SExecutor("x", scheduler=self.sched, config=cfg["x"])
        self.ex.gather_inflight_jobs = lambda: None
        self._patch(m, "submit_task", lambda client, image, namespace, scratch, job, task, **kw:
                    NS(metadata=NS(uid="u" + job.id, name="k" + job.id)))
        self._patch(m, "k8s_describe_jobs", lambda client, names, namespace: [
            NS(metadata=NS(name=n, uid="u" + n), spec=NS(parallelism=1),
               status=NS(succeeded=1, failed=None, conditions=None, completed_indexes=None)) for n in names])
        self._patch(m, "get_k8s_job_pods", lambda core, name: [])
        self._patch(m.k8s_utils, "delete_job", lambda *a, **k: None)
        self._patch(m, "parse_job_result", self._result)
        X = m.K8SExecutor
        self.targets = [(X._submit, lines_matching(X._submit, [r"self\.arrayer\.add_job\(job\)", r"^\s+self\._start\(\)"])),
                        X._start, X._monitor, X.stop]
        self.flag = lambda: self.ex.is_running
        self.pend = lambda: [j.n for j in self.ex.pending_k8s_jobs.values()]
        self.queue = self._arr_queue

    def _build_gcp(self):
        import redun.executors.gcp_batch as m
        from redun.config import Config
        self._patch(m.gcp_utils, "get_gcp_batch_client", lambda *a, **k: object())
        self._patch(m.gcp_utils, "get_gcp_compute_client", lambda *a, **k: object())
        self._patch(m.gcp_utils, "get_compute_machine_type", lambda *a, **k: NS(memory_mb=16384, guest_cpus=4))
        self._patch(m.gcp_utils, "batch_submit", lambda **kw: NS(task_groups=[NS(name="g-" + kw["job_name"])], uid="u"))
        self._patch(m.gcp_utils, "get_task", lambda client, task_name: NS(name=task_name,
                                                                            status=NS(state=m.TaskStatus.State.SUCCEEDED)))
        self._patch(m, "get_oneshot_command", lambda *a, **k: ["cmd"])
        self._patch(m, "parse_job_result", self._result)
        cfg = Config({"x": {"image": "img", "project": "p", "region": "r", "gcs_scratch": "gs://b/r/",
                            "debug_scratch": self.tmp, **self.arr_cfg}})
        self.ex = m.GCPBatchExecutor("x", scheduler=self.sched, config=cfg["x"])
        self.ex.gather_inflight_jobs = lambda: None
        X = m.GCPBatchExecutor
        self.targets = [(X._submit, lines_matching(X._submit, [r"self\.arrayer\.add_job\(job\)", r"^\s+self\._start\(\)"])),
                        X._start, X._monitor, X.stop]
        self.flag = lambda: self.ex.is_running
        self.pend = lambda: [j.n for j in self.ex.pending_batch_tasks.values()]
        self.queue = self._arr_queue

    def _build_glue(self):
        import redun.executors.aws_glue as m
        from redun.config import Config

        class FakeExc(Exception):
            pass

        self._patch(m.aws_utils, "get_aws_client", lambda *a, **k: NS(exceptions=NS(
            ConcurrentRunsExceededException=FakeExc, ResourceNumberLimitExceededException=FakeExc)))
        self._patch(m, "submit_glue_job", lambda job, task, **kw: {"JobRunId": "r" + job.id})
        self._patch(m, "glue_describe_jobs",
                    lambda ids, glue_job_name=None, aws_region=None: [{"Id": i, "JobRunState": "SUCCEEDED"} for i in ids])
        self._patch(m, "parse_job_result", self._result)
        cfg = Config({"x": {"s3_scratch": self.tmp, "role": "r", "aws_region": "us-west-2", "job_monitor_interval": "0",
                            "job_retry_interval": "0", "code_package": "false"}})
        self.ex = m.AWSGlueExecutor("x", scheduler=self.sched, config=cfg["x"])
        self.ex.glue_job_name = "g"
        self.ex.redun_zip_location = "z"
        self.ex.code_file = object()
        self.ex.gather_inflight_jobs = lambda: None
        X = m.AWSGlueExecutor
        self.targets = [(X.submit, lines_matching(X.submit, [r"self\.pending_glue_jobs\.append\(job\)", r"^\s+self\._start\(\)"])),
                        X._start, X._monitor, X.stop, X._submission_thread]
        self.flag = lambda: self.ex.is_running
        self.pend = lambda: [j.n for j in self.ex.running_glue_jobs.values()]
        self.queue = lambda: [j.n for j in self.ex.pending_glue_jobs]

    # -------------------------------------------------------------- life cycle
    def __enter__(self):
        self.ctl.__enter__()
        ex, jobs = self.ex, [FakeJob(i) for i in range(self.njobs)]

        def submitter():
            for j in jobs:
                self.cur_index = j.n
                ex.submit(j)

        self.ctl.spawn("S", submitter)
        return self

    def __exit__(self, *exc):
        try:
            for attr in ("_is_running", "is_running"):
                if hasattr(self.ex, attr):
                    setattr(self.ex, attr, False)
            if hasattr(self.ex, "arrayer"):
                self.ex.arrayer._exit_flag.set()
            self.ctl.__exit__(*exc)
            stuck = []
            for n in self.ctl.names():
                t = self.ctl._threads[n].thread
                t.join(10)
                if t.is_alive():
                    stuck.append(n)
            if stuck and exc[0] is None:
                raise Infra("C10 rig: thread(s) did not terminate: %s" % stuck)
        finally:
            self.stack.close()
            shutil.rmtree(self.tmp, ignore_errors=True)
        return False

    # -------------------------------------------------------------- observation
    def thread_of(self, ev):
        if ev == "A":
            names = [n for n in self.ctl.names() if n.startswith("A")]
            return names[-1] if names else None
        return ev

    def model_ev(self, ev):
        if ev[0] == "L" and ev[1:].isdigit():
            return "(L i%s)" % ev[1:]
        if ev[0] == "O" and ev[1:-1].isdigit():
            return "(O i%s %s)" % (ev[1:-1], "T" if ev[-1] == "G" else "F")
        return ev if ev in ("S", "A", "F") else "(%s i%s)" % (ev[0], ev[1:])

    def next_label(self, name):
        if name is None or name not in self.ctl.names():
            return None
        w = self.ctl.where(name)
        if w is None:
            return None
        return (w[0], self.ctl.label(name))

    def arr_alive(self):
        a = self.thread_of("A")
        return a is not None and self.ctl.status(a) != "done"

    def enabled(self, ev):
        n = self.thread_of(ev)
        return n is not None and n in self.ctl.names() and self.ctl.enabled(n)

    def enabled_events(self):
        evs = [n for n in self.ctl.names() if not n.startswith("A") and self.ctl.enabled(n)]
        if self.enabled("A"):
            evs.append("A")
        return evs

    @staticmethod
    def _ids(xs):
        return "(" + " ".join("i%d" % x for x in xs) + ")"

    def thread_labels(self, prefix):
        out = []
        for n in self.ctl.names():
            if n.startswith(prefix):
                st = self.ctl.status(n)
                out.append("dead" if st == "done" else self.next_label(n))
        return out

    def state(self):
        tf = lambda b: "T" if b else "F"  # noqa: E731
        return (f"(flag {tf(self.flag())}) (pend {self._ids(self.pend())}) (queue {self._ids(self.queue())}) "
                f"(arr {tf(self.arr_alive())}) (rep {self._ids(self.sched.reported)}) (crash i{len(self.sched.crashes)}) "
                f"(num i{self.num_pending()}) (armed {tf(self.fault_armed)}) (pre {self._ids(self.pre())})")

    def pre(self):
        """jobs with a listed old cloud job that have not been submitted yet (preexisting_batch_jobs); while the schedule's
        leading L events are being replayed to the model only the part announced so far is shown"""
        if self.variant != "batch":
            return []
        if len(self.pre_shown) < len(self.listed):
            return list(self.pre_shown)
        real = [int(h[1:]) for h in self.ex.preexisting_batch_jobs]
        # _submit pops the entry in the lines before its recording line, i.e. already at the end of the previous scheduled
        # step; the model pops it in the recording step: count it as present until that step has run
        ins = (LABELS["batch"][1], LABELS["batch"][36])
        if self.cur_index in self.listed and self.cur_index not in real and self.next_label("S") in ins:
            real = sorted(real + [self.cur_index], key=self.listed.index)
        return real

    def num_pending(self):
        """the counter the monitor loops test next to the pending map (arrayer.num_pending; the queue length elsewhere)"""
        return self.ex.arrayer.num_pending if hasattr(self.ex, "arrayer") else len(self.queue())

    def exiting_monitor(self):
        ex_l = {LABELS[self.variant][i] for i in EXIT_LABELS[self.variant]}
        return any(self.next_label(n) in ex_l for n in self.ctl.names() if n.startswith("M"))

    def do(self, ev):
        if ev[0] in "LO" and ev != "O" and ev[1:2].isdigit():
            j = int(re.match(r"[LO](\d+)", ev).group(1))
            if ev[0] == "L":
                if j not in self.listed or j in self.pre_shown or self.sched.reported or self.events and not self.events[-1].startswith("L"):
                    return False
                self.pre_shown.append(j)
            else:
                # the state of the old cloud job changes; only before the submission of job j has begun (the describe call
                # of _submit happens before its first scheduled line, i.e. at the end of the previous submission)
                if j not in self.listed or j <= self.cur_index:
                    return False
                self.old_status[j] = ev[-1]
            self.events.append(ev)
            self.trace.append((ev, ("", ENV), self.state(), self.next_label("S"), self.thread_labels("M"), self.thread_labels("U")))
            return True
        if ev == "F":
            if self.fault_armed:
                return False
            self.fault_armed = True
            self.faults += 1
            self.events.append(ev)
            self.trace.append((ev, ("", FAULT), self.state(), self.next_label("S"), self.thread_labels("M"), self.thread_labels("U")))
            return True
        if not self.enabled(ev):
            return False
        name = self.thread_of(ev)
        executed = self.next_label(name)
        if ev == "S" and executed in (LABELS[self.variant][1], LABELS[self.variant].get(36)) and self.exiting_monitor():
            self.hit = True
        self.ctl.step(name)
        self.events.append(ev)
        inside = (self.next_label("S") is not None and self.next_label("S") != LABELS[self.variant][1]) or self.exiting_monitor()
        if self._last is not None and self._last != ev and inside:
            self.switches += 1
        self._last = ev
        self.trace.append((ev, executed, self.state(), self.next_label("S"), self.thread_labels("M"), self.thread_labels("U")))
        return True

    def all_done(self):
        return all(self.ctl.status(n) == "done" or n.startswith("A") for n in self.ctl.names())

    def drain(self, limit=None):
        """Run every thread to the end (scheduler first, then submission threads, arrayer when it has work, monitors)."""
        last, same = None, 0
        for _ in range(limit or DRAIN_LIMIT):
            if self.all_done():
                return True
            st = self.state()
            same = same + 1 if st == last else 0
            last = st
            if same >= STALL_STEPS:
                return False        # many monitor loop iterations without any change of the protocol state: no progress
            order = ["S"] + [n for n in self.ctl.names() if n.startswith("U")]
            if self.queue() and hasattr(self.ex, "arrayer"):
                order.append("A")
            order += [n for n in self.ctl.names() if n.startswith("M")]
            for ev in order:
                if self.do(ev):
                    break
            else:
                return False        # nobody enabled: deadlock
        return False


# ------------------------------------------------------------------ model comparison
_STEP_RX = re.compile(r"^\((\S+) (\(flag .*\(crash i\d+\) \(num i-?\d+\) \(armed [TF]\) \(pre \([^)]*\)\)) \(hit ([TF])\) \(S (\S+)\) \(mons ([^)]*)\) \(subs ([^)]*)\) \(lost (\([^)]*\))\)\)$")


def lab(variant, tok):
    if tok == "-":
        return None
    if tok in ("dead", "new"):
        return tok
    return LABELS[variant].get(int(tok[1:]), ("?", "?label-%s" % tok))


def compare(ctx, case, variant, trace, reply, hit=None):
    parts = reply.split(" | ")
    if len(parts) != len(trace) + 1:
        ctx.mismatch("C10 model reply has a different number of steps", case, model=len(parts) - 1, impl=len(trace))
        return False
    for k, (part, (ev, executed, st, snext, mons, subs)) in enumerate(zip(parts, trace)):
        if part == "blocked":
            ctx.mismatch(f"step {k} ({ev}): enabled on the real code, not enabled in the model", case, model="blocked",
                         impl=repr(executed))
            return False
        m = _STEP_RX.match(part)
        if not m:
            raise Infra("C10 driver reply not understood: " + part[:300])
        tok, mst, hit_tok, s_tok, mons_tok, subs_tok, _lost = m.groups()
        want = ("", ARR_WAIT) if ev == "A" else ("", FAULT) if ev == "F" else ("", ENV) if ev[0] in "LO" and ev not in ("O",) and ev[1:2].isdigit() else lab(variant, tok)
        if want != executed:
            ctx.mismatch(f"step {k} ({ev}): executed line differs", case, model=repr(want), impl=repr(executed))
            return False
        if mst != st:
            ctx.mismatch(f"step {k} ({ev}, {executed[1][:40]}): protocol state differs", case, model=mst, impl=st)
            return False
        m_mons = [x for x in (lab(variant, t) for t in mons_tok.split()) if x != "new"]
        m_subs = [x for x in (lab(variant, t) for t in subs_tok.split()) if x != "new"]
        if lab(variant, s_tok) != snext or m_mons != mons or m_subs != subs:
            ctx.mismatch(f"step {k} ({ev}): next lines differ", case, model=f"S:{lab(variant, s_tok)} M:{m_mons} U:{m_subs}",
                         impl=f"S:{snext} M:{mons} U:{subs}")
            return False
    mfin = re.search(r"\(hit ([TF])\)", parts[-1])
    if hit is not None and mfin and (mfin.group(1) == "T") != hit:
        ctx.mismatch("ghost `hit` (a job recorded while a monitor was on its exit path) differs", case, model=mfin.group(1), impl=hit)
        return False
    return True


# ------------------------------------------------------------------ oracle: the property on the real run
def oracle(ctx, case, rig, finished):
    v = rig.variant
    ok = True
    rep = rig.sched.reported
    twice = sorted({j for j in rep if rep.count(j) > 1})
    if twice:
        ctx.violation(f"C10-{v}-reported-twice", f"job(s) {twice} reported to the scheduler more than once", case,
                      expected="once", actual=rep, kind="interleaving")
        ok = False
    if rig.sched.crashes and not rig.fired:
        ctx.violation(f"C10-{v}-monitor-crash", "a monitor thread failed: " + rig.sched.crashes[0], case,
                      expected="no reject_job(None, ...)", actual=rig.sched.crashes, kind="interleaving")
        ok = False
    if not finished and rig.fired and rig.sched.crashes:
        # an injected cloud error fired and the scheduler was told (reject_job(None, error)): the workflow fails loudly; what
        # the remaining threads do afterwards (e.g. a restarted monitor polling for a job stranded in the stopped arrayer)
        # is outside the property
        pass
    elif not finished and not case.get("partial"):
        missing = sorted(set(range(rig.njobs)) - set(rep))
        stuck = bool(rig.queue()) and hasattr(rig.ex, "arrayer") and not rig.arr_alive()
        ctx.violation(f"C10-{v}-job-stuck-in-dead-arrayer" if stuck else f"C10-{v}-never-quiescent",
                      f"job(s) {missing} not reported: " + ("the job arrayer's thread has ended with the job still queued and "
                      "add_job()/start() did not restart it, the executor's monitor polls forever " if stuck else
                      "the threads keep running without progress ") +
                      f"(no change of the protocol state for {STALL_STEPS} steps, drain limit {DRAIN_LIMIT}) although the fake API completes every job at the next poll "
                      f"(is_running={rig.flag()}, pending={rig.pend()}, queue={rig.queue()})", case,
                      expected="every submitted job reported as done or failed", actual=dict(reported=rep), kind="interleaving")
        ok = False
    if finished:
        recorded = rig.pend() + rig.queue() + rep
        lost = sorted(set(range(rig.njobs)) - set(rep))
        if lost and rig.fired and rig.sched.crashes:
            lost = []           # a cloud error was injected and the scheduler was told (reject_job(None, error)): the workflow fails loudly
        if lost:
            untracked = [j for j in lost if j not in recorded]
            if untracked and not rig.fired:
                sig, why = f"C10-{v}-submitted-job-not-tracked", (
                    f"submit() returned normally for job(s) {untracked} but they are neither in the pending map nor in the "
                    "arrayer: no thread will ever report them")
            elif rig.fired:
                sig, why = f"C10-{v}-silently-dropped-on-cloud-error", (
                    "a transient cloud error (throttling) during status processing was swallowed: the job had been taken out "
                    "of the pending map, nothing was reported and no scheduler-level error was raised")
            elif rig.hit:
                sig, why = f"C10-{v}-submit-in-exit-window", "a job recorded while the monitor was between its loop test and the end of stop()"
            elif v == "glue":
                sig, why = "C10-glue-in-hand-at-loop-exit", "the monitor left while the submission thread held a job between popleft and running_glue_jobs[...] = job"
            else:
                sig, why = f"C10-{v}-lost-job", "no thread is left to report it"
            ctx.violation(sig, f"job(s) {lost} submitted but never reported ({why}); all threads have ended, "
                          f"is_running={rig.flag()}, pending={rig.pend()}, queue={rig.queue()}", case,
                          expected="every submitted job reported as done or failed", actual=dict(reported=rep, recorded=recorded),
                          kind="interleaving")
            ok = False
    return ok


# ------------------------------------------------------------------ schedules
def directed(rig, script):
    """items: (thread, 'run') | (thread, 'n', k) | (thread, 'until', {label ids}) ; thread 'M' = latest monitor, 'U' = latest sub"""
    v = rig.variant
    for item in script:
        who = item[0]

        def name():
            if who in ("M", "U"):
                ns = [n for n in rig.ctl.names() if n.startswith(who)]
                return ns[-1] if ns else None
            return who
        if item[1] == "run":
            for _ in range(2000):
                if name() is None or not rig.do(name()):
                    break
        elif item[1] == "n":
            for _ in range(item[2]):
                if name() is None or not rig.do(name()):
                    break
        elif item[1] == "untilexit":        # step until the thread's function has returned (at most k steps)
            for _ in range(item[2]):
                n = name()
                if n is None or rig.next_label(rig.thread_of(n)) == ("", THREAD_EXIT) or not rig.do(n):
                    break
        elif item[1] == "until":
            stop = {LABELS[v][i] for i in item[2]}
            for _ in range(2000):
                n = name()
                if n is None:
                    break
                nl = rig.next_label(rig.thread_of(n))
                if nl is None or nl in stop:
                    break
                if not rig.do(n):
                    break


def witness_scripts():
    """Directed schedules of the model's counter-examples (Props/C10.lean refuted_*): job 0 is submitted and completed,
    the monitor takes its loop test with nothing pending, job 1 is submitted before the monitor's stop() has finished."""
    out = []
    for v in VARIANTS:
        first = 20 if v == "glue" else 19          # first line after the loop
        pre = [("S", "until", {1})] if False else []
        script = pre + [("S", "n", 1), ("S", "until", {1})]          # submit(job 0) completely, stop before recording job 1
        if v in ("batch", "k8s", "gcp"):
            script += [("A", "n", 1)]
        if v == "glue":
            script += [("U", "run")]
        script += [("M", "until", {first}),                           # job 0 reported; loop test failed; not yet in stop()
                   ("S", "run"),                                      # submit(job 1): sees the monitor as running
                   ("M", "run"), ("U", "run")]
        out.append(dict(name=v + "-window", variant=v, njobs=2, signature=f"C10-{v}-submit-in-exit-window", script=script))
    # arrayer thread life cycle (its function never returns on its own in the code as found): a submission between the
    # return of _monitor_stale_jobs and the end of that thread must still reach the API
    for v in ("batch", "k8s", "gcp"):
        out.append(dict(name=v + "-arrayer-wind-down", variant=v, njobs=3, signature=None,
                        script=[("S", "n", 1), ("S", "until", {1}), ("A", "n", 1), ("A", "untilexit", 3),
                                ("S", "n", 1), ("S", "until", {1}), ("A", "n", 2)]))
    # oversized group (more jobs of one description than max_array_size): the first slice is registered and completes
    # at once while the remainder is still queued in the arrayer; the monitor must stay (arrayer.num_pending counts it)
    for v in ("batch", "k8s", "gcp"):
        out.append(dict(name=v + "-oversized-group", variant=v, njobs=3, arrmax=1, signature=None,
                        script=[("S", "run"), ("A", "n", 1), ("M", "n", 150)]))
        out.append(dict(name=v + "-oversized-group-interleaved", variant=v, njobs=4, arrmax=1, signature=None,
                        script=[("S", "n", 1), ("S", "until", {1}), ("S", "n", 1), ("S", "until", {1}), ("A", "n", 1),
                                ("M", "n", 60), ("S", "run"), ("A", "n", 1), ("M", "n", 150)]))
    # AWS Batch reunite path: the first listing shows an in-flight Batch job of an earlier execution for a later job; its
    # state changes (or not) between that listing and the job's submission; the job must be tracked either way
    for st in "RSFG":
        out.append(dict(name="batch-reunite-" + st, variant="batch", njobs=3, listed=[1], signature=None,
                        script=[("O1" + st, "n", 1), ("S", "run"), ("A", "n", 1), ("M", "run")]))
    out.append(dict(name="batch-reunite-late-F", variant="batch", njobs=3, listed=[2], signature=None,
                    script=[("S", "n", 1), ("S", "until", {1, 36}), ("M", "n", 12), ("O2F", "n", 1), ("S", "run"),
                            ("A", "n", 1), ("M", "run")]))
    out.append(dict(name="batch-reunite-first-and-last", variant="batch", njobs=3, listed=[0, 2], signature=None,
                    script=[("O2F", "n", 1), ("S", "run"), ("A", "n", 1), ("M", "run")]))
    # one transient cloud error (throttling) inside status processing: the job is reported or the scheduler is told
    for v in VARIANTS:
        warm = [("S", "run")] + ([("A", "n", 1)] if v in ("batch", "k8s", "gcp") else []) + ([("U", "run")] if v == "glue" else [])
        out.append(dict(name=v + "-cloud-error-first-job", variant=v, njobs=2, signature=None,
                        script=warm + [("F", "n", 1), ("M", "run")]))
        out.append(dict(name=v + "-cloud-error-last-job", variant=v, njobs=2, signature=None,
                        script=warm + [("M", "until", {15}), ("M", "n", 1), ("M", "until", {15}), ("F", "n", 1), ("M", "run")]))
    out.append(dict(name="glue-in-hand", variant="glue", njobs=1, signature="C10-glue-in-hand-at-loop-exit",
                    script=[("S", "run"), ("U", "until", {46}),        # popleft done, job in hand
                            ("M", "run"), ("U", "run")]))
    return out


def random_schedule(rig, rng, nsteps):
    cur = "S"
    stick = rng.choice([0.3, 0.6, 0.8, 0.9])
    inject = rng.random() < 0.25          # one transient cloud error at a random moment
    adversarial = rng.random() < 0.5     # prefer the scheduler thread while a monitor is on its exit path, and
    for _ in range(nsteps):               # a monitor while a Glue submission thread holds a job
        evs = rig.enabled_events()
        if not evs:
            break
        if adversarial and rng.random() < 0.7:
            if "S" in evs and rig.next_label(rig.thread_of("A")) == ("", THREAD_EXIT):
                rig.do("S")         # add_job + start() while the arrayer thread is winding down
                cur = "S"
                continue
            if "S" in evs and rig.exiting_monitor():
                rig.do("S")
                cur = "S"
                continue
            holding = any((rig.next_label(n) or ("", ""))[1].startswith(("job_id = self.submit_pending_job", "if job_id is None"))
                          for n in rig.ctl.names() if n.startswith("U"))
            ms = [e for e in evs if e.startswith("M")]
            if holding and ms:
                cur = ms[-1]
                rig.do(cur)
                continue
        later = [j for j in rig.listed if j > rig.cur_index]
        if later and rng.random() < 0.06:
            rig.do("O%d%s" % (rng.choice(later), rng.choice("RSFG")))
            continue
        if inject and rng.random() < 0.03:
            rig.do("F")
            inject = False
            continue
        if cur not in evs or rng.random() > stick:
            weights = [0.3 if e == "A" and not rig.queue() else 1.0 for e in evs]
            cur = rng.choices(evs, weights)[0]
        rig.do(cur)


def exec_case(ctx, variant, njobs, script=None, rng=None, nsteps=0, events=None, tags=None, arrmax=0, listed=()):
    with Rig(variant, njobs, arrmax, listed) as rig:
        if events is None:
            for j in rig.listed:
                rig.do("L%d" % j)
        if events is not None:
            for ev in events:
                rig.do(ev)
            finished = rig.all_done()
            if not finished:
                finished = rig.drain()
        else:
            if script is not None:
                directed(rig, script)
            else:
                random_schedule(rig, rng, nsteps)
            finished = rig.drain()
        full = dict(variant=variant, njobs=njobs, arrmax=rig.arrmax, listed=list(rig.listed), sched=list(rig.events))
        ok = oracle(ctx, full, rig, finished)
        req = "run %s i%d (%s) (%s)" % (variant, rig.arrmax, " ".join("i%d" % i for i in range(njobs)), " ".join(rig.model_ev(e) for e in rig.events))
        rec = dict(full=full, ok=ok, trace=rig.trace, switches=rig.switches, hit=rig.hit, request=req, tags=tags or {},
                   lost=sorted(set(range(njobs)) - set(rig.sched.reported)) if finished else [], finished=finished)
    return rec


def finish_cases(ctx, recs):
    replies = ctx.model("C10", [r["request"] for r in recs])
    for r, reply in zip(recs, replies):
        if reply in ("bad-op", "bad-value"):
            raise Infra("C10 driver rejected the request: " + reply)
        full = r["full"]
        r["same"] = compare(ctx, full, full["variant"], r["trace"], reply, hit=r["hit"])
        key = (full["variant"], full["njobs"], full["arrmax"], tuple(full["sched"])) if r["switches"] > 0 else None
        ctx.case(key=key, sample={"executor": full["variant"], "jobs": full["njobs"], "steps": len(r["trace"]),
                                  "switches": r["switches"], "lost": r["lost"]},
                 executor=full["variant"], steps=min(len(r["trace"]) // 50 * 50, 500), njobs=full["njobs"],
                 switches=min(r["switches"], 20), outcome="lost" if r["lost"] else "ok", **r["tags"])


def run(ctx):
    rng = ctx.rng
    recs = []
    for w in witness_scripts():
        r = exec_case(ctx, w["variant"], w["njobs"], script=w["script"], tags=dict(kind="witness-" + w["name"]),
                      arrmax=w.get("arrmax", 0), listed=w.get("listed", ()))
        recs.append(r)
        if w["signature"] is None:
            continue
        if r["ok"]:     # the model's counter-example no longer fails on the implementation: the model is stale
            ctx.expect_known(w["signature"], False, r["full"], "witness " + w["name"])
            if not any(k.get("signature") == w["signature"] for k in ctx.known):
                ctx.mismatch("witness " + w["name"] + " (Props/C10.lean refuted_*) no longer loses a job on the implementation",
                             r["full"], model="job lost", impl="all jobs reported", signature=w["signature"])
    n = ctx.n(65, 1500)
    for i in range(n):
        if ctx.elapsed() > (60 if ctx.tier == "quick" else 420):
            ctx.note(f"time budget reached after {i} random cases")
            break
        v = VARIANTS[i % len(VARIANTS)]
        am = 1 if v in ("batch", "k8s", "gcp") and rng.random() < 0.4 else 0
        nj = rng.choice([1, 2, 2, 3, 4])
        ls = [j for j in range(nj) if rng.random() < 0.4] if v == "batch" and rng.random() < 0.5 else []
        recs.append(exec_case(ctx, v, nj, rng=rng, nsteps=rng.choice([30, 60, 120, 250]),
                              tags=dict(kind="random", arrmax=am, listed=len(ls)), arrmax=am, listed=ls))
    finish_cases(ctx, recs)


def replay(ctx, case):
    c = case.get("case") or {}
    if not c.get("sched"):
        ctx.note("replay file has no schedule; running the normal check")
        return run(ctx)
    r = exec_case(ctx, c["variant"], c["njobs"], events=c["sched"], tags=dict(kind="replay"), arrmax=c.get("arrmax", 0),
                  listed=c.get("listed", ()))
    finish_cases(ctx, [r])
    print("replay:", "no job lost on this schedule" if r["ok"] else "property VIOLATED on this schedule (lost %s)" % r["lost"],
          "| model agrees" if r["same"] else "| model DISAGREES")
