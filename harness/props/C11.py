"""C11 — the job arrayer hands off every job exactly once.

Model: lean/RedunModel/Model/Arrayer.lean (two threads, one transition per LINE event of
add_job / start / _monitor_stale_jobs / get_stale_descrs / submit_pending_jobs).
Tie: harness/ctl_threads.py steps the real JobArrayer line by line under a schedule; after every
step the executed line, both threads' next lines and the arrayer's whole state are compared with
the model's.  Oracle: the property statement on what the real code did (submit/on_error callbacks,
num_pending at quiescence)."""
import dis
import os
import re

from core import Infra

ID = "C11"
READY = True
LEAN_MODULES = ["RedunModel.Props.C11"]
LEAN_DRIVERS = ["C11"]
THEOREMS = [
    "RedunModel.C11.exactly_once",
    "RedunModel.C11.never_dropped",
    "RedunModel.C11.submitted_at_most_once",
    "RedunModel.C11.batch_shape",
    "RedunModel.C11.no_deadlock",
    "RedunModel.C11.monitor_never_fails",
    "RedunModel.C11.count_exact",
    "RedunModel.C11.refuted_keyerror",
    "RedunModel.C11.refuted_dict_resize",
    "RedunModel.C11.refuted_lost_update",
]
# which variant of the model the real code is compared with: "fix" = get_stale_descrs and the
# num_pending decrement under self._lock (the proposed repair), "cur" = the code as found.
MODEL_CFG = os.environ.get("VERIF_C11_MODEL", "fix")

TRUSTED = [
    "atomicity: the unit of interleaving is one sys.monitoring LINE event of the modelled JobArrayer methods (calls into "
    "other code, e.g. the submit callback, belong to the calling line's step); the unlocked `num_pending -= len(jobs)` is "
    "additionally split into read and write (bytecode STORE_ATTR) in the model of the code as found",
    "modelled, not verified: dict insertion order and `dictionary changed size during iteration`, defaultdict, "
    "threading.Lock mutual exclusion, Thread.is_alive, list slicing",
    "time.time is replaced by a controlled counter; the submit_jobs/on_error callbacks are recording fakes that do not raise",
]
ASSUMPTIONS = [
    "add_job is called from one thread only (in redun: the scheduler thread); stop() is not called concurrently",
    "min_array_size <= max_array_size (the constructor rejects anything else); the submit callback does not raise",
    "interleavings explored by the tie are pre-emption bounded random schedules plus the directed witness schedules; "
    "the theorems cover all interleavings of the model",
]
RULE = ("a case = (min,max,stale_time, job stream with descriptions/script flags, schedule over {S step, M step, clock tick}) "
        "executed line by line on the real JobArrayer under harness/ctl_threads.py and on the Lean model; compared after every "
        "step: executed line, next line of both threads, pending, pending_timestamps, num_pending, lock owner, submitted "
        "batches, on_error calls. distinct = distinct (params, jobs, schedule); non-trivial = at least one context switch "
        "while a thread is inside add_job or submit_pending_jobs/get_stale_descrs")
LEVEL_TEXT = ("Proved in Lean for ALL interleavings, job streams and size bounds of the line-level two-thread model: "
              "exactly_once / never_dropped / submitted_at_most_once (every added job is in exactly one of pending, the "
              "monitor's hands, submitted; a dead monitor holds nothing) and batch_shape (homogeneous, <= max, 1 or >= min) "
              "for BOTH the code as found and the repaired code; monitor_never_fails and count_exact (num_pending = jobs "
              "not yet handed off whenever the monitor is between polls and the adder between calls) for the repaired "
              "code (scan and decrement under the lock). refuted_keyerror / refuted_dict_resize / refuted_lost_update are "
              "closed counter-example traces on the model of the code as found. Tie: line-by-line lockstep of the real "
              "JobArrayer with the model under controlled schedules.")
LEVEL_NOTE = ("partial with respect to the runtime: real pre-emption happens between bytecodes, the model and the tie "
              "pre-empt between lines (plus the read/write split of the unlocked decrement); liveness (a stale group is "
              "eventually submitted) is exercised by the tie's drain phase, not proved; stop()/exit-flag handling and "
              "several adding threads are outside the model.")
TECHNIQUE = "Lean 4 invariants over a line-level interleaving model + sys.monitoring lockstep replay"

# ------------------------------------------------------------------ model pc -> (function, stripped source line)
LABELS = {
    "a158": ("add_job", "if job.task.script or not self.min_array_size:"),
    "a159": ("add_job", "self._submit_jobs([job])"),
    "a160": ("add_job", "return"),
    "a162": ("add_job", "descr = JobDescription(job)"),
    "a163": ("add_job", "with self._lock:"),
    "a164": ("add_job", "self.pending[descr].append(job)"),
    "a165": ("add_job", "self.pending_timestamps[descr] = time.time()"),
    "a166": ("add_job", "self.num_pending += 1"),
    "a163x": ("add_job", "with self._lock:"),
    "a168": ("add_job", "self.start()"),
    "s136": ("start", "if not self.min_array_size:"),
    "s137": ("start", "return"),
    "s139": ("start", "if self._monitor_thread.is_alive():"),
    "s140": ("start", "return"),
    "s144": ("start", "self._exit_flag.clear()"),
    "s145": ("start", "self._monitor_thread = threading.Thread(target=self._monitor_stale_jobs, daemon=True)"),
    "s146": ("start", "self._monitor_thread.start()"),
    "m122": ("_monitor_stale_jobs", "try:"),
    "m123": ("_monitor_stale_jobs", "while not self._exit_flag.wait(timeout=self.interval):"),
    "m124": ("_monitor_stale_jobs", "stales = self.get_stale_descrs()"),
    "g172": ("get_stale_descrs", "currtime = time.time()"),
    "gLock": ("get_stale_descrs", "with self._lock:"),
    "g175a": ("get_stale_descrs", "for descr in self.pending"),
    "g173a": ("get_stale_descrs", "stales = ["),
    "g175b": ("get_stale_descrs", "for descr in self.pending"),
    "g176": ("get_stale_descrs", "if (currtime - self.pending_timestamps[descr] > self.stale_time)"),
    "g174": ("get_stale_descrs", "descr"),
    "g173b": ("get_stale_descrs", "stales = ["),
    "g173e": ("get_stale_descrs", "stales = ["),
    "gUnlock": ("get_stale_descrs", "with self._lock:"),
    "gUnlockE": ("get_stale_descrs", "with self._lock:"),
    "g178": ("get_stale_descrs", "return stales"),
    "m126": ("_monitor_stale_jobs", "for descr in stales:"),
    "m127": ("_monitor_stale_jobs", "self.submit_pending_jobs(descr)"),
    "p183": ("submit_pending_jobs", "with self._lock:"),
    "p184": ("submit_pending_jobs", "jobs = self.pending.pop(descr)"),
    "p185": ("submit_pending_jobs", "timestamp = self.pending_timestamps.pop(descr)"),
    "p183x": ("submit_pending_jobs", "with self._lock:"),
    "p183xE": ("submit_pending_jobs", "with self._lock:"),
    "p188": ("submit_pending_jobs", "if len(jobs) > self.max_array_size:"),
    "p189": ("submit_pending_jobs", "remainder = jobs[self.max_array_size :]"),
    "p190": ("submit_pending_jobs", "jobs = jobs[: self.max_array_size]"),
    "p191": ("submit_pending_jobs", "self._submit_jobs(jobs)"),
    "p193": ("submit_pending_jobs", "with self._lock:"),
    "p194": ("submit_pending_jobs", "self.pending[descr].extend(remainder)"),
    "p195": ("submit_pending_jobs", "self.pending_timestamps[descr] = timestamp"),
    "p193x": ("submit_pending_jobs", "with self._lock:"),
    "p197": ("submit_pending_jobs", "elif len(jobs) < self.min_array_size:"),
    "p198": ("submit_pending_jobs", "for job in jobs:"),
    "p199": ("submit_pending_jobs", "self._submit_jobs([job])"),
    "p201": ("submit_pending_jobs", "self._submit_jobs(jobs)"),
    "pdLock": ("submit_pending_jobs", "with self._lock:"),
    "p203": ("submit_pending_jobs", "self.num_pending -= len(jobs)"),
    "p203w": ("submit_pending_jobs", "<split>"),
    "pdUnlock": ("submit_pending_jobs", "with self._lock:"),
    "m128": ("_monitor_stale_jobs", "except Exception as error:"),
    "m132": ("_monitor_stale_jobs", "self._on_error(error)"),
    "mExit": ("", "<thread-exit>"),     # target function returned, Thread.is_alive() still True
    "done": None, "none": None, "dead": None,
}


# ------------------------------------------------------------------ fakes
class FakeTask:
    def __init__(self, script):
        self.fullname = "ns.task"
        self.script = script


class FakeJob:
    def __init__(self, jid, descr, script):
        self.jid = jid
        self.descr = descr
        self.task = FakeTask(script)

    def get_options(self):
        return {"d": self.descr}

    def __repr__(self):
        return f"J{self.jid}"


class FakeTimeModule:
    """stands in for the `time` module inside redun.job_array"""

    def __init__(self):
        self.now = 0

    def time(self):
        return self.now


def ids(jobs):
    return "(" + " ".join("i%d" % j.jid for j in jobs) + ")"


class Rig:
    """One real JobArrayer under the deterministic thread controller."""

    def __init__(self, params, jobs, split_dec):
        import redun.job_array as ja
        from ctl_threads import Controller, CtlLock, lock_blocker
        self.ja = ja
        self.params = params
        self.jobs = [FakeJob(*j) for j in jobs]
        self.clock = FakeTimeModule()
        self._orig_time = ja.time
        ja.time = self.clock
        self.submitted = []
        self.errors = []
        mn, mx, st = params
        self.arr = ja.JobArrayer(lambda js: self.submitted.append(list(js)), lambda e: self.errors.append(e),
                                 submit_interval=0.0, stale_time=st, min_array_size=mn, max_array_size=mx)
        self.arr._lock = CtlLock()
        JA = ja.JobArrayer
        targets = [JA.add_job, JA.start, JA._monitor_stale_jobs, JA.get_stale_descrs, JA.submit_pending_jobs]
        split = {}
        self.split_label = None
        if split_dec:
            offs = [i.offset for i in dis.get_instructions(JA.submit_pending_jobs)
                    if i.opname == "STORE_ATTR" and i.argval == "num_pending"]
            if len(offs) == 1:
                split = {JA.submit_pending_jobs: offs}
                self.split_label = f"<split@{offs[0]}>"
        self.ctl = Controller(targets, role_of=lambda n: "M", blockers=[lock_blocker("_lock")], split=split,
                              exit_roles={"M"})
        self.sched = []         # concrete schedule executed so far: "S", "M", ("T", n)
        self.trace = []         # per step: (thread, (func, text) executed, state string, S next, M next)
        self.switches = 0
        self._last = None

    def __enter__(self):
        self.ctl.__enter__()
        arr, jobs = self.arr, self.jobs

        def adder():
            for j in jobs:
                arr.add_job(j)

        self.ctl.spawn("S", adder)
        return self

    def __exit__(self, *exc):
        try:
            self.arr._exit_flag.set()
            self.ctl.__exit__(*exc)
            for n in self.ctl.names():
                self.ctl._threads[n].thread.join(10)
        finally:
            self.ja.time = self._orig_time
        return False

    # -------------------------------------------------------------- observation
    def mon_name(self):
        ms = [n for n in self.ctl.names() if n.startswith("M")]
        return ms[-1] if ms else None

    def thread_of(self, letter):
        return "S" if letter == "S" else self.mon_name()

    def next_label(self, letter):
        n = self.thread_of(letter)
        if n is None:
            return None
        w = self.ctl.where(n)
        if w is None:
            return None
        lab = self.ctl.label(n)
        if lab == self.split_label:
            lab = "<split>"
        return (w[0], lab)

    def enabled(self, letter):
        n = self.thread_of(letter)
        return n is not None and self.ctl.enabled(n)

    def state(self):
        a = self.arr
        pend = " ".join("(i%d %s)" % (d.options["d"], ids(js)) for d, js in a.pending.items())
        ts = " ".join("(i%d i%d)" % (d.options["d"], t) for d, t in a.pending_timestamps.items())
        o = a._lock.owner
        lock = "N" if o is None else ("S" if o is self.ctl._threads["S"].thread else "M")
        sub = " ".join(ids(b) for b in self.submitted)
        err = " ".join(type(e).__name__ for e in self.errors)
        started = len([n for n in self.ctl.names() if n.startswith("M")])
        return f"(pend ({pend})) (ts ({ts})) (num i{a.num_pending}) (lock {lock}) (sub ({sub})) (err ({err}))", started

    # -------------------------------------------------------------- stepping
    def do(self, ev):
        """ev: 'S' | 'M' | ('T', n).  Returns False if the thread is not enabled (nothing executed)."""
        if isinstance(ev, tuple):
            self.clock.now += ev[1]
            self.sched.append(ev)
            st, started = self.state()
            self.trace.append(("T", ("", "tick"), st, started, self.next_label("S"), self.next_label("M")))
            return True
        if not self.enabled(ev):
            return False
        executed = self.next_label(ev)
        self.ctl.step(self.thread_of(ev))
        # on the repaired code the decrement is atomic in the model: merge the split point into the line
        if MODEL_CFG == "fix" and self.next_label(ev) is not None and self.next_label(ev)[1] == "<split>":
            self.ctl.step(self.thread_of(ev))
        self.sched.append(ev)
        if self._last is not None and self._last != ev and self._mid(self._last):
            self.switches += 1
        self._last = ev
        st, started = self.state()
        self.trace.append((ev, executed, st, started, self.next_label("S"), self.next_label("M")))
        return True

    def _mid(self, letter):
        lab = self.next_label(letter)
        if lab is None:
            return False
        return not (lab[0] == "add_job" and lab[1].startswith("if job.task.script")) and \
            not (lab[0] == "_monitor_stale_jobs" and lab[1].startswith(("while not", "try:")))

    def quiescent(self):
        s, m = self.next_label("S"), self.next_label("M")
        return s is None and (m is None or m[1].startswith("while not self._exit_flag.wait"))

    def drain(self, limit=4000):
        """Let the adder finish, make everything stale, let the monitor hand everything off."""
        n = 0
        while self.next_label("S") is not None and n < limit:
            if not self.do("S"):
                if not self.do("M"):
                    raise Infra("C11 rig: deadlock while draining")
            n += 1
        self.do(("T", 10 ** 6))
        last = None
        while n < limit:
            if self.quiescent():
                if self.next_label("M") is None or not self.arr.pending:
                    break
                if last is not None and last == len(self.submitted):
                    break               # a whole poll without progress although everything is stale
                last = len(self.submitted)
            if not self.do("M"):
                break
            n += 1
        return n < limit


# ------------------------------------------------------------------ model side
def model_request(params, jobs, sched):
    mn, mx, st = params
    js = " ".join("(i%d i%d %s)" % (i, d, "T" if sc else "F") for i, d, sc in jobs)
    sc = " ".join(e if isinstance(e, str) else "(T i%d)" % e[1] for e in sched)
    return f"run {MODEL_CFG} (i{mn} i{mx} i{st}) ({js}) ({sc})"


_STATE_RX = re.compile(r"^\((\w+) (.*) \(ad (\w+)\) \(mon (\w+)\) \(started i(\d+)\)\)$")


def compare(ctx, case, rig_trace, reply):
    parts = reply.split(" | ")
    if len(parts) != len(rig_trace) + 1:
        ctx.mismatch("C11 model reply has a different number of steps", case, model=len(parts) - 1, impl=len(rig_trace))
        return False
    for k, (part, (ev, executed, st, started, snext, mnext)) in enumerate(zip(parts, rig_trace)):
        if part == "blocked":
            ctx.mismatch(f"step {k}: enabled on the real code, blocked in the model", case, model="blocked", impl=repr(executed))
            return False
        m = _STATE_RX.match(part)
        if not m:
            raise Infra("C11 driver reply not understood: " + part[:200])
        pc, mst, adpc, monpc, mstarted = m.groups()
        want = ("", "tick") if pc == "tick" else LABELS.get(pc)
        if want != executed:
            ctx.mismatch(f"step {k}: executed line differs", case, model=f"{pc} {want}", impl=repr(executed))
            return False
        if mst != st or int(mstarted) != started:
            ctx.mismatch(f"step {k} ({pc}): state differs", case, model=mst + f" started={mstarted}", impl=st + f" started={started}")
            return False
        if LABELS.get(adpc) != snext or LABELS.get(monpc) != mnext:
            ctx.mismatch(f"step {k} ({pc}): next lines differ", case, model=f"S:{LABELS.get(adpc)} M:{LABELS.get(monpc)}",
                         impl=f"S:{snext} M:{mnext}")
            return False
    return True


# ------------------------------------------------------------------ oracle (the property statement on the real run)
def oracle(ctx, case, rig, drained):
    params, jobs = case["params"], case["jobs"]
    mn, mx, _ = params
    descr_of = {i: d for i, d, _ in jobs}
    script_of = {i: sc for i, d, sc in jobs}
    ok = True
    if rig.errors:
        kind = type(rig.errors[0]).__name__
        ctx.violation(f"C11-monitor-fails-{kind}", "the array monitor thread failed (on_error called): " + repr(rig.errors[0])[:120],
                      case, expected="no on_error call", actual=[repr(e)[:80] for e in rig.errors], kind="interleaving")
        ok = False
    count = {}
    for b in rig.submitted:
        for j in b:
            count[j.jid] = count.get(j.jid, 0) + 1
    twice = sorted(i for i, c in count.items() if c > 1)
    if twice:
        ctx.violation("C11-submitted-twice", f"job(s) {twice} submitted more than once", case, expected="once", actual=count,
                      kind="interleaving")
        ok = False
    for b in rig.submitted:
        n = len(b)
        homog = len({descr_of[j.jid] for j in b}) == 1
        size_ok = n == 1 or (mn >= 1 and mn <= n <= mx)
        if n != 1 and any(script_of[j.jid] for j in b):
            size_ok = False
        if not (homog and size_ok):
            ctx.violation("C11-batch-shape", f"batch {ids(b)} is not homogeneous or has a size outside {{1}} ∪ [{mn},{mx}]", case,
                          expected="homogeneous, size 1 or min..max", actual=ids(b), kind="interleaving")
            ok = False
    if drained and not rig.errors:
        missing = sorted(i for i, _, _ in jobs if count.get(i, 0) == 0)
        if missing:
            ctx.violation("C11-job-lost", f"job(s) {missing} never submitted although the monitor ran to quiescence with "
                          "everything stale", case, expected="every job submitted", actual=sorted(count), kind="interleaving")
            ok = False
    if rig.quiescent():
        left = sum(len(v) for v in rig.arr.pending.values())
        if rig.arr.num_pending != left:
            ctx.violation("C11-count-drift", f"num_pending = {rig.arr.num_pending} but {left} job(s) are pending at quiescence", case,
                          expected=left, actual=rig.arr.num_pending, kind="interleaving")
            ok = False
    return ok


# ------------------------------------------------------------------ schedules
def directed(rig, script):
    """script items: ('S'|'M', 'until', <line prefix>) | ('S'|'M', 'untilmax', <line prefix>, max steps) | ('S'|'M', 'n', k) | ('S'|'M', 'run') | ('T', n)"""
    for item in script:
        if item[0] == "T":
            rig.do(("T", item[1]))
            continue
        who, how = item[0], item[1]
        if how == "n":
            for _ in range(item[2]):
                if not rig.do(who):
                    break
        elif how == "run":
            for _ in range(3000):
                if not rig.do(who):
                    break
        elif how == "untilmax":
            for _ in range(item[3]):
                lab = rig.next_label(who)
                if lab is None or lab[1].startswith(item[2]):
                    break
                if not rig.do(who):
                    break
        elif how == "until":
            for _ in range(3000):
                lab = rig.next_label(who)
                if lab is None or lab[1].startswith(item[2]):
                    break
                if not rig.do(who):
                    break


def witness_scripts():
    """Directed schedules of the three model counter-examples (Props/C11.lean refuted_*)."""
    return [
        dict(name="keyerror", signature="C11-monitor-fails-KeyError", params=(2, 3, 5),
             jobs=[(0, 0, False), (1, 1, False)],
             script=[("S", "until", "if job.task.script"), ("S", "n", 1), ("S", "until", "if job.task.script"),  # add_job(j0) incl. start()
                     ("S", "until", "self.pending_timestamps"),                      # j1 appended, timestamp not yet written
                     ("T", 100), ("M", "until", "self._on_error"), ("M", "n", 1), ("S", "run"), ("M", "n", 60)]),
        dict(name="dict_resize", signature="C11-monitor-fails-RuntimeError", params=(2, 3, 5),
             jobs=[(0, 0, False), (1, 1, False)],
             script=[("S", "until", "if job.task.script"), ("S", "n", 1), ("S", "until", "if job.task.script"),
                     ("M", "until", "if (currtime"),                                  # iterator created, first key taken
                     ("S", "until", "self.num_pending += 1"),                         # new key inserted (and stamped)
                     ("M", "until", "self._on_error"), ("M", "n", 1), ("S", "run"), ("M", "n", 60)]),
        dict(name="lost_update", signature="C11-count-drift", params=(2, 3, 5),
             jobs=[(0, 0, False), (1, 0, False), (2, 0, False)],
             script=[("S", "until", "if job.task.script"), ("S", "n", 1), ("S", "until", "if job.task.script"),
                     ("S", "n", 1), ("S", "until", "if job.task.script"),            # j0, j1 added
                     ("T", 100), ("M", "until", "<split>"),                           # decrement has read num_pending
                     ("S", "run"), ("M", "n", 3)]),
    ]


def overflow_scripts():
    """Corpus beyond the model's counter-examples: a group larger than max_array_size is being handed off
    (popped, first slice passed to the submit callback, lock released) while add_job adds a job of the SAME
    description; the remainder and the new job must both survive the put-back."""
    fill = [("S", "until", "if job.task.script"), ("S", "n", 1)]
    out = []
    for name, params, n0, stop in [
        ("overflow-add-after-callback", (2, 2, 5), 3, [("M", "until", "self._submit_jobs(jobs)"), ("M", "n", 1)]),
        ("overflow-add-before-callback", (1, 2, 5), 4, [("M", "until", "remainder = jobs")]),
        ("overflow-add-after-callback-3", (2, 3, 0), 7, [("M", "until", "self._submit_jobs(jobs)"), ("M", "n", 1)]),
    ]:
        jobs = [(i, 0, False) for i in range(n0 + 2)]
        script = fill * n0 + [("S", "until", "if job.task.script"), ("T", 100)] + stop + \
            [("S", "n", 1), ("S", "until", "if job.task.script"),      # one whole add_job of the same description
             ("M", "until", "self.num_pending -="), ("S", "run")]
        out.append(dict(name=name, params=params, jobs=jobs, script=script))
    # thread life cycle: whenever the monitor function returns (it never does on its own in the code as repaired), an
    # add_job + start() between that return and the end of the thread must not strand the job
    one = [("S", "n", 1), ("S", "until", "if job.task.script")]
    for name, params, jobs in [("add-at-thread-exit", (2, 3, 0), [(0, 0, False), (1, 0, False)]),
                               ("add-at-thread-exit-singles", (3, 3, -1), [(0, 0, False), (1, 1, False), (2, 0, False)])]:
        out.append(dict(name=name, params=params, jobs=jobs,
                        script=[("S", "until", "if job.task.script")] + one * (len(jobs) - 1) + [("T", 100)] +
                        [("M", "untilmax", "<thread-exit>", 160), ("S", "run"), ("M", "n", 1)]))
    return out


def random_case(rng, size):
    if rng.random() < 0.35:          # one description, more jobs than max_array_size: the put-back path
        mn = rng.choice([1, 2, 2])
        mx = mn + rng.choice([0, 0, 1])
        nj = rng.randrange(mx + 1, max(mx + 2, size + 3))
        return (mn, mx, rng.choice([-1, 0, 0, 1])), [(i, 0, False) for i in range(nj)]
    mn = rng.choice([0, 1, 2, 2, 2, 3])
    mx = mn + rng.choice([0, 1, 1, 2, 3])
    if mn == 0:
        mx = rng.choice([1, 2, 3])
    st = rng.choice([-1, 0, 0, 1, 3])
    nj = rng.randrange(1, size + 1)
    nd = rng.choice([1, 1, 2, 3])
    jobs = [(i, rng.randrange(nd), rng.random() < 0.1) for i in range(nj)]
    return (mn, mx, st), jobs


HANDOFF = ("if len(jobs) > self.max_array_size", "remainder = jobs", "jobs = jobs[", "self._submit_jobs(jobs)",
           "elif len(jobs) <", "for job in jobs", "self._submit_jobs([job])")


def in_handoff(rig):
    """the monitor has popped a group and not yet put back / counted it: the lock is free, add_job can run"""
    lab = rig.next_label("M")
    if lab is not None and lab[1] == "<thread-exit>":
        return True             # the monitor function has returned, the thread is still alive: start() will not restart it
    if lab is None or lab[0] != "submit_pending_jobs":
        return False
    if lab[1].startswith(HANDOFF):
        return True
    last = next((t[1] for t in reversed(rig.trace) if t[0] == "M"), None)
    return lab[1].startswith("with self._lock") and last is not None and last[1].startswith("self._submit_jobs(jobs)")


def random_schedule(rig, rng, nsteps):
    cur = "S"
    stick = rng.choice([0.3, 0.6, 0.8, 0.9])
    adversarial = rng.random() < 0.5      # run whole add_job calls while the monitor is in the middle of a hand-off
    for _ in range(nsteps):
        if adversarial and rig.next_label("S") is not None and in_handoff(rig) and rng.random() < 0.6:
            for _k in range(40):
                if not rig.do("S"):
                    break
                lab = rig.next_label("S")
                if lab is None or lab[1].startswith("if job.task.script"):
                    break
            cur = "M"
            continue
        r = rng.random()
        if r < 0.04:
            rig.do(("T", rng.choice([1, 1, 2, 5])))
            continue
        if rng.random() > stick:
            cur = "M" if cur == "S" else "S"
        if not rig.do(cur):
            other = "M" if cur == "S" else "S"
            if not rig.do(other):
                if rig.next_label("S") is None and rig.next_label("M") is None:
                    break
            else:
                cur = other


def exec_case(ctx, case, script=None, rng=None, nsteps=0, split=False, tags=None):
    """Execute one case on the real code and apply the oracle; the model comparison is done later in one batch."""
    params, jobs = tuple(case["params"]), [tuple(j) for j in case["jobs"]]
    with Rig(params, jobs, split_dec=(split or MODEL_CFG == "cur")) as rig:
        if case.get("sched") is not None:
            for ev in case["sched"]:
                rig.do(tuple(ev) if isinstance(ev, list) else ev)
            drained = rig.drain()       # a recorded schedule already ends drained; then this adds nothing
        else:
            if script is not None:
                directed(rig, script)
            else:
                random_schedule(rig, rng, nsteps)
            drained = rig.drain()
        full = dict(params=list(params), jobs=[list(j) for j in jobs],
                    sched=[e if isinstance(e, str) else list(e) for e in rig.sched])
        ok = oracle(ctx, full, rig, drained)
        rec = dict(full=full, ok=ok, trace=rig.trace, switches=rig.switches, errs=[type(e).__name__ for e in rig.errors],
                   nsub=len(rig.submitted), tags=tags or {},
                   request=model_request(params, jobs, rig.sched))
    return rec


def finish_cases(ctx, recs):
    """One model run for all executed cases, then the step-by-step comparison and the accounting."""
    replies = ctx.model("C11", [r["request"] for r in recs])
    for r, reply in zip(recs, replies):
        if reply in ("bad-op", "bad-value"):
            raise Infra("C11 driver rejected the request: " + reply)
        r["same"] = compare(ctx, r["full"], r["trace"], reply)
        full, trace = r["full"], r["trace"]
        key = (tuple(full["params"]), tuple(map(tuple, full["jobs"])), tuple(map(str, full["sched"]))) if r["switches"] > 0 else None
        ctx.case(key=key, sample={"params": full["params"], "jobs": len(full["jobs"]), "steps": len(trace),
                                  "switches": r["switches"], "batches": r["nsub"], "errors": r["errs"]},
                 steps=min(len(trace) // 50 * 50, 500), njobs=len(full["jobs"]), min_size=full["params"][0],
                 switches=min(r["switches"], 20), outcome="error" if r["errs"] else "ok", **r["tags"])


def run(ctx):
    rng = ctx.rng
    recs = []
    # 1. corpus: the model's refutation witnesses (Props/C11.lean refuted_*), replayed on the real code
    for w in witness_scripts():
        case = dict(params=list(w["params"]), jobs=[list(j) for j in w["jobs"]])
        r = exec_case(ctx, case, script=w["script"], split=True, tags=dict(kind="witness-" + w["name"]))
        recs.append(r)
        if MODEL_CFG == "cur" and r["ok"]:      # the model of the code as found says this schedule fails
            ctx.expect_known(w["signature"], False, r["full"], "witness " + w["name"])
    for w in overflow_scripts():
        case = dict(params=list(w["params"]), jobs=[list(j) for j in w["jobs"]])
        recs.append(exec_case(ctx, case, script=w["script"], tags=dict(kind="corpus-" + w["name"])))
    # 2. random pre-emption-bounded schedules
    n = ctx.n(150, 2500)
    for i in range(n):
        if ctx.elapsed() > (55 if ctx.tier == "quick" else 400):
            ctx.note(f"time budget reached after {i} random cases")
            break
        params, jobs = random_case(rng, rng.choice([2, 3, 4, 6, 8]))
        recs.append(exec_case(ctx, dict(params=list(params), jobs=[list(j) for j in jobs]), rng=rng,
                              nsteps=rng.choice([40, 80, 150, 300]), tags=dict(kind="random")))
    finish_cases(ctx, recs)


def search(ctx):
    """Extra failing-input search after a proof/correspondence break: free-running threads (no controller),
    oracle only."""
    import threading
    import redun.job_array as ja
    rng = ctx.rng
    for it in range(ctx.n(20, 100)):
        params, jobs = random_case(rng, 40)
        mn, mx, _ = params
        fj = [FakeJob(*j) for j in jobs]
        submitted, errors = [], []
        arr = ja.JobArrayer(lambda js: submitted.append(list(js)), errors.append, submit_interval=0.0, stale_time=-1.0,
                            min_array_size=mn, max_array_size=mx)
        for j in fj:
            arr.add_job(j)
        for _ in range(2000):
            if not arr.pending:
                break
            threading.Event().wait(0.001)
        arr.stop()
        left = sum(len(v) for v in arr.pending.values())
        case = dict(params=list(params), jobs=[list(j) for j in jobs], sched=None, free_running=True)
        ctx.case(key=None, kind="stress")
        if errors:
            ctx.violation(f"C11-monitor-fails-{type(errors[0]).__name__}", "monitor failed under free-running stress", case,
                          actual=repr(errors[0])[:100], kind="interleaving")
        if arr.num_pending != left:
            ctx.violation("C11-count-drift", "num_pending drift under free-running stress", case, expected=left,
                          actual=arr.num_pending, kind="interleaving")


def replay(ctx, case):
    c = case.get("case") or {}
    if not c.get("sched"):
        ctx.note("replay file has no schedule; running the normal check")
        return run(ctx)
    r = exec_case(ctx, dict(params=c["params"], jobs=c["jobs"], sched=c["sched"]), split=True, tags=dict(kind="replay"))
    finish_cases(ctx, [r])
    print("replay:", "property holds on this schedule" if r["ok"] else "property VIOLATED on this schedule",
          "| model agrees" if r["same"] else "| model DISAGREES")
