"""Shared machinery of the C01 / C12 / C38 checks (group gB1): printer of real redun expression objects into the
line protocol of lean/Driver/C01.lean, canonical comparison of outcomes, and the typed program generator over the
task library props/_evallib.py.

The model input is printed from the *real expression object* handed to Scheduler.run (TaskExpression /
SchedulerExpression / SimpleExpression / containers / values), not from the generator's own AST, so whatever
the Python-level API did (PartialTask.__call__, operator overloads, default kwargs of scheduler tasks) is already
in what the model sees.
"""
import dataclasses

from core import hx, unsx

from redun.expression import Expression, SchedulerExpression, SimpleExpression, TaskExpression, ValueExpression
from redun.functools import (apply_func, as_task, compose, const, delay, flat_map, flatten, force, identity, map_, seq,
                             zip_)
from redun.scheduler import Thread, apply_tags, catch, catch_all, cond, fork_thread, subrun
from redun.task import PartialTask, SchedulerTask, Task

from props import _evallib as L


class Unsupported(Exception):
    pass


# ------------------------------------------------------------------------------------------------ printer
def s(x):
    return "s" + hx(x)


def err_canon(e):
    a = e.args
    msg = a[0] if (len(a) == 1 and isinstance(a[0], str)) else "!" + repr(a)
    return type(e).__name__, msg


_PYF = {id(f): n for n, f in L.PYFUNCS.items()}
ALLOWED_TASK_OPTIONS = {"mode", "executor", "_context_override"}


def kws_sx(kwargs):
    return "(" + " ".join("(%s %s)" % (s(k), to_sx(v)) for k, v in kwargs.items()) + ")"


def sched_args(expr, names, defaults):
    """positional + keyword arguments of a SchedulerExpression by parameter name"""
    vals = dict(defaults)
    for n, a in zip(names, expr.args):
        vals[n] = a
    if len(expr.args) > len(names):
        raise Unsupported("too many args for " + expr.task_name)
    for k, v in expr.kwargs.items():
        if k not in names:
            raise Unsupported("kwarg %s for %s" % (k, expr.task_name))
        vals[k] = v
    return vals


def to_sx(v):
    if v is None:
        return "N"
    if v is True:
        return "T"
    if v is False:
        return "F"
    t = type(v)
    if t is int:
        return "i%d" % v
    if t is str:
        return s(v)
    if t is list:
        return "(L" + "".join(" " + to_sx(x) for x in v) + ")"
    if t is tuple:
        return "(U" + "".join(" " + to_sx(x) for x in v) + ")"
    if t is L.P:
        return "(NT %s" % s("P") + "".join(" " + to_sx(x) for x in v) + ")"
    if t is set:
        return "(S" + "".join(" " + to_sx(x) for x in v) + ")"
    if t is dict:
        return "(D" + "".join(" (%s %s)" % (to_sx(k), to_sx(x)) for k, x in v.items()) + ")"
    if t is L.D:
        return "(DC %s" % s("D") + "".join(" " + to_sx(getattr(v, f.name)) for f in dataclasses.fields(v)) + ")"
    if t is L.Plan:
        return "(O %s %s %s)" % (s("Plan"), to_sx(v.n), to_sx(v.kind))
    if getattr(v, "__func__", None) is L.Plan.steps and type(getattr(v, "__self__", None)) is L.Plan:
        return "(O %s %s %s)" % (s("Plan.steps"), to_sx(v.__self__.n), to_sx(v.__self__.kind))
    if isinstance(v, BaseException):
        c, m = err_canon(v)
        return "(E %s %s)" % (s(c), s(m))
    if isinstance(v, type) and issubclass(v, BaseException):
        return "(C %s)" % s(v.__name__)
    if id(v) in _PYF:
        return "(F %s)" % s(_PYF[id(v)])
    if isinstance(v, SchedulerExpression):
        return sched_sx(v)
    if isinstance(v, TaskExpression):
        bad = set(v._options) - ALLOWED_TASK_OPTIONS
        if bad:
            raise Unsupported("task options " + repr(sorted(bad)))
        ov = v._options.get("_context_override") or {}
        return "(call %s (%s) %s%s)" % (s(v.task_name), " ".join(to_sx(a) for a in v.args), kws_sx(v.kwargs),
                                        (" " + kws_sx(ov)) if ov else "")
    if isinstance(v, SimpleExpression):
        if v.kwargs:
            raise Unsupported("SimpleExpression kwargs")
        return "(op %s%s)" % (s(v.func_name), "".join(" " + to_sx(a) for a in v.args))
    if isinstance(v, ValueExpression):
        return "(V %s)" % to_sx(v.value)
    if isinstance(v, PartialTask):
        return "(P %s (%s) %s)" % (s(v.fullname), " ".join(to_sx(a) for a in v.args), kws_sx(v.kwargs))
    if isinstance(v, SchedulerTask):
        raise Unsupported("scheduler task as a value")
    if isinstance(v, Task):
        return "(T %s)" % s(v.fullname)
    if isinstance(v, Thread):
        return "(TH %s)" % to_sx(v._expr)
    raise Unsupported("value of type %s" % t.__name__)


def sched_sx(e):
    n = e.task_name
    if n == "redun.cond":
        if e.kwargs:
            raise Unsupported("cond kwargs")
        return "(cond" + "".join(" " + to_sx(a) for a in e.args) + ")"
    if n == "redun.seq":
        a = sched_args(e, ["exprs"], {})
        if type(a["exprs"]) not in (list, tuple):
            raise Unsupported("seq of a non-literal")
        return "(seq" + "".join(" " + to_sx(x) for x in a["exprs"]) + ")"
    if n == "redun.catch":
        if e.kwargs:
            raise Unsupported("catch kwargs")
        rest = e.args[1:]
        pairs = list(zip(rest[::2], rest[1::2]))
        return "(catch %s%s)" % (to_sx(e.args[0]), "".join(" (%s %s)" % (to_sx(c), to_sx(r)) for c, r in pairs))
    if n == "redun.catch_all":
        a = sched_args(e, ["exprs", "error_class", "recover"], {"error_class": None, "recover": None})
        return "(catchall %s %s %s)" % (to_sx(a["exprs"]), to_sx(a["error_class"]), to_sx(a["recover"]))
    if n == "redun.map_":
        a = sched_args(e, ["a_task", "values"], {})
        return "(map %s %s)" % (to_sx(a["a_task"]), to_sx(a["values"]))
    if n == "redun.apply_tags":
        a = sched_args(e, ["value", "tags", "job_tags", "execution_tags"], {"tags": [], "job_tags": [], "execution_tags": []})
        return "(tags %s %s %s %s)" % (to_sx(a["value"]), to_sx(a["tags"]), to_sx(a["job_tags"]), to_sx(a["execution_tags"]))
    if n == "redun.fork_thread":
        a = sched_args(e, ["expr"], {})
        return "(fork %s)" % to_sx(a["expr"])
    if n == "redun.join_thread":
        a = sched_args(e, ["thread"], {})
        return "(join %s)" % to_sx(a["thread"])
    if n == "redun.get_context":
        a = sched_args(e, ["var_path", "default"], {"default": None})
        if type(a["var_path"]) is not str:
            raise Unsupported("get_context of a non-literal path")
        return "(getctx %s %s)" % (s(a["var_path"]), to_sx(a["default"]))
    if n == "redun.subrun":
        kw = dict(e.kwargs)
        if len(e.args) > 2:
            raise Unsupported("subrun positional config")
        expr = e.args[0] if e.args else kw.pop("expr")
        ne = kw.pop("new_execution", False)
        for k in ("executor", "config", "config_dir", "load_modules", "cache_scope", "check_valid"):
            kw.pop(k, None)
        if kw:
            raise Unsupported("subrun options " + repr(sorted(kw)))
        if ne not in (True, False):
            raise Unsupported("subrun new_execution expression")
        return "(subrun %s %s)" % (to_sx(expr), "T" if ne else "F")
    raise Unsupported("scheduler task " + n)


# ------------------------------------------------------------------------------------------------ reader (replays)
def _registry_task(name):
    from redun.task import get_task_registry
    t = get_task_registry().get(name)
    if t is None:
        raise Unsupported("unknown task " + name)
    return t


_EXC = {c.__name__: c for c in [ValueError, KeyError, LookupError, ZeroDivisionError, ArithmeticError, TypeError, IndexError,
                                Exception, NotImplementedError, RuntimeError, L.LibError, L.LibSubError, L.BusyError]}


def from_tree(t):
    """parsed S-expression (core.unsx) -> real redun expression / value; inverse of to_sx"""
    if not isinstance(t, list):
        return t                      # None / bool / int / str
    h, a = t[0], t[1:]
    f = from_tree
    if h == "E":
        msg = a[1]
        return _EXC[a[0]](msg) if not msg.startswith("!") else _EXC[a[0]](*eval(msg[1:]))
    if h == "C":
        return _EXC[a[0]]
    if h is False:                    # (F name): the head atom F parses as False
        return L.PYFUNCS[a[0]]
    if h is True:                     # (T name): the head atom T parses as True
        return _registry_task(a[0])
    if h == "O":
        if a[0] == "Plan":
            return L.Plan(f(a[1]), f(a[2]))
        if a[0] == "Plan.steps":
            return L.Plan(f(a[1]), f(a[2])).steps
        raise Unsupported("object " + repr(a[0]))
    if h == "P":
        return _registry_task(a[0]).partial(*[f(x) for x in a[1]], **{k: f(v) for k, v in a[2]})
    if h == "V":
        return ValueExpression(f(a[0]))
    if h == "L":
        return [f(x) for x in a]
    if h == "U":
        return tuple(f(x) for x in a)
    if h == "S":
        return {f(x) for x in a}
    if h == "NT":
        return L.P(*[f(x) for x in a[1:]])
    if h == "DC":
        return L.D(*[f(x) for x in a[1:]])
    if h == "D":
        return {f(k): f(v) for k, v in a}
    if h == "call":
        t = _registry_task(a[0])
        if len(a) > 3 and a[3]:
            t = t.update_context({k: f(v) for k, v in a[3]})
        return t(*[f(x) for x in a[1]], **{k: f(v) for k, v in a[2]})
    if h == "getctx":
        from redun import get_context
        return get_context(a[0], f(a[1]))
    if h == "op":
        return SimpleExpression(a[0], tuple(f(x) for x in a[1:]), {})
    if h == "cond":
        return cond(*[f(x) for x in a])
    if h == "seq":
        return seq([f(x) for x in a])
    if h == "catch":
        flat = []
        for c, r in a[1:]:
            flat += [f(c), f(r)]
        return catch(f(a[0]), *flat)
    if h == "catchall":
        return catch_all(f(a[0]), f(a[1]), f(a[2]))
    if h == "map":
        return map_(f(a[0]), f(a[1]))
    if h == "tags":
        return apply_tags(f(a[0]), f(a[1]), f(a[2]), f(a[3]))
    if h == "fork":
        return fork_thread(f(a[0]))
    if h == "join":
        from redun.scheduler import join_thread
        return join_thread(f(a[0]))
    if h == "subrun":
        return subrun(f(a[0]), executor="default", new_execution=bool(a[1]))
    raise Unsupported("cannot rebuild " + repr(h))


def from_sx(text):
    return from_tree(unsx(text)[0])


# ------------------------------------------------------------------------------------------------ canonical outcomes
def canon(tree):
    """order-insensitive canonical form of a parsed S-expression: sets and dict items sorted"""
    if isinstance(tree, list):
        if tree and tree[0] == "S":
            return ("S",) + tuple(sorted((canon(x) for x in tree[1:]), key=repr))
        if tree and tree[0] == "D":
            return ("D",) + tuple(sorted((canon(x) for x in tree[1:]), key=repr))
        return tuple(canon(x) for x in tree)
    if isinstance(tree, bool):
        return ("bool", tree)
    return tree


def canon_value(v):
    return ("ok", canon(unsx(to_sx(v))[0]))


def canon_error(e):
    c, m = err_canon(e)
    return ("err", c, m)


def parse_outs(reply):
    """model reply `(outs ...)` -> (set of canonical known outcomes, has_unk)"""
    t = unsx(reply)
    if len(t) != 1 or not isinstance(t[0], list) or not t[0] or t[0][0] != "outs":
        raise ValueError("bad model reply: " + reply[:200])
    outs, unk = set(), False
    for o in t[0][1:]:
        if o == "unk":
            unk = True
        elif o[0] == "ok":
            outs.add(("ok", canon(o[1])))
        elif o[0] == "err":
            outs.add(("err", o[1], o[2]))
        else:
            raise ValueError("bad outcome: " + repr(o)[:100])
    return outs, unk


def real_outcome(status, payload):
    if status == "ok":
        try:
            return canon_value(payload)
        except Unsupported as u:
            return ("unprintable", str(u))
    if status == "err":
        return canon_error(payload)
    return (status, str(payload)[:200])


def show(o):
    return repr(o)[:400]


# ------------------------------------------------------------------------------------------------ generator
KINDS = ["V", "K", "L", "S", "Z", "T"]


class Gen:
    """Typed generator of workflow programs.  `build()` results are real redun expressions (or plain values)."""

    def __init__(self, rng, p_err=0.12, modes=(None,), allow_async=False, allow_subrun=False, max_fan=3):
        self.rng = rng
        self.p_err = p_err
        self.modes = modes
        self.allow_async = allow_async
        self.allow_subrun = allow_subrun
        self.max_fan = max_fan
        self.tagc = 0
        self.feat = {}
        self.ctx_heavy = False
        self.pool = []          # int-valued sub-expressions generated so far in this program (for sharing)

    def f(self, name):
        self.feat[name] = self.feat.get(name, 0) + 1

    def t(self, name):
        """task object by name, with this call's executor mode"""
        task = getattr(L, name) if hasattr(L, name) else {"identity": identity, "const": const, "flatten": flatten,
                                                           "flat_map": flat_map, "zip_": zip_, "apply_func": apply_func}[name]
        m = self.rng.choice(self.modes)
        if m in ("thread", "process"):
            self.f("mode:" + m)
            task = task.options(mode=m)
        return task

    def tag(self):
        self.tagc += 1
        return self.tagc

    def lit(self):
        return self.rng.choice([0, 1, 2, 3, 5, -1, 7])

    # -- failing sub-expressions (any type)
    def err(self, d):
        r = self.rng
        k = r.randrange(9)
        self.f("err-leaf")
        if k <= 3:
            if self.allow_async and r.random() < 0.3:
                self.f("async")
                return L.a_fail(self.tag())
            return self.t(r.choice(["raiser", "raiser", "s_raiser"]))(r.choice(KINDS), self.tag())
        if k == 4:
            return self.t(r.choice(["fail_after", "fail_after", "s_fail_after"]))(r.randrange(0, 3), r.choice(KINDS))
        if k == 5:
            x = self.lit()
            return self.t("maybe_fail")(x, x)
        if k == 6:
            return self.t("mklist")(2)[r.choice([2, 5, -3])]
        if k == 7:
            return self.t("inc")(self.lit()) / 0
        return self.t("dflt_fail")(self.lit())

    def int(self, d):
        """an int-valued expression; now and then the SAME sub-expression as an earlier one (the scheduler shares one promise
        per parent job and expression hash)"""
        r = self.rng
        if self.pool and r.random() < 0.1:
            self.f("shared-subexpression")
            return r.choice(self.pool)
        e = self._int(d)
        if isinstance(e, Expression) and len(self.pool) < 12:
            self.pool.append(e)
        return e

    def fork_multi(self, d):
        """a task returns the Thread of a MULTI-STEP expression (seq / cond / map_ / catch / lazy call keep being evaluated
        under the forking job after it concluded); a later task joins it"""
        r = self.rng
        self.f("fork-multi-step-join")
        k = r.randrange(7)
        if k == 0:
            return self.t("total")(self.t("joiner")(self.t("fork_seq")(r.randrange(1, 4))))
        if k == 1:
            return self.t("joiner")(self.t("fork_cond")(self.lit()))
        if k == 2:
            return self.t("total")(self.t("joiner")(self.t("fork_map")(r.randrange(1, 4))))
        if k == 3:
            return self.t("first")(self.t("joiner")(self.t("fork_catch")(r.choice(KINDS))))
        if k == 4:
            return self.t("joiner")(self.t("fork_lazy_call")(self.lit()))
        if k == 5:
            return self.t("joiner")(self.t("fork_deep")(r.randrange(0, 2), r.choice(KINDS)))
        return self.t("first")(self.t("join_all")([self.t("fork_seq")(2), self.t("fork_map")(2)]))

    def lazy_container(self, d):
        """a lazy operator (call of a task-returned helper, attribute + method call or item lookup on a task-returned object)
        whose VALUE is a container of task calls, some failing, bare or under catch: reduced like any value"""
        r = self.rng
        self.f("lazy-operator-returns-container")
        kind = r.choice([None, None, "V", "K", "L"])
        k = r.randrange(7)
        if k == 0:
            e = self.t("identity")(L.py_fan)(r.randrange(0, 4))
        elif k == 1:
            e = self.t("first")([L.py_plan, 0])(self.lit(), kind)
        elif k == 2:
            e = self.t("mkplan")(r.randrange(0, 3), kind).steps()
        elif k == 3:
            e = self.t("mkplan")(r.randrange(0, 3), kind)[self.lit()]
        elif k == 4:
            e = self.t("total")(self.t("identity")(L.py_fan)(r.randrange(1, 4)))
        elif k == 5:
            e = [self.t("mkplan")(1)[0], self.t("const")(L.py_fan, self.int(max(d - 1, 0)))(2)]
        else:
            e = self.t("identity")(self.t("mkplan")(2, kind).steps)()
        if r.random() < 0.35:
            return catch(e, self.classes(), self.t("rec_val"))
        return e

    def shared_failing(self, d):
        """a FAILING term X used twice under one parent: first where its failure is absorbed (catch / catch_all / a thread that
        is never joined), then - sequenced after the first use has finished - where it is demanded: the second use raises"""
        r = self.rng
        self.f("shared-failing-term")
        x = self.err(d)
        absorb = r.choice([lambda: catch(x, Exception, self.t("rec_zero")), lambda: catch_all([x], Exception, self.t("rec_count")),
                           lambda: catch(self.t("inc")(x), Exception, self.t("rec_val")),
                           lambda: self.t("const")(0, fork_thread(x))])()
        k = r.randrange(5)
        if k == 0:
            return seq([absorb, x])
        if k == 1:
            return seq([absorb, self.t("inc")(x), self.lit()])
        if k == 2:
            return cond(absorb == 0, x, 1) if r.random() < 0.5 else cond(absorb, 1, x)
        if k == 3:
            return catch(x, Exception, L.pair.partial(x))
        return [self.t("const")(1, absorb), seq([absorb, [x, self.int(max(d - 1, 0))]])]

    def ctx_int(self, d):
        """an int computed by tasks that read the context (default arguments / body), some with their own update_context"""
        r = self.rng
        self.f("context-read")
        g = self.int if not self.ctx_heavy else (lambda dd: self.ctx_int(dd) if (dd > 0 and r.random() < 0.5) else self.lit())
        k = r.randrange(6)
        if k == 0:
            return self.t("ctx_scale")(g(d - 1))
        if k == 1:
            return self.t("ctx_offset")(g(d - 1))
        if k == 2:
            self.f("context-inner-override")
            return self.t("ctx_scale").update_context({r.choice(["k", "m"]): self.lit()})(g(d - 1))
        if k == 3:
            return self.t("total")(self.t("ctx_flow")(g(d - 1)))
        if k == 4:
            return self.t("first")(self.t("ctx_inner_override")(g(d - 1)))
        return self.t("ctx_scale")(g(d - 1), m=self.t("ctx_offset")(self.lit()))

    def ctx_program(self, d):
        r = self.rng
        k = r.randrange(5)
        if k == 0:
            return self.t("ctx_flow")(self.ctx_int(d - 1))
        if k == 1:
            return self.t("ctx_body")(self.ctx_int(d - 1))
        if k == 2:
            return [self.ctx_int(d - 1), self.t("ctx_inner_override")(self.lit())]
        if k == 3:
            return self.t("add")(self.ctx_int(d - 1), b=self.int(d - 1))
        return self.ctx_int(d)

    def shared(self, d):
        """one term used twice under the same parent: as an argument of a call next to another (possibly slower) argument,
        and in a later step of seq / cond / map_ whose earlier step waited on that same term"""
        r = self.rng
        self.f("shared-term-pattern")
        s = self.t(r.choice(["inc", "twice", "neg", "s_inc"]))(self._int(max(d - 1, 0)))
        other = self.int(d)
        user = r.choice([lambda: self.t("add")(s, other), lambda: self.t("add")(other, b=s), lambda: self.t("pair")(s, other),
                         lambda: [s, other], lambda: s + other])()
        k = r.randrange(5)
        if k == 0:
            later = seq([s, s] + ([self.int(d - 1)] if r.random() < 0.3 else []))
        elif k == 1:
            later = cond(s, s, 0)
        elif k == 2:
            later = cond(s == 0, 1, s)
        elif k == 3:
            lst = self.t("mklist")(r.randrange(1, 3))
            return [self.t("pair")(lst, other), map_(L.pair.partial(lst), lst)] if r.random() < 0.5 else \
                [map_(L.pair.partial(lst), lst), self.t("pair")(lst, other)]
        else:
            later = self.t("const")(s, seq([s, self.t("inc")(s)]))
        return [user, later] if r.random() < 0.6 else [later, user]

    def _int(self, d):
        r = self.rng
        if r.random() < self.p_err:
            return self.err(d)
        if d <= 0:
            return self.lit()
        k = r.randrange(35)
        g = self.int
        if k == 0:
            return self.lit()
        if k == 1:
            if self.allow_async and r.random() < 0.3:
                self.f("async")
                return L.a_inc(g(d - 1))
            return self.t(r.choice(["inc", "inc", "inc", "s_inc"]))(g(d - 1))
        if k == 2:
            self.f("kwarg")
            return self.t("add")(g(d - 1), b=g(d - 1))
        if k == 3:
            self.f("default")
            return self.t("add")(g(d - 1))
        if k == 4:
            return self.t("mul")(g(d - 1), g(d - 1))
        if k == 5:
            self.f("expr-default")
            c = r.random()
            if c < 0.5:
                return self.t("addx")(g(d - 1))
            if c < 0.7:
                return self.t("addx")(g(d - 1), g(d - 1))
            if c < 0.85:
                return self.t("addx")(g(d - 1), b=g(d - 1))
            return self.t("dflt_fail")(g(d - 1), b=g(d - 1))
        if k == 6:
            return self.t("total")(self.list(d - 1))
        if k == 7:
            return self.t("first")(self.list(d - 1))
        if k == 8:
            self.f("namedtuple")
            return self.t("nt_sum")(L.P(g(d - 1), g(d - 1)))
        if k == 9:
            self.f("recursion")
            return self.t(r.choice(["rsum", "countdown"]))(r.randrange(0, 4))
        if k == 10:
            self.f("lazy-call")
            return self.t("apply2")(self.task(d - 1), g(d - 1))
        if k == 11:
            self.f("cond")
            return self.t("choose")(self.cond_val(d - 1), g(d - 1), g(d - 1))
        if k == 12:
            if self.allow_async and r.random() < 0.3:
                self.f("async")
                return L.a_twice(g(d - 1))
            return self.t("twice")(g(d - 1))
        if k == 13 and r.random() < 0.6:
            return self.fork_multi(d)
        if k == 13:
            self.f("fork-join")
            return self.t("fork_join")(g(d - 1))
        if k == 14:
            self.f("fork-forget")
            return self.t("fire_forget")(g(d - 1), r.choice(KINDS))
        if k == 15:
            self.f("apply_tags")
            return self.t("tagit")(g(d - 1))
        if k == 16:
            self.f("kwonly")
            return self.t("kwonly")(g(d - 1), m=g(d - 1)) if r.random() < 0.5 else self.t("kwonly")(g(d - 1), m=self.lit(), k=g(d - 1))
        if k == 17:
            self.f("varargs")
            return self.t("varsum")(g(d - 1), *[g(d - 1) for _ in range(r.randrange(0, 3))], scale=self.lit())
        if k == 18:
            self.f("op")
            a, b = g(d - 1), g(d - 1)
            return r.choice([lambda: a + b, lambda: a - b, lambda: a * b])()
        if k == 19:
            self.f("op")
            a = self.t("inc")(g(d - 1))
            return r.choice([lambda: 3 + a, lambda: 10 - a, lambda: 2 * a, lambda: a + 1])()
        if k == 20:
            self.f("getitem")
            lst = self.list(d - 1)
            if isinstance(lst, list):
                lst = self.t("identity")(lst)
            return lst[r.choice([0, 0, 1, -1, 4])]
        if k == 21:
            self.f("getitem")
            key = r.choice(["k", "q", 3])
            return self.t("mkdict")(key, g(d - 1))[r.choice([key, key, "zz", 9])]
        if k == 22:
            self.f("cond")
            return self.cond_expr(d, g)
        if k == 23:
            self.f("catch")
            return catch(g(d - 1), self.classes(), self.t("rec_zero"))
        if k == 24:
            self.f("const")
            return self.t("const")(g(d - 1), self.any(d - 1))
        if k == 25:
            return self.t("identity")(g(d - 1))
        if k == 26:
            self.f("apply_func")
            return r.choice([lambda: apply_func(len, self.list(d - 1)), lambda: as_task(len)(self.list(d - 1)),
                             lambda: as_task(L.py_double)(g(d - 1)), lambda: apply_func(sum, self.list(d - 1))])()
        if k == 27:
            self.f("lazy-call")
            if r.random() < 0.3:
                self.f("lazy-call-kw-override")
                return self.t("identity")(L.add.partial(b=self.lit()))(g(d - 1), b=g(d - 1))
            return self.task_expr(d - 1)(g(d - 1))
        if k == 28 and r.random() < 0.5:
            return self.catch_all_multi(d - 1)
        if k == 28:
            self.f("catch_all")
            return catch_all([g(d - 1) for _ in range(r.randrange(1, self.max_fan + 1))], self.classes(),
                             self.t(r.choice(["rec_count", "rec_count", "rec_count_raise"])))
        if k == 29:
            self.f("and-or")
            a, b = self.t("inc")(g(d - 1)), g(d - 1)
            return r.choice([lambda: a & b, lambda: a | b, lambda: 0 | a, lambda: 1 & a])()
        if k == 30:
            self.f("getattr")
            return self.t("wrap_nt")(g(d - 1), g(d - 1)).x
        if k == 31:
            self.f("force-delay")
            return force(delay(g(d - 1)))
        if k == 33:
            return self.ctx_int(d)
        if k == 32 and self.allow_subrun:
            self.f("subrun")
            return subrun(g(d - 1), executor="default", new_execution=r.random() < 0.5)
        return self.t("neg")(g(d - 1))

    def cond_val(self, d):
        r = self.rng
        k = r.randrange(6)
        if k == 0:
            return r.choice([True, False, 0, 1, "", "x", None])
        if k == 1:
            self.f("compare")
            return self.int(d) == self.lit()
        if k == 2:
            self.f("compare")
            return self.t("inc")(self.int(d)) < self.lit()
        if k == 3:
            return self.list(d)
        if k == 4:
            self.f("compare")
            a = self.t("inc")(self.int(d))
            return r.choice([lambda: a != self.lit(), lambda: a <= self.lit(), lambda: a > self.lit(), lambda: a >= self.lit()])()
        return self.int(d)

    def cond_expr(self, d, g):
        r = self.rng
        n = r.choice([2, 3, 3, 3, 4, 5])
        # args: c0 t0 [c1 t1 ...] [else]
        out = []
        i = 0
        while i < n:
            if n - i >= 2:
                out += [self.cond_val(d - 1), g(d - 1)]
                i += 2
            else:
                out.append(g(d - 1))
                i += 1
        return cond(*out)

    def catch_all_multi(self, d):
        """catch_all over >= 2 failing terms with distinguishable errors (fast and slow ones mixed), with / without recover,
        with a covering / partly covering / non-covering error class: the re-raised error is the first in TERM order"""
        r = self.rng
        self.f("catch_all-multi-error")
        terms = [self.err(d) for _ in range(r.randrange(2, 4))] + [self.int(max(d - 1, 0)) for _ in range(r.randrange(0, 2))]
        r.shuffle(terms)
        shape = r.randrange(3)
        if shape == 1:
            terms = tuple(terms)
        elif shape == 2:
            terms = {"k%d" % i: t for i, t in enumerate(terms)}
        c = r.randrange(4)
        if c == 0:
            return catch_all(terms)
        cls = Exception if c == 1 else self.classes()
        rec = self.t(r.choice(["rec_count", "rec_count_raise"])) if shape != 2 else self.t("identity")
        return catch_all(terms, cls, rec)

    def classes(self):
        r = self.rng
        pool = [ValueError, KeyError, LookupError, L.LibError, L.LibSubError, ZeroDivisionError, ArithmeticError, TypeError,
                IndexError, Exception]
        if r.random() < 0.3:
            return tuple(r.sample(pool, r.randrange(1, 4)))
        return r.choice(pool)

    def task(self, d):
        """a callable int -> int *value* (Task / PartialTask)"""
        r = self.rng
        k = r.randrange(10)
        if k <= 1:
            return L.inc
        if k == 2:
            return L.neg
        if k == 3:
            return L.twice
        if k == 4:
            self.f("partial")
            return L.add.partial(b=self.lit())
        if k == 5:
            self.f("partial")
            return L.add.partial(self.lit())
        if k == 6:
            self.f("partial-expr-arg")
            return L.add.partial(b=self.int(d))
        if k == 7:
            self.f("compose")
            return compose(L.inc, L.neg)
        if k == 8:
            self.f("partial")
            return as_task(L.py_double)
        return L.addx

    def task_expr(self, d):
        """an *expression* evaluating to a callable int -> int"""
        r = self.rng
        k = r.randrange(4)
        if k == 0:
            return self.t("identity")(self.task(d))
        if k == 1:
            return self.t("const")(self.task(d), self.int(d))
        if k == 2:
            return cond(self.cond_val(d), self.task(d), self.task(d))
        return self.t("first")([self.task(d), self.int(d)])

    def list(self, d):
        r = self.rng
        if r.random() < self.p_err / 3:
            return self.err(d)
        if d <= 0:
            return [self.lit() for _ in range(r.randrange(0, 3))]
        g = self.int
        k = r.randrange(18)
        if k <= 2:
            return [g(d - 1) for _ in range(r.randrange(0, self.max_fan + 1))]
        if k == 3:
            return self.t("mklist")(r.randrange(0, 4))
        if k == 4:
            return self.t("fan")(r.randrange(0, 4))
        if k == 5:
            self.f("map_")
            return map_(self.task(d - 1), [g(d - 1) for _ in range(r.randrange(0, self.max_fan + 1))])
        if k == 6:
            self.f("map_")
            return map_(self.task(d - 1), self.list(d - 1))
        if k == 7:
            self.f("map-fused")
            return map_(self.task(d - 1), map_(self.task(d - 1), self.list(d - 1)))
        if k == 8:
            self.f("map-task-expr")
            return map_(self.task_expr(d - 1), self.list(d - 1))
        if k == 9:
            self.f("flat_map")
            return self.t("flat_map")(r.choice([L.mklist, L.fan]), [r.randrange(0, 3) for _ in range(r.randrange(0, 3))])
        if k == 10:
            self.f("seq")
            return seq([g(d - 1) for _ in range(r.randrange(0, self.max_fan + 1))])
        if k == 11:
            self.f("seq")
            return self.t(r.choice(["seq_list", "mapper"]))(r.randrange(0, 4))
        if k == 12:
            return self.t("flatten")([self.list(d - 1), self.list(d - 1)])
        if k == 13:
            self.f("op")
            return self.t("mklist")(r.randrange(0, 3)) + self.list(d - 1)
        if k == 14:
            self.f("catch_all")
            return catch_all([g(d - 1) for _ in range(r.randrange(0, self.max_fan + 1))])
        if k == 15:
            self.f("fail-in-list")
            return self.t("fail_in_list")(r.randrange(0, 4), r.randrange(0, 5))
        if k == 16:
            self.f("cond")
            return self.cond_expr(d, self.list)
        self.f("catch")
        return catch(self.list(d - 1), self.classes(), self.t("rec_val"))

    def any(self, d):
        r = self.rng
        if d <= 0:
            return r.choice([None, True, "s", 4, (1, "a"), {"a": 1}, [], L.inc, ValueError("x")])
        k = r.randrange(24)
        g = self.int
        if k == 0:
            return g(d)
        if k == 1:
            return self.list(d)
        if k == 2:
            self.f("tuple")
            return tuple(self.any(d - 1) for _ in range(r.randrange(0, 3)))
        if k == 3:
            self.f("dict")
            return {"a": self.any(d - 1), r.choice(["b", 2, (1, "t")]): g(d - 1)}
        if k == 4:
            self.f("dict-expr-key")
            return {self.t("inc")(self.lit()): g(d - 1), "z": g(d - 1)}
        if k == 5:
            self.f("set")
            return {self.t("add")(g(d - 1), b=100), 1, 2}
        if k == 6:
            self.f("namedtuple")
            return L.P(g(d - 1), self.any(d - 1))
        if k == 7:
            self.f("dataclass")
            return L.D(a=g(d - 1), b=self.any(d - 1))
        if k == 8:
            self.f("namedtuple")
            return self.t("wrap_nt")(g(d - 1), self.any(d - 1))
        if k == 9:
            self.f("dataclass")
            return self.t("wrap_dc")(g(d - 1), g(d - 1))
        if k == 10:
            self.f("dict")
            return self.t("mkdict")(r.choice(["k", 5]), g(d - 1))
        if k == 11:
            return self.t("pair")(self.any(d - 1), g(d - 1))
        if k == 12:
            self.f("task-value")
            return [self.task(d - 1), self.t("identity")(self.task(d - 1))]
        if k == 13:
            self.f("expr-default")
            return self.t("addxx")(g(d - 1)) if r.random() < 0.5 else self.t("addxx")(g(d - 1), c=g(d - 1))
        if k == 14:
            self.f("catch")
            return catch(self.any(d - 1), self.classes(), self.t(r.choice(["rec_val", "rec_raise", "rec_reraise"])))
        if k == 15:
            self.f("catch")
            return catch(g(d - 1), self.classes(), self.t("rec_val"), self.classes(), self.t(r.choice(["rec_zero", "rec_raise"])))
        if k == 16:
            self.f("catch")
            return self.t("guard")(self.lit(), self.lit()) if r.random() < 0.5 else self.t("guard_deep")(r.choice(KINDS), self.tag())
        if k == 17 and r.random() < 0.6:
            return self.catch_all_multi(d - 1)
        if k == 17:
            self.f("catch_all")
            return catch_all((g(d - 1), g(d - 1), self.task(d - 1)), self.classes(), self.t("identity"))
        if k == 18:
            self.f("catch_all")
            return catch_all({"a": g(d - 1), "b": g(d - 1)}, self.classes(), self.t("identity"))
        if k == 19:
            self.f("apply_tags")
            return apply_tags(self.any(d - 1), tags=[("k", "v")], job_tags=[("j", self.lit())])
        if k == 20:
            self.f("fork-value")
            return fork_thread(g(d - 1))
        if k == 21:
            self.f("zip")
            return self.t("zip_")(self.list(d - 1), self.list(d - 1))
        if k == 22:
            self.f("catch")
            return catch(g(d - 1), self.classes(), L.pair.partial("caught"))
        self.f("cond")
        return self.cond_expr(d, self.any)

    def program(self, depth):
        if self.rng.random() < 0.06:
            return self.catch_all_multi(depth)
        if self.rng.random() < 0.08:
            return self.shared(depth)
        if self.rng.random() < 0.05:
            return self.fork_multi(depth)
        if self.rng.random() < 0.06:
            return self.shared_failing(depth)
        if self.rng.random() < 0.06:
            return self.lazy_container(depth)
        k = self.rng.randrange(10)
        if k <= 3:
            return self.int(depth)
        if k <= 5:
            return self.list(depth)
        return self.any(depth)
