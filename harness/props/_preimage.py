"""Shared by C15/C17/C18: observe the structures the real code feeds to `hash_struct` and rebuild the
symbolic pre-image (same text as lean/RedunModel/Model/PreRender.lean) of a digest.

Nothing in /repo is edited: `redun.hashing.hash_struct` and every name it was imported under in the other
redun modules are wrapped for the duration of a `with HashLog():` block."""
import sys


def hx(s):
    return s.encode("utf-8", "surrogatepass").hex()


class HashLog:
    """digest -> structure table, plus `leaves`: digest -> rendered leaf (labels chosen by the caller)."""

    def __init__(self):
        self.structs = {}     # digest -> struct given to hash_struct
        self.order = []       # (struct, digest) in call order
        self.leaves = {}      # digest -> rendered leaf text, e.g. "v3" or "(O (s6b i1))"
        self.opaque = {}      # digest -> text to render instead of expanding (e.g. a task hash kept symbolic)
        self._patched = []

    # ---------------------------------------------------------------- patching
    def __enter__(self):
        import redun.hashing as H
        orig = H.hash_struct
        if getattr(orig, "_verif_wrapped", False):
            raise RuntimeError("hash_struct already wrapped")
        log = self

        def hash_struct(struct):
            d = orig(struct)
            log.structs.setdefault(d, struct)
            log.order.append((struct, d))
            return d

        hash_struct._verif_wrapped = True
        self._orig = orig
        for name, mod in list(sys.modules.items()):
            if name == "redun" or name.startswith("redun."):
                if mod is not None and getattr(mod, "hash_struct", None) is orig:
                    setattr(mod, "hash_struct", hash_struct)
                    self._patched.append(mod)
        return self

    def __exit__(self, *exc):
        for mod in self._patched:
            setattr(mod, "hash_struct", self._orig)
        self._patched = []
        return False

    # ---------------------------------------------------------------- rendering
    def leaf_value(self, digest, label):
        self.leaves[digest] = "v%d" % label

    def leaf_opts(self, digest, items):
        """items: ordered list of (key, int label)"""
        self.leaves[digest] = "(O" + "".join(" (s%s i%d)" % (hx(k), n) for k, n in items) + ")"

    def render(self, x, depth=0):
        if depth > 60:
            raise RecursionError("pre-image too deep")
        if isinstance(x, str):
            if x in self.opaque:
                return self.opaque[x]
            if x in self.leaves:
                return self.leaves[x]
            if x in self.structs:
                return "(H " + self.render(self.structs[x], depth + 1) + ")"
            return "s" + hx(x)
        if isinstance(x, bool) or x is None:
            return "!bad-" + type(x).__name__
        if isinstance(x, int):
            return "i%d" % x
        if isinstance(x, bytes):
            return "b" + x.hex()
        if isinstance(x, (list, tuple)):
            return "(L" + "".join(" " + self.render(e, depth + 1) for e in x) + ")"
        if isinstance(x, dict):
            return "(D" + "".join(" (s%s %s)" % (hx(k), self.render(v, depth + 1)) for k, v in sorted(x.items())) + ")"
        return "!bad-" + type(x).__name__

    def lead_tags(self):
        """leading elements of every logged structure (for the record-tag check)"""
        out = {}
        for s, _ in self.order:
            t = s[0] if isinstance(s, (list, tuple)) and s and isinstance(s[0], str) else None
            out[t] = out.get(t, 0) + 1
        return out
