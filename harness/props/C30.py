"""C30 — file value hashes track the filesystem.
Model: lean/RedunModel/Model/FileSys.lean (classes, symbolic hashes) + Model/FileOps.lean (object state machine)."""
import json
import pickle

from props._filesys import World, r_path

ID = "C30"
READY = True          # on a /repo that carries harness/findings_proposed/C04-contentfile-missing.fix.diff and C30-dir-copy-to-update-hash.fix.diff
LEAN_MODULES = ["RedunModel.Props.C30", "RedunModel.Model.FileSysIO"]
LEAN_DRIVERS = ["C30"]
THEOREMS = [
    "RedunModel.C30.fresh_after_op",
    "RedunModel.C30.fresh_after_ops",
    "RedunModel.C30.open_hook_iff_writable",
    "RedunModel.C30.open_mode_table",
    "RedunModel.C30.valid_iff",
    "RedunModel.C30.valid_after_fresh",
    "RedunModel.C30.immutable_always_valid",
    "RedunModel.C30.idir_valid",
    "RedunModel.C30.file_hash_eq_iff",
    "RedunModel.C30.content_only",
    "RedunModel.C30.content_ignores_mtime",
    "RedunModel.C30.content_set_only",
    "RedunModel.C30.missing_deterministic",
    "RedunModel.C30.dir_hash_changes_on_add",
    "RedunModel.C30.dir_hash_changes_on_remove",
    "RedunModel.C30.dir_hash_local",
    "RedunModel.C30.content_dir_by_stat_note",
]
TRUSTED = [
    "hashes are symbolic in the model (a hash is its pre-image); the tie compares pre-images, recovered from the real "
    "digests through hooks on redun.file.hash_struct / hash_stream; SHA collisions are outside the claim",
    "modelled, not verified: POSIX semantics of open/write/append/os.remove/os.utime/shutil.copyfile/shutil.rmtree/"
    "glob('**', recursive=True)+isfile; the kernel clock is replaced by an explicit clock (the harness sets the mtime of "
    "every file redun writes or copies with os.utime, inside the LocalFileSystem._open/copy layer)",
    "sorted(member digests) is represented by the member pre-images in a fixed universe order (every member pre-image "
    "contains its own path)",
]
ASSUMPTIONS = [
    "local filesystem only, no permission errors; every top-level directory contains a symlink to a directory outside "
    "the tree, whose members count as members of the Dir / FileSet under the path through the link (what a recursive glob "
    "enumerates: symlinks followed, dot names skipped); link targets are never named directly (no aliasing); after "
    "Dir.rmdir(recursive) the link itself is gone and the path is re-created as a real directory by later writes",
    "file paths and directory paths are disjoint (a File is never pointed at a directory); all paths lie in a fixed "
    "universe of 23 file paths under 3 top-level directories with one real and one symlinked sub-directory each",
    "Dir.rmdir is exercised with recursive=True only; Dir.copy_to between non-overlapping or identical directories",
    "FileSet patterns are `<dir>/*` and `<dir>/**`",
    "out-of-band changes of the tree shape: a top-level directory (emptied first) is replaced by a regular file or by a "
    "symlink to itself, the objects below are hashed / validated / refreshed, then the blocker is removed; and File objects "
    "with an over-long name (ENAMETOOLONG). For the model these paths are simply missing. Not staged when a ContentFile "
    "object lies below the blocked directory: ContentFile._calc_hash opens the file and FileSystem.open turns ENOTDIR / "
    "ELOOP into RedunOSError (reported to the lead as an observation, not part of this check)",
    "File.open: ASCII payloads, one write at position 0 of the returned stream; exclusive-creation modes only on the two "
    "root-level files (LocalFileSystem creates parent directories for w/a modes only)",
    "integer mtimes (set explicitly); two writes may deliberately receive the same mtime",
    "ContentDir hashes its members by size/mtime (FileSystem.iter_file_hashes iterates the plain Dir): mirrored in the "
    "model and stated as a remark (content_dir_by_stat_note); the oracle's content-only clause covers ContentFile and "
    "ContentFileSet, which is what the statement's 'content-hashed files' names; of a ContentDir the oracle demands only "
    "that its hash is a function of its members' size/mtime/bytes and separates different member sets / sizes",
    "the oracle reads 'tracks the filesystem' as: per value, the fresh hash is a function of the state the value names "
    "(File: existence/size/mtime; ContentFile/ContentFileSet: bytes; Dir/FileSet: member set with size/mtime) and "
    "different such states give different hashes (within one generated case)",
]
RULE = ("op sequences (6-14 ops) over 3-7 objects of the 9 file classes + Staging values in a temp dir: write/append/"
        "open(mode) in all spellings of r, r+, w, w+, a, a+, x, x+ with b/t (written through the stream; context manager or "
        "close) /"
        "remove/touch/copy_to/stage/unstage/mkdir/rmdir/Dir.copy_to/StagingDir.stage, hash/update_hash/is_valid/pickle "
        "round trip, and external writes/removes; after every op the cached and the freshly computed hash pre-image of "
        "every object is compared with the model, and the property oracle (fresh after write/copy/stage; is_valid <-> hash "
        "comparison; hash <-> named state bijective; no exception, deterministic) is applied to the real objects. distinct = "
        "distinct op-sequence texts; non-trivial = the sequence contains at least one redun-mediated write/copy/stage")
LEVEL_TEXT = ("Proved in Lean for all filesystems, universes and op sequences (full strength, on the model of the repaired "
              "code): fresh_after_op / fresh_after_ops (after every redun-mediated write, append, copy_to, stage, unstage, "
              "mkdir, rmdir, Dir.copy_to, StagingDir.stage/unstage that reports success, the target's cached hash equals "
              "the hash recomputed from the filesystem), valid_iff (is_valid <-> recorded hash = current hash; immutable "
              "classes always valid), content_only / content_set_only (ContentFile / ContentFileSet hash pre-images are "
              "equal iff path and bytes are), missing_deterministic (hashing a missing path is a total function with a "
              "fixed value), dir_hash_changes_on_add/remove and dir_hash_local (Dir hashes follow membership). "
              "Tied to /repo by replaying generated op sequences on the real classes and comparing hash pre-images after "
              "every op.")
LEVEL_NOTE = ("The model mirrors /repo with two proposed repairs (ContentFile of a missing path; Dir.copy_to refreshing the "
              "destination hash); on a tree without them the check reports the violation with a replay. POSIX behaviour, "
              "glob, the kernel clock and SHA are modelled/assumed, not verified; remote filesystems (s3, gs, az, fsspec) are "
              "outside the model.")
TECHNIQUE = "Lean 4 proof on a state-machine model + differential replay of op sequences with pre-image comparison"

TOPS = [("d1",), ("d2",), ("d3",)]
SUBS = [("d1", "s"), ("d2", "s"), ("d3", "s")]
U = [("f",), ("g",)]
for _d in TOPS:
    U += [_d + (x,) for x in "abc"] + [_d + ("s", x) for x in "ac"]
# every top-level directory has a symlinked sub-directory dX/l -> <ext>/LdX (target outside the tree); its members are
# named through the link (what glob enumerates); a hidden file d1/.h exists and is never a member
for _d in TOPS:
    U += [_d + ("l", x) for x in "ac"]
DATA = [b"", b"a", b"b", b"ab", b"ba", b"abc", b"\x00\xff", b"hello world"]


def prepare_tree(w):
    import os
    for d in TOPS:
        os.makedirs(os.path.join(w.ext, "L" + d[0]))
        w.link(d + ("l",), os.path.join(w.ext, "L" + d[0]))
    w.xwrite(("d1", ".h"), b"hidden", 900)
MODES_READ = ["r", "rb", "rt"]
MODES_UPDATE = ["r+", "r+b", "rb+", "r+t"]
MODES_WRITE = ["w", "wb", "wt", "w+", "w+b", "wb+", "a", "ab", "a+", "a+b", "ab+"]
MODES_EXCL = ["x", "xb", "x+", "xb+"]          # no _ensure_dir for x: only generated for the root-level files f, g
ASCII = [b"", b"a", b"b", b"ab", b"ba", b"abc", b"hello world"]
REDUN_WRITES = {"open", "write", "append", "copy", "stage", "unstage", "mkdir", "rmdir", "dcopy", "dstage", "dunstage"}


# ---------------------------------------------------------------------- generator
def gen_spec(rng):
    k = rng.random()
    fam = rng.choice(["plain", "plain", "content", "content", "imm"])
    if k < 0.5:
        return ("file", fam, rng.choice(U))
    if k < 0.75:
        return ("dir", fam, rng.choice(TOPS + TOPS + SUBS))
    if k < 0.92:
        return ("fset", fam, rng.choice([()] + TOPS + SUBS), rng.random() < 0.5)
    return ("staging", rng.random() < 0.5, fam, rng.choice(U), rng.choice(U))


def dir_compatible(a, b):
    # keep Dir.copy_to inside the universe: same level, or sub -> top; never overlapping unless identical
    if a == b:
        return True
    if a[:len(b)] == b or b[:len(a)] == a:
        return False
    return len(a) >= len(b)


def gen_case(rng, nops):
    ops = []
    specs = []
    t = [1000]

    def tick():
        r = rng.random()
        if r < 0.2:
            return t[0]                      # same mtime as the previous write
        if r < 0.3:
            return rng.choice([0, 1, 999, 1000])
        t[0] += rng.choice([1, 1, 2, 10])
        return t[0]

    def new():
        s = gen_spec(rng)
        specs.append(s)
        ops.append(("new", s))
    for _ in range(rng.choice([3, 4, 5])):
        new()
    for _ in range(rng.choice([0, 2, 4, 6])):
        ops.append(("xwrite", rng.choice(U), rng.choice(DATA), tick()))
    for _ in range(nops):
        files = [i for i, s in enumerate(specs) if s[0] == "file"]
        dirs = [i for i, s in enumerate(specs) if s[0] == "dir"]
        nonst = [i for i, s in enumerate(specs) if s[0] != "staging"]
        k = rng.random()
        i = rng.randrange(len(specs))
        if k < 0.06 and len(specs) < 7:
            new()
        elif k < 0.14:
            ops.append(("hash", i))
        elif k < 0.18 and nonst:
            ops.append(("update", rng.choice(nonst)))
        elif k < 0.30:
            ops.append(("valid", i))
        elif k < 0.34 and nonst:
            ops.append(("reload", rng.choice(nonst)))
        elif k < 0.40 and files:
            ops.append((rng.choice(["write", "write", "append"]), rng.choice(files), rng.choice(DATA), tick()))
        elif k < 0.46 and files:
            # File.open(mode) in every spelling, written through the returned stream; often right after the hash was cached
            f = rng.choice(files)
            roots = [j for j in files if len(specs[j][2]) == 1]
            mode = rng.choice(MODES_UPDATE * 3 + MODES_WRITE + MODES_READ + (MODES_EXCL if roots else []))
            if mode in MODES_EXCL:
                f = rng.choice(roots)
            if rng.random() < 0.6:
                ops.append(("hash", f))
            ops.append(("open", f, mode, rng.choice(ASCII), tick(), rng.random() < 0.5))
        elif k < 0.50 and files:
            ops.append(("remove", rng.choice(files)))
        elif k < 0.54 and files:
            ops.append(("touch", rng.choice(files), tick()))
        elif k < 0.62 and files:
            ops.append(("copy", rng.choice(files), rng.choice(files), rng.random() < 0.25, tick()))
        elif k < 0.67 and files:
            ops.append((rng.choice(["stage", "unstage"]), rng.choice(files), rng.choice(files), tick()))
        elif k < 0.70 and dirs:
            ops.append(("mkdir", rng.choice(dirs)))
        elif k < 0.74 and dirs:
            ops.append(("rmdir", rng.choice(dirs)))
        elif k < 0.86 and dirs:
            a, b = rng.choice(dirs), rng.choice(dirs)
            kind = rng.choice(["dcopy", "dcopy", "dstage", "dunstage"])
            src, dst = (b, a) if kind == "dstage" else (a, b)
            if dir_compatible(specs[src][2], specs[dst][2]):
                if kind == "dcopy":
                    ops.append(("dcopy", a, b, rng.random() < 0.25, tick()))
                else:
                    ops.append((kind, a, b, tick()))
        elif k < 0.89 and files:
            # out-of-band change of the tree SHAPE: a directory is replaced by a regular file / a symlink loop, so that every
            # path below it is unreachable (ENOTDIR / ELOOP); only observations while it lasts; then the blocker is removed.
            # Not staged for directories with a ContentFile object below (see ASSUMPTIONS).
            d = rng.choice(TOPS)
            if not any(sp[0] == "file" and sp[1] == "content" and sp[2][:1] == d for sp in specs):
                for pth in [q for q in U if q[:1] == d]:
                    ops.append(("xremove", pth))
                root_sets = any(sp[0] == "fset" and sp[2] == () for sp in specs)   # a root-level FileSet would list the blocker file
                ops.append(("xblock", d, "loop" if root_sets else rng.choice(["file", "loop"])))
                under = [j for j in files if specs[j][2][:1] == d] or files
                for _ in range(rng.choice([2, 3, 4])):
                    ops.append((rng.choice(["valid", "valid", "hash", "update", "reload"]), rng.choice(under)))
                ops.append(("xunblock", d))
        elif k < 0.95:
            ops.append(("xwrite", rng.choice(U), rng.choice(DATA), tick()))
        else:
            ops.append(("xremove", rng.choice(U)))
    return ops


CORPUS = [
    # F23: Dir.copy_to / StagingDir.stage leave the destination Dir's already computed hash stale
    [("new", ("dir", "plain", ("d1",))), ("new", ("dir", "plain", ("d2",))), ("xwrite", ("d1", "a"), b"a", 1001),
     ("hash", 1), ("dcopy", 0, 1, False, 1002), ("valid", 1)],
    [("new", ("dir", "content", ("d1",))), ("new", ("dir", "content", ("d2",))), ("xwrite", ("d2", "s", "c"), b"ab", 1001),
     ("hash", 0), ("dstage", 0, 1, 1002), ("valid", 0)],
    [("new", ("dir", "plain", ("d1", "s"))), ("new", ("dir", "plain", ("d3",))), ("xwrite", ("d1", "s", "a"), b"a", 1001),
     ("hash", 1), ("dunstage", 0, 1, 1005), ("valid", 1)],
    # F3: hashing / validating a ContentFile whose path is missing
    [("new", ("file", "content", ("f",))), ("hash", 0), ("valid", 0)],
    [("new", ("file", "content", ("f",))), ("write", 0, b"abc", 1001), ("remove", 0), ("valid", 0), ("update", 0)],
    [("new", ("file", "content", ("d1", "a"))), ("xwrite", ("d1", "a"), b"a", 1001), ("reload", 0), ("xremove", ("d1", "a")),
     ("valid", 0)],
    # content hashed: touch and same-bytes rewrite keep the hash, other bytes change it
    [("new", ("file", "content", ("g",))), ("write", 0, b"ab", 1001), ("touch", 0, 1009), ("valid", 0),
     ("xwrite", ("g",), b"ab", 1010), ("valid", 0), ("xwrite", ("g",), b"ba", 1010), ("valid", 0)],
    # stat hashed: same size and mtime is (by design) the same hash; size or mtime change is not
    [("new", ("file", "plain", ("g",))), ("write", 0, b"ab", 1001), ("xwrite", ("g",), b"ba", 1001), ("valid", 0),
     ("xwrite", ("g",), b"ba", 1002), ("valid", 0), ("update", 0), ("xwrite", ("g",), b"b", 1002), ("valid", 0)],
    # two objects on one path: writing through one leaves the other stale (not claimed fresh), is_valid says so
    [("new", ("file", "plain", ("f",))), ("new", ("file", "plain", ("f",))), ("write", 0, b"a", 1001), ("hash", 1),
     ("write", 0, b"ab", 1002), ("valid", 1), ("valid", 0)],
    # Dir / FileSet membership
    [("new", ("dir", "plain", ("d1",))), ("new", ("fset", "plain", ("d1",), False)), ("new", ("fset", "content", ("d1",), True)),
     ("xwrite", ("d1", "a"), b"a", 1001), ("hash", 0), ("hash", 1), ("hash", 2), ("xwrite", ("d1", "s", "c"), b"a", 1001),
     ("valid", 0), ("valid", 1), ("valid", 2), ("xremove", ("d1", "a")), ("valid", 0), ("valid", 1), ("valid", 2)],
    # members behind a symlinked sub-directory
    [("new", ("dir", "plain", ("d1",))), ("new", ("dir", "content", ("d2",))), ("new", ("file", "plain", ("d1", "l", "a"))),
     ("write", 2, b"ab", 1001), ("hash", 0), ("xwrite", ("d1", "l", "a"), b"abc", 1002), ("valid", 0), ("update", 0), ("xremove", ("d1", "l", "a")),
     ("valid", 0), ("dcopy", 0, 1, False, 1003), ("valid", 1), ("xwrite", ("d2", "l", "c"), b"c", 1004), ("valid", 1), ("rmdir", 0), ("valid", 0)],
    # File.open in update modes: in-place write through the stream, hash cached before
    [("new", ("file", "plain", ("f",))), ("new", ("file", "content", ("f",))), ("write", 0, b"abc", 1001), ("hash", 1),
     ("open", 0, "r+", b"x", 1002, True), ("valid", 0), ("open", 1, "r+b", b"yz", 1003, False), ("valid", 1), ("hash", 0),
     ("open", 0, "rb+", b"", 1004, True), ("valid", 0), ("open", 1, "rb", b"", 1005, True), ("valid", 1),
     ("open", 0, "x", b"q", 1006, True), ("remove", 0), ("open", 1, "r+", b"q", 1007, True), ("open", 1, "xb", b"new", 1008, False),
     ("valid", 1), ("open", 0, "a+", b"!", 1009, True), ("valid", 0), ("open", 0, "w+b", b"", 1010, False), ("valid", 0)],
    # the directory of a written file is replaced by a regular FILE, then by a symlink loop: the path is unreachable
    # (ENOTDIR / ELOOP), hash / is_valid / update_hash must treat it like a missing file; also an over-long file name
    [("new", ("file", "plain", ("d3", "a"))), ("new", ("file", "plain", ("d3", "s", "c"))), ("new", ("dir", "plain", ("d3",))),
     ("write", 0, b"abc", 1001), ("write", 1, b"ab", 1002), ("hash", 2), ("xremove", ("d3", "a")), ("xremove", ("d3", "s", "c")),
     ("xblock", ("d3",), "file"), ("valid", 0), ("hash", 1), ("update", 0), ("valid", 1), ("reload", 0), ("valid", 2), ("xunblock", ("d3",)),
     ("valid", 0), ("write", 0, b"abc", 1003), ("valid", 0), ("xremove", ("d3", "a")), ("xblock", ("d3",), "loop"), ("valid", 0), ("update", 1),
     ("hash", 0), ("xunblock", ("d3",)), ("valid", 1)],
    [("new", ("file", "plain", ("d1", "n" * 300))), ("new", ("file", "plain", ("n" * 256,))), ("hash", 0), ("valid", 0), ("update", 1), ("valid", 1),
     ("reload", 0), ("valid", 0)],
    # immutable classes
    [("new", ("file", "imm", ("f",))), ("new", ("dir", "imm", ("d1",))), ("new", ("fset", "imm", ("d1",), True)),
     ("hash", 0), ("hash", 1), ("hash", 2), ("xwrite", ("f",), b"a", 1001), ("xwrite", ("d1", "a"), b"a", 1001),
     ("valid", 0), ("valid", 1), ("valid", 2), ("write", 0, b"abc", 1003), ("rmdir", 1), ("valid", 1)],
    # copy errors and skip
    [("new", ("file", "plain", ("f",))), ("new", ("file", "content", ("g",))), ("copy", 0, 1, False, 1001),
     ("write", 0, b"a", 1002), ("copy", 0, 0, False, 1003), ("copy", 0, 1, True, 1004), ("copy", 0, 1, True, 1005),
     ("stage", 0, 0, 1006), ("stage", 1, 0, 1007), ("unstage", 1, 0, 1008)],
    # Dir.copy_to onto itself, with and without skip; staging values
    [("new", ("dir", "plain", ("d1",))), ("xwrite", ("d1", "a"), b"a", 1001), ("dcopy", 0, 0, True, 1002),
     ("dcopy", 0, 0, False, 1003), ("new", ("staging", False, "plain", ("f",), ("g",))),
     ("new", ("staging", True, "content", ("d1",), ("d2",))), ("hash", 1), ("hash", 2), ("valid", 1), ("valid", 2)],
    [("new", ("dir", "plain", ("d1",))), ("new", ("dir", "plain", ("d2",))), ("mkdir", 0), ("xwrite", ("d1", "b"), b"b", 1001),
     ("valid", 0), ("rmdir", 0), ("valid", 0), ("dcopy", 0, 1, False, 1002), ("valid", 1)],
]


# ---------------------------------------------------------------------- protocol
def model_line(op):
    k = op[0]
    if k == "new":
        return "(new %s)" % World.r_val(op[1])
    if k in ("hash", "reload"):
        return "(hash i%d)" % op[1]
    if k in ("update", "valid", "remove", "mkdir", "rmdir"):
        return "(%s i%d)" % (k, op[1])
    if k in ("write", "append"):
        return "(%s i%d b%s i%d)" % (k, op[1], op[2].hex(), op[3])
    if k == "open":
        return "(open i%d s%s b%s i%d)" % (op[1], op[2].encode().hex(), op[3].hex(), op[4])
    if k == "touch":
        return "(touch i%d i%d)" % (op[1], op[2])
    if k in ("copy", "dcopy"):
        return "(%s i%d i%d %s i%d)" % (k, op[1], op[2], "T" if op[3] else "F", op[4])
    if k in ("stage", "unstage", "dstage", "dunstage"):
        return "(%s i%d i%d i%d)" % (k, op[1], op[2], op[3])
    if k == "xwrite":
        return "(xwrite %s b%s i%d)" % (r_path(op[1]), op[2].hex(), op[3])
    if k == "xremove":
        return "(xremove %s)" % r_path(op[1])
    if k in ("xblock", "xunblock"):
        return "(xremove %s)" % r_path(op[1] + ("a",))        # nothing changes for the model: no file is below any more
    raise ValueError(op)


def target(op):
    k = op[0]
    if k in ("write", "append", "mkdir", "rmdir", "stage", "dstage"):
        return op[1]
    if k == "open":
        # the harness's own reading of "written through redun": the mode permits writing
        return op[1] if set(op[2]) & set("wax+") else None
    if k in ("copy", "unstage", "dcopy", "dunstage"):
        return op[2]
    return None


def enc_case(ops):
    def e(x):
        if isinstance(x, bytes):
            return {"hex": x.hex()}
        if isinstance(x, tuple):
            return [e(y) for y in x]
        return x
    return [e(op) for op in ops]


def dec_case(js):
    def d(x):
        if isinstance(x, dict):
            return bytes.fromhex(x["hex"])
        if isinstance(x, list):
            return tuple(d(y) for y in x)
        return x
    return [d(op) for op in js]


# ---------------------------------------------------------------------- real execution
def do_op(w, objs, op):
    rf = w.rf
    k = op[0]
    try:
        if k == "new":
            objs.append(w.make(op[1]))
            return "ok"
        if k == "hash":
            return w.r_hash(w.hash_of(objs[op[1]]))
        if k == "reload":
            o2 = pickle.loads(pickle.dumps(objs[op[1]]))
            objs[op[1]] = o2
            return w.r_hash(w.hash_of(o2))
        if k == "update":
            objs[op[1]].update_hash()
            return "ok"
        if k == "valid":
            return "T" if objs[op[1]].is_valid() else "F"
        if k in ("write", "append"):
            w.clock = op[3]
            objs[op[1]].write(op[2], mode="wb" if k == "write" else "ab")
            return "ok"
        if k == "open":
            w.clock = op[4]
            mode, data = op[2], op[3]
            payload = data if "b" in mode else data.decode("ascii")
            writes = bool(set(mode) & set("wax+"))
            if op[5]:
                with objs[op[1]].open(mode) as f:
                    f.write(payload) if writes else f.read(0)
            else:
                f = objs[op[1]].open(mode)
                f.write(payload) if writes else f.read(0)
                f.close()
            return "ok"
        if k == "remove":
            objs[op[1]].remove()
            return "ok"
        if k == "touch":
            w.clock = op[2]
            objs[op[1]].touch((op[2], op[2]))
            return "ok"
        if k == "mkdir":
            objs[op[1]].mkdir()
            return "ok"
        if k == "rmdir":
            objs[op[1]].rmdir(recursive=True)
            return "ok"
        before = w.copies
        if k in ("copy", "dcopy"):
            w.clock = op[4]
            objs[op[1]].copy_to(objs[op[2]], skip_if_exists=op[3])
        elif k in ("stage", "unstage"):
            w.clock = op[3]
            st = rf.StagingFile(objs[op[1]], objs[op[2]])
            st.stage() if k == "stage" else st.unstage()
        elif k in ("dstage", "dunstage"):
            w.clock = op[3]
            st = rf.StagingDir(objs[op[1]], objs[op[2]])
            st.stage() if k == "dstage" else st.unstage()
        elif k == "xwrite":
            w.xwrite(op[1], op[2], op[3])
            return "ok"
        elif k == "xremove":
            w.xremove(op[1])
            return "ok"
        elif k == "xblock":
            import os
            import shutil
            p = w.abs(op[1])
            if os.path.islink(p) or os.path.isfile(p):
                os.remove(p)
            elif os.path.isdir(p):
                shutil.rmtree(p)
            if op[2] == "file":
                with open(p, "wb") as f:
                    f.write(b"not a directory")
            else:
                os.symlink(p, p)                    # a symlink to itself: ELOOP for everything below
            return "ok"
        elif k == "xunblock":
            import os
            p = w.abs(op[1])
            if os.path.islink(p) or os.path.isfile(p):
                os.remove(p)
            return "ok"
        else:
            raise ValueError(op)
        if k in ("copy", "stage", "unstage"):
            return "ok" if w.copies > before else "skipped"
        if k in ("dstage", "dunstage") and objs[op[1]].path == objs[op[2]].path:
            return "skipped"
        return "ok"
    except Exception as e:  # noqa: BLE001
        return "!" + type(e).__name__


def real_dump(w, objs):
    out = []
    for o in objs:
        c = w.r_hash(getattr(o, "_hash", None))
        try:
            f = w.r_hash(w.hash_of(w.fresh(o)))
        except Exception as e:  # noqa: BLE001
            f = "!" + type(e).__name__
        out.append("(%s %s)" % (c, f))
    return "(" + " ".join(out) + ")"


def oracle(ctx, w, objs, specs, op, out, case, tables):
    """The property statement applied to the real objects after `op` (reply `out`)."""
    rf = w.rf
    k = op[0]
    # (1) after a redun-mediated write/copy/stage the target's hash equals a freshly computed one
    tg = target(op)
    if tg is not None and out == "ok":
        o = objs[tg]
        try:
            fresh = w.hash_of(w.fresh(o))
            if getattr(o, "_hash", None) != fresh:
                sig = "C30-dir-copy-to-stale-dest-hash" if k in ("dcopy", "dstage", "dunstage") else "C30-stale-hash-after-" + k
                ctx.violation(sig, "after %s the target's cached hash differs from a freshly computed hash" % k, case=case,
                              expected=w.r_hash(fresh), actual=w.r_hash(getattr(o, "_hash", None)), kind="history")
        except FileNotFoundError:
            pass        # reported by (4)
    # (0) hashing, validating, refreshing never raise (a path that cannot be reached hashes like a missing file)
    if k in ("hash", "valid", "update", "reload") and out.startswith("!"):
        ctx.violation("C30-hash-or-validity-raises", "%s of %s raised %s instead of treating an unreachable path like a missing "
                      "file" % (k, specs[op[1]], out[1:]), case=case, expected="a hash / True / False", actual=out, kind="history")
    # (2) valid exactly when recorded hash = current hash
    if k == "valid" and out in ("T", "F") and "recorded" in tables:
        rec = tables.pop("recorded")
        if rec is not None:
            o = objs[op[1]]
            try:
                cur = w.hash_of(w.fresh(o))
                if (out == "T") != (rec == cur):
                    ctx.violation("C30-is-valid-disagrees-with-hash-comparison",
                                  "is_valid() differs from (recorded hash == current hash)", case=case,
                                  expected=str(rec == cur), actual=out, kind="history")
            except FileNotFoundError:
                pass
    # (3)+(4) content-hashed: hash is a function of (path, bytes) and injective in it; hashing never raises and is
    # deterministic, in particular for missing paths
    snap = w.snapshot()
    for o, s in zip(objs, specs):
        if s[0] == "staging":
            continue
        try:
            h1 = w.hash_of(w.fresh(o))
            h2 = w.hash_of(w.fresh(o))
        except Exception as e:  # noqa: BLE001
            missing = s[0] == "file" and w.read(s[2]) is None
            sig = "C30-contentfile-missing-path-raises" if (missing and s[1] == "content") else "C30-hash-raises"
            ctx.violation(sig, "hashing %s raised %s instead of giving a deterministic hash" % (s, type(e).__name__),
                          case=case, expected="a hash", actual="!" + type(e).__name__, kind="history")
            continue
        if h1 != h2:
            ctx.violation("C30-hash-nondeterministic", "two fresh hashes of an unchanged path differ", case=case,
                          expected=h1, actual=h2, kind="history")
        fine, coarse = World.state_keys(s, snap)
        by_fine, by_hash = tables.setdefault("fine", {}), tables.setdefault("hash", {})
        if by_fine.setdefault((s, fine), h1) != h1:
            ctx.violation("C30-hash-not-a-function-of-state", "two hashes for the same filesystem state of %s" % (s,),
                          case=case, expected=w.r_hash(by_fine[(s, fine)]), actual=w.r_hash(h1), kind="history")
        if by_hash.setdefault((s, h1), coarse) != coarse:
            sig = "C30-content-hash-not-content-only" if s[1] == "content" and s[0] in ("file", "fset") else "C30-hash-does-not-track-state"
            ctx.violation(sig, "the same hash for two different filesystem states of %s (size/mtime/bytes/membership)" % (s,),
                          case=case, expected="different hashes", actual=w.r_hash(h1), kind="history")


def run_case(ctx, w, ops, model_replies, label):
    """Replay one case on the real classes; compare with the model replies (op reply, dump) pairwise."""
    w.reset()
    prepare_tree(w)
    w.struct_of.clear()
    w.bytes_of.clear()
    objs, specs, tables = [], [], {}
    case = {"ops": enc_case(ops), "label": label}
    it = iter(model_replies)
    next(it)                               # reply to init
    diverged = False
    for n, op in enumerate(ops):
        if op[0] == "new":
            specs.append(op[1])
        if op[0] == "valid":
            tables["recorded"] = getattr(objs[op[1]], "_hash", None)
        out = do_op(w, objs, op)
        dump = real_dump(w, objs)
        m_out, m_dump = next(it), next(it)
        if not diverged and (out != m_out or dump != m_dump):
            diverged = True
            ctx.mismatch("C30 op %d %s: model and real file classes disagree" % (n, op[0]), case=case,
                         model={"reply": m_out, "dump": m_dump}, impl={"reply": out, "dump": dump})
        oracle(ctx, w, objs, specs, op, out, case, tables)


def lines_for(ops):
    lines = ["(init (%s))" % " ".join(r_path(p) for p in U)]
    for op in ops:
        lines.append(model_line(op))
        lines.append("(dump)")
    return lines


def run_cases(ctx, cases):
    lines, spans = [], []
    for label, ops in cases:
        ls = lines_for(ops)
        spans.append((len(lines), len(lines) + len(ls)))
        lines += ls
    replies = ctx.model("C30", lines)
    bad = [r for r in replies if r.startswith("bad-")]
    if bad:
        ctx.mismatch("model driver rejected a generated request (generator left the modelled domain)", case=None,
                     model=bad[0], impl=None)
    with World(U) as w:
        for (label, ops), (a, b) in zip(cases, spans):
            kinds = [op[0] for op in ops]
            text = "\n".join(lines[a:b])
            ctx.case(key=text if REDUN_WRITES & set(kinds) else None,
                     sample={"label": label, "ops": [model_line(op) for op in ops][:14]},
                     n_ops=min(len(ops) // 4 * 4, 20))
            for kd in kinds:
                ctx.count("op", kd)
            for op in ops:
                if op[0] == "new":
                    ctx.count("class", op[1][0] + "/" + (op[1][2] if op[1][0] == "staging" else op[1][1]))
            run_case(ctx, w, ops, replies[a:b], label)


def run(ctx):
    cases = [("corpus-%d" % i, ops) for i, ops in enumerate(CORPUS)]
    rng = ctx.rng
    for i in range(ctx.n(300, 5000)):
        cases.append(("gen-%d" % i, gen_case(rng, rng.choice([6, 8, 10, 14]))))
    run_cases(ctx, cases)


def replay(ctx, case):
    c = case.get("case") or {}
    if not isinstance(c, dict) or "ops" not in c:
        ctx.note("replay file has no op sequence; running the normal check")
        return run(ctx)
    ops = dec_case(c["ops"])
    print("replay:", json.dumps([model_line(op) for op in ops]))
    run_cases(ctx, [("replay", ops)])
