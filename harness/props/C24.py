"""C24 — tag history (redun tag add | update | rm) behaves like a key-value multiset; the edit graph is acyclic.
Model: lean/RedunModel/Model/Tags.lean; theorems: lean/RedunModel/Props/C24.lean."""
import io
import itertools
import json
import logging
from argparse import Namespace

from core import Infra, unsx

ID = "C24"
READY = True
LEAN_MODULES = ["RedunModel.Props.C24"]
LEAN_DRIVERS = ["C24"]
THEOREMS = [
    "RedunModel.C24.run_total",
    "RedunModel.C24.inv_run",
    "RedunModel.C24.acyclic",
    "RedunModel.C24.current_iff_leaf",
    "RedunModel.C24.edit_iff_parent",
    "RedunModel.C24.fresh_with_parents",
    "RedunModel.C24.refines_spec",
    "RedunModel.C24.readd_current",
]
TRUSTED = [
    "modelled, not verified: hash_tag is a perfect hash of its pre-image (entity_id, key, json_dumps(value), sorted parents); "
    "the model names each distinct pre-image by its creation index, the harness maps real digests to pre-images by wrapping "
    "hash_tag and compares canonical terms (never digests)",
    "modelled, not verified: JSON normalisation of tag values (json.dumps with sorted keys) — two values are the same tag value iff "
    "their normalised texts are equal; sqlite/SQLAlchemy row visibility inside the backend's single session; "
    "`sorted(parents)` (any canonical order of a duplicate-free list)",
    "commit atomicity is not modelled: the model has no uncommitted state; theorem fresh_with_parents shows the only "
    "uncommitted write in record_tags (the is_current UPDATE without a following commit) is unreachable from the CLI commands",
]
ASSUMPTIONS = [
    "entities are existing Execution / Job / CallNode / Value records addressed by their full id (never the empty id used by delete markers)",
    "tag values are JSON values without floats (ints, strings, booleans, null, lists, objects); keys are non-empty strings without '='",
    "`redun tag rm` is given `--` before a leading bare key (the CLI would otherwise read it as an entity id)",
    "tags are compared on supports (set of current (key, value) pairs per entity): the property text does not fix multiplicities; "
    "the model itself mirrors the multiplicities and those are compared model-vs-code",
]
RULE = ("histories of `redun tag add|update|rm` commands (1-2 entities per command, 1-3 pairs, rm by pair and by key) over up to 3 "
        "entities of a real in-memory repository holding one execution, 2-3 keys, 9 JSON values written in varying spellings; "
        "a fixed corpus first, exhaustive small scopes, then seeded random histories; executed through RedunClient.tag_*_command; "
        "after every command get_tags per entity and the whole (tag, tag_edit, is_current) relation (digests replaced by their "
        "logged pre-images) are compared with the Lean model, and the spec oracle (multiset model on supports, acyclic edit graph) is "
        "applied to the real tables. distinct = distinct command sequences; non-trivial = at least 2 commands")
LEVEL_TEXT = ("Full strength on the model: for every sequence of add/update/rm commands on real entities the run never exhausts the walk fuel "
              "(run_total), keeps the invariant (inv_run: edits point from a tag to a tag that lists it as parent, ids increase along "
              "edits, a tag is current iff it has no outgoing edit — current_iff_leaf), the edit graph is acyclic (acyclic), a tag proposed "
              "with current parents is always new (fresh_with_parents), and the current pairs of every entity equal those of the key-value "
              "reference (refines_spec, on supports), in particular a re-added pair is current again (readd_current). "
              "Tied to /repo by step-by-step comparison of get_tags and of the tag/tag_edit tables with the model.")
LEVEL_NOTE = ("The model mirrors record_tags/delete_tags as repaired by the fix commit proposed with this property "
              "(harness/findings_proposed/C24-tags.fix.diff: same pair twice in one command, null-valued pair in rm, rm without pair or key); "
              "the three former failing histories are corpus cases that must now pass. Not modelled: transactions (commit points), "
              "concurrent writers, the scheduler's own record_tags(new=False) calls during a run, CLI argument parsing beyond key=value "
              "splitting.")
TECHNIQUE = "Lean 4 proof on an executable model of record_tags/delete_tags + differential run against the real backend through the CLI commands"

# ------------------------------------------------------------------ values and spellings
# (canonical python value, list of CLI spellings)
VALUES = [
    (1, ["1"]),
    (2, ["2"]),
    ("a", ["a", '"a"']),
    ("1", ['"1"']),
    ([1], ["[1]", "[ 1 ]"]),
    ({"a": 1, "b": [2]}, ['{"a":1,"b":[2]}', '{"b": [2], "a": 1}']),
    (True, ["true"]),
    (None, ["null", ""]),
    ("x y", ['"x y"', "x y"]),
]
KEYS = ["k", "j", "ns.k"]


def cj(v):
    return json.dumps(v, sort_keys=True, separators=(",", ":"))


# A history is a list of commands: {"op": "add"|"update"|"rm", "ents": [int], "kvs": [[key, valueIndex, spelling]], "keys": [key]}
def gen_cmd(rng, nent, nkeys, nvals):
    op = rng.choice(["add", "add", "add", "update", "update", "rm", "rm", "rm"])
    ents = [rng.randrange(nent)]
    if rng.random() < 0.15:
        ents.append(rng.randrange(nent))
        ents = list(dict.fromkeys(ents))
    n = rng.choice([1, 1, 1, 2, 2, 3])
    kvs = []
    for _ in range(n):
        vi = rng.randrange(nvals)
        kvs.append([rng.choice(KEYS[:nkeys]), vi, rng.randrange(len(VALUES[vi][1]))])
    if rng.random() < 0.08 and kvs:
        kvs.append(list(kvs[0]))        # the same pair twice in one command
    keys = []
    if op == "rm":
        r = rng.random()
        if r < 0.3:
            keys = [kv[0] for kv in kvs]
            kvs = []
        elif r < 0.45:
            keys = [rng.choice(KEYS[:nkeys])]
        elif r < 0.49:
            kvs, keys = [], []          # `redun tag rm <id> --`
    return {"op": op, "ents": ents, "kvs": kvs, "keys": keys}


def gen_history(rng, maxlen):
    nent = rng.choice([1, 1, 2, 3])
    nkeys = rng.choice([1, 2, 2, 3])
    nvals = rng.choice([2, 3, 3, len(VALUES)])
    return [gen_cmd(rng, nent, nkeys, nvals) for _ in range(rng.randrange(1, maxlen + 1))]


def C(op, kvs=(), keys=(), ents=(0,)):
    return {"op": op, "ents": list(ents), "kvs": [[k, v, 0] for k, v in kvs], "keys": list(keys)}


CORPUS = [
    # the two non-vacuity sequences of the theorems
    [C("add", [("k", 0)]), C("rm", [("k", 0)]), C("add", [("k", 0)]), C("rm", [("k", 0)]), C("add", [("k", 0)])],
    [C("add", [("k", 0)]), C("update", [("k", 0)]), C("rm", [("k", 0)])],
    # root tag re-added next to an updated copy (multiplicity 2), then removed
    [C("add", [("k", 0)]), C("add", [("k", 1)]), C("update", [("k", 0)]), C("add", [("k", 0)]), C("rm", [("k", 0)])],
    [C("add", [("k", 0), ("k", 1), ("j", 0)]), C("rm", keys=["k"]), C("add", [("k", 1)]), C("update", [("k", 0), ("j", 1)])],
    [C("add", [("k", 0)], ents=(0, 1)), C("rm", [("k", 0)], ents=(1,)), C("update", [("k", 2)], ents=(0, 1))],
    [C("rm", [("k", 0)]), C("rm", keys=["k"]), C("add", [("k", 0)]), C("rm", [("k", 1)])],
    [C("update", [("k", 0)]), C("update", [("k", 0)]), C("update", [("k", 1)]), C("update", [("k", 0)]), C("add", [("k", 1)])],
    [C("add", [("k", 5)]), {"op": "rm", "ents": [0], "kvs": [["k", 5, 1]], "keys": []}],          # object value, other key order
    [C("add", [("k", 2)]), {"op": "rm", "ents": [0], "kvs": [["k", 2, 1]], "keys": []}, C("add", [("k", 3)]), C("rm", [("k", 0)])],
    # findings (repaired by the proposed fixes): must behave like the reference
    [C("add", [("k", 7), ("j", 0)]), C("rm", [("k", 7)])],                                       # null-valued pair
    [C("add", [("k", 0), ("k", 0), ("j", 1)])],                                                 # same pair twice
    [C("add", [("k", 0)]), C("update", [("k", 1), ("k", 1)])],
    [C("add", [("k", 0), ("j", 1)]), C("rm")],                                                  # rm without pair or key
]


def spelling(kv):
    k, vi, si = kv
    return k + "=" + VALUES[vi][1][si]


def cmd_argv(cmd, ids):
    """extra_args of the CLI command"""
    a = [ids[e] for e in cmd["ents"]]
    if cmd["op"] == "rm":
        a.append("--")
        a += [spelling(kv) for kv in cmd["kvs"]] + list(cmd["keys"])
    else:
        a += [spelling(kv) for kv in cmd["kvs"]]
    return a


def hx(s):
    return "s" + s.encode().hex()


def cmd_lines(cmd):
    """model requests: one per entity of the command"""
    out = []
    for e in cmd["ents"]:
        ent = hx("E%d" % e)
        kvs = " ".join("(%s %s)" % (hx(k), hx(cj(VALUES[vi][0]))) for k, vi, _ in cmd["kvs"])
        if cmd["op"] == "rm":
            out.append("(rm %s (%s) (%s))" % (ent, kvs, " ".join(hx(k) for k in cmd["keys"])))
        else:
            out.append("(%s %s %s)" % (cmd["op"], ent, kvs))
    return out


def spec_step(spec, cmd):
    """the reference: per entity a set of (key, canonical value) pairs"""
    pairs = [(k, cj(VALUES[vi][0])) for k, vi, _ in cmd["kvs"]]
    for e in cmd["ents"]:
        cur = spec.setdefault(e, set())
        if cmd["op"] == "add":
            cur |= set(pairs)
        elif cmd["op"] == "update":
            ks = {k for k, _ in pairs}
            spec[e] = {(k, v) for k, v in cur if k not in ks} | set(pairs)
        else:
            spec[e] = {(k, v) for k, v in cur if (k, v) not in pairs and k not in cmd["keys"]}


# ------------------------------------------------------------------ canonical terms
def canon_state(rows, edges):
    """rows: {id: (ent, key, val, [parent ids], cur)}, edges: set of (p, c). Returns (sorted rows by term, sorted edges by term)."""
    memo = {}

    def term(i):
        if i not in memo:
            ent, key, val, parents, _ = rows[i]
            memo[i] = "T(%s|%s|%s|[%s])" % (ent, key, val, ",".join(sorted(term(p) for p in parents)))
        return memo[i]
    import hashlib

    def short(i):
        t = term(i)
        return t if len(t) < 200 else t[:120] + "#" + hashlib.sha1(t.encode()).hexdigest()[:16]
    r = sorted((short(i), rows[i][4]) for i in rows)
    e = sorted((short(p), short(c)) for p, c in edges)
    return r, e


def parse_model_state(reply):
    if reply.startswith("!") or reply.startswith("bad-"):
        return reply
    x = unsx(reply)
    rows, edges = {}, set()
    assert x[0][0] == "rows" and x[1][0] == "edges", reply[:80]
    for r in x[0][1:]:
        i, ent, key, val, parents, cur = r
        rows[i] = (ent, key, val, list(parents), bool(cur))
    for p, c in x[1][1:]:
        edges.add((p, c))
    return rows, edges


# ------------------------------------------------------------------ the real repository
class Real:
    def __init__(self):
        import redun.backends.db as dbm
        from redun import Scheduler, task
        from redun.cli import RedunClient
        logging.getLogger("redun").setLevel(logging.CRITICAL)
        self.dbm = dbm
        self.log = {}
        self.unsorted = []
        orig = dbm.hash_tag
        self._orig = orig

        def hooked(entity_id, key, value, parents):
            h = orig(entity_id, key, value, parents)
            self.log[h] = (entity_id, key, cj(value), list(parents))
            if list(parents) != sorted(parents):
                self.unsorted.append(h)
            return h
        dbm.hash_tag = hooked

        def c24_task(x):
            return x + 1
        t = task(name="c24_task", namespace="verif", version="1")(c24_task)
        s = Scheduler()
        s.load()
        s.logger.setLevel(logging.CRITICAL)
        assert s.run(t(1)) == 2
        self.scheduler = s
        self.backend = b = s.backend
        ses = b.session
        ex = ses.query(dbm.Execution).one()
        job = ses.query(dbm.Job).one()
        cn = ses.query(dbm.CallNode).one()
        val = ses.query(dbm.Value).filter(dbm.Value.type == "builtins.int").order_by(dbm.Value.value_hash).first()
        self.entities = [ex.id, job.id, cn.call_hash, val.value_hash]
        self.client = c = RedunClient()
        c.scheduler = s
        c.repo = "default"
        c.stdout = io.StringIO()
        self.args = Namespace(repo="default", config=None, setup=None)

    def close(self):
        self.dbm.hash_tag = self._orig

    def wipe(self):
        ses = self.backend.session
        ses.rollback()
        ses.query(self.dbm.TagEdit).delete()
        ses.query(self.dbm.Tag).delete()
        ses.commit()
        ses.expire_all()
        self.log.clear()
        self.unsorted.clear()
        self.client.stdout = io.StringIO()

    def run_cmd(self, cmd, ids):
        f = {"add": self.client.tag_add_command, "update": self.client.tag_update_command, "rm": self.client.tag_rm_command}[cmd["op"]]
        try:
            f(self.args, cmd_argv(cmd, ids), [])
            return None
        except Exception as e:  # noqa: BLE001
            self.backend.session.rollback()
            return "!" + type(e).__name__

    def tags(self, ids):
        tm = self.backend.get_tags(list(ids))
        out = {}
        for e in ids:
            mm = tm.get(e)
            out[e] = sorted((k, cj(v)) for k in (mm.keys() if mm else []) for v in mm[k])
        return out

    def state(self, names):
        """(rows, edges) with digests replaced through the logged pre-images; names: real entity id -> model name"""
        ses = self.backend.session
        dbm = self.dbm
        rows, problems = {}, []
        for t in ses.query(dbm.Tag).all():
            pre = self.log.get(t.tag_hash)
            if pre is None:
                raise Infra("tag row without logged pre-image: %r" % t)
            ent, key, val, parents = pre
            if (t.entity_id, t.key, cj(t.value)) != (ent, key, val):
                problems.append("row columns differ from hashed pre-image: %r vs %r" % ((t.entity_id, t.key, cj(t.value)), pre))
            rows[t.tag_hash] = (names.get(ent, ent), key, val, parents, bool(t.is_current))
        edges = {(e.parent_id, e.child_id) for e in ses.query(dbm.TagEdit).all()}
        return rows, edges, problems


def is_acyclic(edges):
    succ = {}
    for p, c in edges:
        succ.setdefault(p, []).append(c)
    state = {}

    def visit(n):
        stack = [(n, iter(succ.get(n, ())))]
        state[n] = 1
        while stack:
            node, it = stack[-1]
            for m in it:
                if state.get(m) == 1:
                    return False
                if m not in state:
                    state[m] = 1
                    stack.append((m, iter(succ.get(m, ()))))
                    break
            else:
                state[node] = 2
                stack.pop()
        return True
    return all(visit(n) for n in list(succ) if n not in state)


def classify(cmd, err, before, after, spec_after, e):
    """structural signature of a spec violation at this command"""
    pairs = [(k, cj(VALUES[vi][0])) for k, vi, _ in cmd["kvs"]]
    if err == "!IntegrityError" and len(set(pairs)) < len(pairs):
        return "C24-same-pair-twice-in-one-command-integrity-error"
    if cmd["op"] == "rm" and not cmd["kvs"] and not cmd["keys"]:
        return "C24-rm-without-pair-or-key-removes-all"
    if cmd["op"] == "rm" and err is None:
        extra = set(after) - spec_after
        if extra and all(v == "null" and (k, v) in pairs for k, v in extra) and not (spec_after - set(after)):
            return "C24-rm-null-valued-pair-not-removed"
    if err is not None:
        return "C24-%s-command-raises" % cmd["op"]
    return "C24-%s-current-tags-differ-from-reference" % cmd["op"]


def run_history(ctx, real, hist, replies, verbose=False):
    """replies: model replies for [reset] + the per-entity lines of each command. Returns 'ok' | 'violation' | 'mismatch'."""
    real.wipe()
    ents = sorted({e for c in hist for e in c["ents"]})
    # model entity En -> a real entity (rotating over the four kinds)
    ids = {e: real.entities[(e + len(hist)) % len(real.entities)] for e in ents}
    names = {v: "E%d" % k for k, v in ids.items()}
    spec = {e: set() for e in ents}
    ri = 1
    mismatched = False
    for n, cmd in enumerate(hist):
        k = len(cmd["ents"])
        reps = replies[ri:ri + k]
        rep = next((r for r in reps if r.startswith("!") or r.startswith("bad-")), reps[-1])
        ri += k
        before = real.tags(ids.values())
        err = real.run_cmd(cmd, ids)
        spec_step(spec, cmd)
        after = real.tags(ids.values())
        rows, edges, problems = real.state(names)
        if verbose:
            print("  cmd", n, cmd["op"], cmd_argv(cmd, {e: "E%d" % e for e in ents}), "->", err or "ok", {names[i]: t for i, t in after.items()})
        case = {"history": hist[:n + 1], "step": n}
        # ---- oracle on the real code
        for e in ents:
            if set(after[ids[e]]) != spec[e]:
                sig = classify(cmd, err, before[ids[e]], after[ids[e]], spec[e], e)
                ctx.violation(sig, "current tags of an entity differ from the key-value reference after `redun tag %s`" % cmd["op"],
                              case=case, expected=sorted(spec[e]), actual=after[ids[e]], kind="history")
                return "violation"
        if err is not None:
            pairs = [(k, vi) for k, vi, _ in cmd["kvs"]]
            sig = ("C24-same-pair-twice-in-one-command-integrity-error" if err == "!IntegrityError" and len(set(pairs)) < len(pairs)
                   else "C24-%s-command-raises" % cmd["op"])
            ctx.violation(sig, "tag command raised " + err, case=case, expected="no error", actual=err, kind="history")
            return "violation"
        if not is_acyclic(edges):
            ctx.violation("C24-edit-graph-cycle", "tag_edit graph has a cycle", case=case, expected="acyclic", actual=sorted(edges)[:20],
                          kind="history")
            return "violation"
        # ---- correspondence (after a mismatch the rest of the history is still run through the oracle)
        if mismatched:
            continue
        m = parse_model_state(rep)
        if isinstance(m, str):
            ctx.mismatch("model driver answered %s" % m, case=case, model=m, impl="ok")
            mismatched = True
            continue
        mrows, medges = m
        mcur = {e: sorted((r[1], r[2]) for r in mrows.values() if r[4] and r[0] == "E%d" % e) for e in ents}
        icur = {e: after[ids[e]] for e in ents}
        if mcur != icur:
            ctx.mismatch("get_tags differs from the model's current tags", case=case, model=mcur, impl=icur)
            mismatched = True
            continue
        cm, ci = canon_state(mrows, medges), canon_state(rows, edges)
        if cm != ci:
            ctx.mismatch("(tag, is_current, tag_edit) relation differs from the model", case=case, model=cm, impl=ci)
            mismatched = True
            continue
        for h, r in rows.items():
            if {p for p, c in edges if c == h} != set(r[3]):
                problems.append("tag_edit parents of a tag differ from its hashed parents")
        if real.unsorted:
            problems.append("hash_tag called with unsorted parents")
        if problems:
            ctx.mismatch(problems[0], case=case, model="consistent", impl=problems[:3])
            mismatched = True
    if mismatched:
        return "mismatch"
    return "ok"


def history_lines(hist):
    return ["reset"] + [ln for c in hist for ln in cmd_lines(c)]


def small_scope(nkeys, nvals, maxlen):
    """all histories up to maxlen over one entity"""
    ops = []
    for k in KEYS[:nkeys]:
        for v in range(nvals):
            ops.append(C("add", [(k, v)]))
            ops.append(C("update", [(k, v)]))
            ops.append(C("rm", [(k, v)]))
        ops.append(C("rm", keys=[k]))
    for n in range(1, maxlen + 1):
        for h in itertools.product(ops, repeat=n):
            yield list(h)


def hkey(hist):
    return json.dumps(hist, sort_keys=True)


def run(ctx):
    rng = ctx.rng
    hists = [list(h) for h in CORPUS]
    if ctx.tier == "quick":
        hists += list(small_scope(1, 2, 3))
        for _ in range(ctx.n(350, 0)):
            hists.append(gen_history(rng, 8))
    else:
        hists += list(small_scope(1, 2, 4))
        hists += list(small_scope(2, 2, 3))
        for _ in range(ctx.n(0, 4000)):
            hists.append(gen_history(rng, rng.choice([5, 8, 12])))
    lines, offs = [], []
    for h in hists:
        offs.append(len(lines))
        lines += history_lines(h)
    replies = ctx.model("C24", lines)
    real = Real()
    try:
        for h, o in zip(hists, offs):
            n = len(history_lines(h))
            res = run_history(ctx, real, h, replies[o:o + n])
            ops = [c["op"] for c in h]
            ctx.case(key=hkey(h) if len(h) >= 2 else None,
                     sample={"history": [c["op"] + " " + " ".join(cmd_argv(c, {e: "E%d" % e for e in c["ents"]})) for c in h][:8]},
                     length=len(h), outcome=res, entities=len({e for c in h for e in c["ents"]}))
            for c in h:
                ctx.count("op", c["op"] + ("-by-key" if c["keys"] and not c["kvs"] else ""))
                ctx.count("pairs_per_command", len(c["kvs"]))
                for kv in c["kvs"]:
                    ctx.count("value", cj(VALUES[kv[1]][0]))
            del ops
    finally:
        real.close()


def search(ctx):
    """after a break: more and longer random histories"""
    rng = ctx.rng
    hists = [gen_history(rng, 14) for _ in range(ctx.n(400, 2000))]
    lines, offs = [], []
    for h in hists:
        offs.append(len(lines))
        lines += history_lines(h)
    replies = ctx.model("C24", lines)
    real = Real()
    try:
        for h, o in zip(hists, offs):
            res = run_history(ctx, real, h, replies[o:o + len(history_lines(h))])
            ctx.case(key=hkey(h), length=len(h), outcome="search-" + res)
            if ctx.violations:
                break
    finally:
        real.close()


def replay(ctx, case):
    c = case.get("case") or {}
    hist = c.get("history") if isinstance(c, dict) else None
    if not hist:
        print("replay file has no history; running the normal check")
        return run(ctx)
    print("replaying history of %d command(s)" % len(hist))
    replies = ctx.model("C24", history_lines(hist))
    real = Real()
    try:
        res = run_history(ctx, real, hist, replies, verbose=True)
        ctx.case(key=hkey(hist), length=len(hist), outcome="replay-" + res)
        print("replay outcome:", res)
    finally:
        real.close()
