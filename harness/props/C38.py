"""C38 — evaluating an expression through `subrun` (new or current execution, cache on/off) gives the same result or
error as evaluating it directly; an extended execution's jobs hang under the calling job; the subrun itself is never
served from a single-reduction cache entry.  Models: lean/RedunModel/Model/EvalCore.lean (`Eval.subrun*`),
lean/RedunModel/Model/CacheLookup.lean."""
import os
import random
import time
import shutil
import tempfile

ID = "C38"
READY = True
LEAN_MODULES = ["RedunModel.Props.C38"]
LEAN_DRIVERS = ["C01"]
THEOREMS = [
    "RedunModel.C38.subrun_inner",
    "RedunModel.C38.covers_root",
    "RedunModel.C38.covers_override",
    "RedunModel.C38.innerCtx_eq",
    "RedunModel.C38.subrun_equiv",
    "RedunModel.C38.subrun_equiv_extend",
    "RedunModel.C38.subrun_value",
    "RedunModel.C38.subrun_error",
    "RedunModel.C38.subrun_nested",
    "RedunModel.C38.no_single_unless_allowed",
    "RedunModel.C38.subrun_never_single",
    "RedunModel.C38.subrun_full_check_runs_again",
    "RedunModel.C38.subrun_shallow_replays_ultimate",
    "RedunModel.C38.no_cache_run_only_cse",
    "RedunModel.C38.no_cache_run_restarts_subrun",
    "RedunModel.C38.mem_loadModules",
    "RedunModel.C38.load_modules_cover_tasks",
    "RedunModel.C38.load_modules_only_registered",
]
TRUSTED = [
    "task library and Python semantics as in C01; the three database look-ups behind check_cache are inputs of the lookup model "
    "(computed by the harness with the backend's own primitives, as in C12)",
]
ASSUMPTIONS = [
    "subrun on a local executor (thread; process pool in the thorough tier) with the parent's configuration forwarded (file-based "
    "sqlite shared by both schedulers), no user-supplied allowed_cache_results / config_dir / load_modules",
    "sub-workflows as in C01 (no nested subrun in the generated stream; nesting is covered by the corpus and by subrun_nested)",
    "where several siblings fail, direct and sub-scheduler runs may legitimately raise different admissible errors; equality with "
    "the direct run is demanded only when the model determines a single outcome",
]
RULE = ("generated sub-workflows e (C01 generator, error leaves included); each is run directly and as subrun(e, executor='default', "
        "new_execution=b) with cache on/off on fresh file-backed schedulers, twice in a row on the same backend, free-running real "
        "executors. Checked: outcome member of the Lean model's outcome set for both `e` and `subrun e` (equal sets by subrun_equiv) and "
        "equal to the direct run when that set is a singleton; Job rows (extended: one execution, inner root job's parent is the "
        "subrun_root_task job, every job reaches the outer root; new: second Execution, inner root has no parent); every lookup for "
        "redun.subrun_root_task is not SINGLE and agrees with the Lean lookup model; with check_valid='full' the sub-scheduler is "
        "started again in the second execution. distinct = (program text, new_execution, cache); trivial = plain value programs")
LEVEL_TEXT = ("Proved in Lean, full strength, every task table and expression: subrun_equiv (Eval (subrun e ne) r <-> Eval e r for both "
              "settings of new_execution; the model packs the inner outcome into the record _subrun_root_task returns, lets the outer "
              "scheduler evaluate it and subrun.then unwrap it), subrun_value / subrun_error / subrun_nested; on the lookup model: "
              "no_single_unless_allowed, subrun_never_single (no scope / validity option / backend content makes check_cache answer "
              "SINGLE for _subrun_root_task), subrun_full_check_runs_again, subrun_shallow_replays_ultimate.")
LEVEL_NOTE = ("An inner failure makes the _subrun_root_task job fail in both modes (the model mirrors the repair of the C12 finding "
              "C12-failure-under-extended-subrun-replayed-from-cache; the caller-visible outcome is the same before and after). "
              "PARTIAL: 'the sub-execution's jobs are recorded under the calling job' is not a Lean theorem (the big-step model has no job "
              "tree); it is checked on the real code only, by reading the Job / Execution rows back. Starting a second Scheduler, "
              "config forwarding, module loading, pickling of the expression for a new execution and the process executor are runtime "
              "behaviour outside the model; cache=False and dryrun flags are forwarded as data.")
TECHNIQUE = "Lean 4 proof of observational equivalence on the big-step model + differential direct/subrun runs on the real Scheduler with Job-row inspection"

FUEL = 120
CPU_BUDGET_QUICK, CPU_BUDGET_THOROUGH = 6.0, 300.0       # seconds of process CPU for the generated stream (not wall clock)
SUBRUN_TASK = "redun.subrun_root_task"
DIRECT_ALWAYS = ("tree", "leaf-error", "containers", "two-errors", "in-task")
TWO_EXECUTIONS = ("call", "tree", "leaf-error", "deep-error", "map", "in-task", "nested-subrun")


def corpus():
    from redun.functools import map_, seq
    from redun.scheduler import catch, catch_all, cond, subrun

    from props import _evallib as L
    return {
        "value": 5,
        "call": L.inc(1),
        "tree": L.add(L.inc(1), b=L.twice(3)),
        "containers": [L.inc(1), (L.inc(2), {"k": L.inc(3)})],
        "leaf-error": L.raiser("V", 1),
        "deep-error": L.fail_after(2, "S"),
        "caught": L.guard(2, 2),
        "two-errors": [L.raiser("V", 2), L.raiser("K", 3)],
        "partial-result": L.add.partial(L.inc(1)),
        "exception-value": catch_all([L.raiser("V", 4), L.inc(1)], ValueError, L.identity if hasattr(L, "identity") else L.rec_count),
        "recursion": L.rsum(3),
        "map": map_(L.inc, L.mklist(3)),
        "seq": seq([L.inc(1), L.inc(2)]),
        "cond": cond(L.inc(0), L.inc(1), L.raiser("V", 5)),
        "nested-subrun": subrun(L.twice(1), executor="default"),
        "nested-subrun-new": subrun(L.fail_after(1, "K"), executor="default", new_execution=True),
        "in-task": L.sub_twice(3),
        "in-task-new": L.sub_twice(3, new_execution=True),
        "namedtuple": L.wrap_nt(1, 2),
        "set": [{L.inc(1), 7}],
    }


class Box:
    """one file-backed backend (a directory) with schedulers created on demand"""

    def __init__(self, R):
        self.R = R
        shm = "/dev/shm" if os.path.isdir("/dev/shm") and os.access("/dev/shm", os.W_OK) else None   # tmpfs: cheap fsync
        self.dir = tempfile.mkdtemp(prefix="verif-c38-", dir=shm)
        path = os.path.join(self.dir, "redun.db")
        with open(path, "wb") as f:
            f.write(R._template())
        self.uri = "sqlite:///" + path

    def config(self, config_context=None, second_db=False):
        import json
        cfg = {"backend": {"db_uri": self.uri.replace("redun.db", "redun2.db") if second_db else self.uri},
               "executors.default": {"type": "local", "max_workers": "4", "mode": "thread", "start_method": "fork"},
               "executors.process": {"type": "local", "max_workers": "2", "mode": "process", "start_method": "fork"}}
        if config_context:
            cfg["scheduler"] = {"context": json.dumps(config_context)}
        return cfg

    def scheduler(self, config_context=None):
        from redun import Scheduler
        from redun.config import Config
        s = Scheduler(config=Config(self.config(config_context)))
        s.load()
        return s

    def close(self):
        shutil.rmtree(self.dir, ignore_errors=True)


def count_submissions(sched, counter):
    """count jobs handed to the default executor, by task name"""
    ex = sched.executors["default"]
    real = ex.submit

    def submit(job):
        counter[job.task.fullname] = counter.get(job.task.fullname, 0) + 1
        return real(job)

    ex.submit = submit


def rows(sched):
    from redun.backends.db import Execution
    from redun.backends.db import Job as JobRow
    se = sched.backend.session
    se.expire_all()
    jobs = {j.id: (j.parent_id, j.execution_id, j.task.fullname if j.task else None, j.status) for j in se.query(JobRow).all()}
    execs = {e.id: e.job_id for e in se.query(Execution).all()}
    return jobs, execs


def check_rows(ctx, case, ne, jobs, execs):
    """Job / Execution rows after the first outer run of a top-level subrun(e, new_execution=ne) on a fresh backend
    (e itself without nested subruns)"""
    subs = [k for k, v in jobs.items() if v[2] == SUBRUN_TASK]
    if len(subs) != 1:
        ctx.violation("C38-subrun-job-rows", "expected exactly one subrun_root_task job row", case=case, expected=1, actual=len(subs),
                      kind="history")
        return "bad"
    sub = subs[0]
    outer = jobs[sub][1]
    kids = [j for j, v in jobs.items() if v[0] == sub]
    if ne is False:
        if len(execs) != 1:
            ctx.violation("C38-extra-execution", "extended execution: %d Execution rows recorded" % len(execs), case=case, expected=1,
                          actual=len(execs), kind="history")
        if len(kids) != 1:
            ctx.violation("C38-inner-root-not-under-caller", "extended execution: the subrun_root_task job does not have exactly one "
                          "child job (the inner root)", case=case, expected=1, actual=len(kids), kind="history")
        root = execs.get(outer)
        for j, v in jobs.items():
            if v[1] != outer:
                ctx.violation("C38-inner-job-in-other-execution", "extended execution: a job carries another execution id", case=case,
                              expected=outer, actual=v[1], kind="history")
                break
            cur, steps = j, 0
            while cur is not None and cur != root and steps < 1000:
                cur = jobs[cur][0] if cur in jobs else None
                steps += 1
            if cur != root:
                ctx.violation("C38-job-not-under-caller", "extended execution: a job does not reach the execution's root job through "
                              "parent links", case=case, expected=root, actual=(j, v[2]), kind="history")
                break
        # every inner job is a descendant of the calling (subrun_root_task) job
        inner = [j for j, v in jobs.items() if v[2] not in (SUBRUN_TASK,) and j != root]
        for j in inner:
            cur, steps = j, 0
            while cur is not None and cur != sub and steps < 1000:
                cur = jobs[cur][0]
                steps += 1
            if cur != sub:
                ctx.violation("C38-job-not-under-caller", "extended execution: an inner job is not a descendant of the calling job",
                              case=case, expected=sub, actual=(j, jobs[j][2]), kind="history")
                break
    else:
        if len(execs) != 2:
            ctx.violation("C38-no-new-execution", "new_execution=True: expected 2 Execution rows", case=case, expected=2, actual=len(execs),
                          kind="history")
            return "bad"
        if kids:
            ctx.violation("C38-new-execution-job-under-caller", "new_execution=True: a job was recorded under the calling job", case=case,
                          expected=0, actual=len(kids), kind="history")
        inner_exec = [x for x in execs if x != outer][0]
        for j, v in jobs.items():
            if v[1] == inner_exec and v[0] is None and execs[inner_exec] != j:
                ctx.violation("C38-new-execution-root", "new execution: a parentless job is not the execution's root", case=case,
                              expected=execs[inner_exec], actual=j, kind="history")
    return "checked"


def one_config(ctx, G, R, C12, name, e, sx, outs_e, has_unk_e, direct, ne, cache, check_valid, pending, executor="default",
               executions=(1, 2)):
    from redun.scheduler import subrun
    box = Box(R)
    try:
        mk = subrun.options(check_valid=check_valid) if check_valid else subrun
        counters, outcomes, probes = [], [], []
        tag = {"new_execution": ne, "cache": cache, "check_valid": check_valid or "default", "executor": executor}
        case = {"program": name, "expr": sx, **tag}
        for k in executions:
            sched = box.scheduler()
            cnt = {}
            count_submissions(sched, cnt)
            probe = C12.Probe(sched)
            probe.execution = k
            expr = mk(R.clone(e), executor=executor, new_execution=ne)
            o, _ = R.run_free(expr, sched=sched, timeout=90, cache=cache)
            probe.restore()
            outcomes.append(o)
            counters.append(cnt)
            probes.append(probe)
            if k == 1:
                if "(subrun " in sx or "sub_twice".encode().hex() in sx:
                    ctx.count("job-rows", "skipped-nested-subrun")
                else:
                    aj, ax = rows(sched)
                    ctx.count("job-rows", check_rows(ctx, dict(case, execution=k), ne, aj, ax))
            # lookups for the subrun task
            for rec in probe.log:
                if rec["task"] != SUBRUN_TASK or "ctype" not in rec:
                    continue
                ctx.count("subrun-lookup", "%s/%s/%s" % (rec["scope"], rec["cv"], rec["ctype"]))
                if rec["ctype"] == "single":
                    ctx.violation("C38-subrun-served-from-single-reduction", "check_cache answered SINGLE for redun.subrun_root_task",
                                  case=dict(case, execution=k), expected="cse | ultimate | miss", actual="single", kind="history")
                if rec["allowed"] != (True, False, True):
                    ctx.violation("C38-subrun-allowed-cache-results", "subrun_root_task was looked up with other allowed_cache_results "
                                  "than {CSE, ULTIMATE}", case=dict(case, execution=k), expected="(cse, ultimate)", actual=rec["allowed"])
                if not rec.get("context"):
                    line = "(checkcache %s %s %s %s %s %s %s %s)" % ((rec["scope"], rec["cv"]) + tuple(map(C12.b, rec["allowed"])) +
                                                                       tuple(map(C12.fact_sx, rec["facts"])))
                    pending.append((name, sx, [line], [("check_cache(subrun)", rec, "%s %s" % (rec["ctype"], C12.fact_sx(rec["is_err"])))]))
        # outcomes
        for k, o in enumerate(outcomes, 1):
            bad = None
            if o not in outs_e:
                bad = None if has_unk_e else ("C38-error-differs" if o[0] == "err" else "C38-result-differs")
                if has_unk_e:
                    ctx.count("inconclusive", "model-unk")
            elif len(outs_e) == 1 and not has_unk_e and direct != o:
                bad = "C38-differs-from-direct-run"
            if o[0] == "hang":
                bad = "C38-hang"
            if bad:
                c2 = dict(case, execution=k)
                ctx.mismatch("subrun outcome is not an outcome of the expression itself", case=c2, model=sorted(map(G.show, outs_e)),
                             impl=G.show(o), signature=bad)
                ctx.violation(bad, "subrun(e) does not give what evaluating e gives", case=c2,
                              expected={"direct": G.show(direct), "model": sorted(map(G.show, outs_e))}, actual=G.show(o))
        # second execution: is the sub-scheduler started again?
        if len(counters) < 2:
            ctx.case(key=None if R.is_trivial(sx) else (sx, ne, cache, check_valid, executor),
                     sample={"program": name, "expr": sx[:300], "direct": G.show(direct)[:150], "subrun": G.show(outcomes[0])[:150], **tag},
                     outcome=outcomes[0][0], same_as_direct=(outcomes[0] == direct), **{k: str(v) for k, v in tag.items()})
            return
        again = counters[1].get(SUBRUN_TASK, 0)
        ctx.count("second-execution", "%s cache=%s ne=%s: subrun_root_task %s" % (check_valid or "shallow", cache, ne,
                                                                                   "started again" if again else "not started"))
        if check_valid == "full" and cache and outcomes[0][0] == "ok" and counters[0].get(SUBRUN_TASK, 0) >= 1 and again == 0:
            ctx.violation("C38-full-check-replayed-without-subscheduler", "check_valid='full': the second execution did not start the "
                          "sub-scheduler (the subrun was replayed from a cache entry)", case=case, expected=">=1 submission", actual=0,
                          kind="history")
        ctx.case(key=None if R.is_trivial(sx) else (sx, ne, cache, check_valid, executor),
                 sample={"program": name, "expr": sx[:300], "direct": G.show(direct)[:150], "subrun": G.show(outcomes[0])[:150], **tag},
                 outcome=outcomes[0][0], same_as_direct=(outcomes[0] == direct), **{k: str(v) for k, v in tag.items()})
    finally:
        box.close()


def run_program(ctx, G, R, C12, name, e, sx, rep_e, rep_sub, configs, pending):
    outs_e, has_unk_e = G.parse_outs(rep_e)
    for ne, rep in rep_sub.items():
        outs_s, has_unk_s = G.parse_outs(rep)
        if (outs_s, has_unk_s) != (outs_e, has_unk_e):
            ctx.mismatch("the model's outcome set of subrun(e) differs from that of e (contradicts subrun_equiv)",
                         case={"program": name, "expr": sx, "new_execution": ne}, model=rep[:300], impl=rep_e[:300],
                         signature="C38-model-self-check")
    if ctx.tier == "quick" and len(outs_e) == 1 and not has_unk_e and name not in DIRECT_ALWAYS:
        # quick tier: where the model determines the outcome, it stands in for the direct run (their agreement is C01's tie;
        # the thorough tier and the corpus entries in DIRECT_ALWAYS run e directly as well)
        direct = next(iter(outs_e))
        ctx.count("direct-run", "model outcome used")
    else:
        box = Box(R)
        try:
            direct, _ = R.run_free(R.clone(e), sched=box.scheduler(), timeout=60)
        finally:
            box.close()
        ctx.count("direct-run", "executed")
    if direct not in outs_e and not has_unk_e:
        ctx.mismatch("direct run is not among the model's outcomes (C01 correspondence)", case={"program": name, "expr": sx},
                     model=sorted(map(G.show, outs_e)), impl=G.show(direct), signature="C38-direct-run-differs-from-model")
    for ne, cache, cv, ex in configs:
        execs = (1,) if (ctx.tier == "quick" and name not in TWO_EXECUTIONS) else (1, 2)
        one_config(ctx, G, R, C12, name, e, sx, outs_e, has_unk_e, direct, ne, cache, cv, pending, executor=ex, executions=execs)


# ------------------------------------------------------------------------------------------------ what subrun ships
def _mk_task(modname, i):
    from redun import task

    def f(x):
        return x + 1000
    f.__module__ = modname
    f.__name__ = f.__qualname__ = "t%d" % i
    return task(name="t%d" % i, namespace="c38m")(f)


def modules_section(ctx, G, R, base):
    """(a) the `load_modules` value subrun hands to _subrun_root_task = the modules of all registered tasks outside redun proper,
    whatever they are called (model SubrunModules.loadModules, theorem load_modules_cover_tasks)"""
    import sys
    import types

    from core import hx
    from redun.scheduler import subrun
    from redun.task import get_task_registry
    rng = random.Random(base * 13 + 1)
    n = rng.randrange(100, 999)
    names = ["redunflows_%d" % n, "redun_workflows_%d" % n, "redun%d" % n, "redunx%d.flows" % n, "wf_c38_%d" % n,
             "pkg%d.sub.wf" % n, "redun.tests.c38_%d" % n, "redun.userflows_%d" % n, "redun"]
    tasks = []
    for i, m in enumerate(names):
        if m not in sys.modules:
            sys.modules[m] = types.ModuleType(m)
        tasks.append(_mk_task(m, n * 100 + i))
    expr = [t(i) for i, t in enumerate(tasks)]
    box = Box(R)
    captured = []
    try:
        sched = box.scheduler()
        real_eval = sched.evaluate

        def evaluate(e, parent_job=None):
            if getattr(e, "task_name", None) == SUBRUN_TASK:
                captured.append(list(e.kwargs.get("load_modules") or []))
            return real_eval(e, parent_job=parent_job)

        sched.evaluate = evaluate
        o, _ = R.run_free(subrun(expr, executor="default"), sched=sched, timeout=90)
    finally:
        box.close()
    registry_modules = sorted({t.load_module for t in get_task_registry()})
    replies = ctx.model("C01", ["(ownmodule s%s)" % hx(m) for m in registry_modules])
    expected = sorted(m for m, r in zip(registry_modules, replies) if r == "F")
    case = {"modules_case": True, "task_modules": names, "registry_modules": registry_modules}
    if o != ("ok", tuple(["L"] + [i + 1000 for i in range(len(tasks))])):
        ctx.violation("C38-result-differs", "subrun over tasks of generated modules does not give what evaluating them gives", case=case,
                      expected=[i + 1000 for i in range(len(tasks))], actual=G.show(o))
    if not captured:
        ctx.violation("C38-load-modules-not-observed", "subrun did not evaluate a subrun_root_task call", case=case, expected=1, actual=0)
    for lm in captured:
        missing = sorted(set(expected) - set(lm))
        extra = sorted(set(lm) - set(expected))
        if missing:
            ctx.violation("C38-load-modules-miss-user-module", "subrun does not ship a module that defines registered user tasks: a "
                          "sub-scheduler in a fresh interpreter cannot find them", case=case, expected=expected,
                          actual={"load_modules": lm, "missing": missing}, kind="input")
        if extra:
            ctx.mismatch("subrun ships modules the model counts as redun's own", case=case, model=expected, impl=lm,
                         signature="C38-load-modules-extra")
    ctx.case(key=("modules", tuple(names)), mode="load-modules", sample={"task_modules": names, "load_modules": captured[:1]})


FLOW_SOURCE = '''
from redun import task

redun_namespace = "{name}"


@task
def inc(x):
    return x + 1


@task
def total(xs):
    return sum(xs)


@task
def flow(x):
    return total([inc(x), inc(inc(x))])


@task
def boom(x):
    raise ValueError("boom %d" % x)


@task
def boom_flow(x):
    return [inc(x), boom(inc(x))]
'''


def fresh_process_section(ctx, G, R, base):
    """(b) end to end: the sub-scheduler runs in a FRESH interpreter (process executor, start method spawn), where importing
    load_modules is the only thing that registers the user's tasks; the workflow module is called redunflows_<n>"""
    import importlib
    import sys

    from redun import Scheduler
    from redun.config import Config
    from redun.scheduler import subrun
    n = random.Random(base * 17 + 3).randrange(1000, 9999)
    name = "redunflows_%d" % n
    d = tempfile.mkdtemp(prefix="verif-c38-mod-")
    old_pp = os.environ.get("PYTHONPATH")
    # a spawned interpreter re-imports the parent's __main__ script (harness/main.py, which runs the check at import):
    # hide the script path while the worker processes are started
    main_mod = sys.modules.get("__main__")
    main_file = getattr(main_mod, "__file__", None)
    main_spec = getattr(main_mod, "__spec__", None)
    try:
        if main_file is not None:
            del main_mod.__file__
        main_mod.__spec__ = None
        with open(os.path.join(d, name + ".py"), "w") as f:
            f.write(FLOW_SOURCE.format(name=name))
        sys.path.insert(0, d)
        os.environ["PYTHONPATH"] = d + (os.pathsep + old_pp if old_pp else "")
        mod = importlib.import_module(name)
        for prog, mk, ne in (("flow", lambda: mod.flow(3), False), ("boom_flow", lambda: mod.boom_flow(2), True)):
            outcomes = {}
            for how in ("direct", "subrun"):
                box = Box(R)
                try:
                    cfg = box.config()
                    cfg["executors.fresh"] = {"type": "local", "mode": "process", "start_method": "spawn", "max_workers": "1"}
                    sched = Scheduler(config=Config(cfg))
                    sched.load()
                    expr = mk() if how == "direct" else subrun(mk(), executor="fresh", new_execution=ne)
                    outcomes[how], _ = R.run_free(expr, sched=sched, timeout=120)
                finally:
                    box.close()
            case = {"fresh_process_case": True, "module": name, "program": prog, "new_execution": ne}
            if outcomes["subrun"] != outcomes["direct"]:
                ctx.violation("C38-fresh-process-subrun-differs", "subrun on a process executor with a fresh interpreter does not give "
                              "what direct evaluation gives (the workflow's module %s was not loaded?)" % name, case=case,
                              expected=G.show(outcomes["direct"]), actual=G.show(outcomes["subrun"]), kind="input")
            ctx.case(key=("fresh-process", prog, ne), mode="fresh-process", outcome=outcomes["subrun"][0],
                     same_as_direct=(outcomes["subrun"] == outcomes["direct"]),
                     sample={"module": name, "program": prog, "direct": G.show(outcomes["direct"])[:100],
                             "subrun": G.show(outcomes["subrun"])[:160]})
    finally:
        if main_file is not None:
            main_mod.__file__ = main_file
        main_mod.__spec__ = main_spec
        if d in sys.path:
            sys.path.remove(d)
        if old_pp is None:
            os.environ.pop("PYTHONPATH", None)
        else:
            os.environ["PYTHONPATH"] = old_pp
        shutil.rmtree(d, ignore_errors=True)


# ------------------------------------------------------------------------------------------------ no-cache histories
class ExecLog:
    """every task function executed by any scheduler of this process in thread mode (outer and sub-schedulers):
    redun.executors.local.exec_task is looked up by name at submit time, so wrapping the module attribute sees them all"""

    def __init__(self):
        import redun.executors.local as local
        self.local = local
        self.real = local.exec_task
        self.calls = []

        def exec_task(mode, module_name, task_fullname, args, kwargs):
            self.calls.append((task_fullname, repr(args), repr(sorted(kwargs.items()))))
            return self.real(mode, module_name, task_fullname, args, kwargs)

        local.exec_task = exec_task

    def take(self):
        out = sorted(c for c in self.calls if c[0] not in (SUBRUN_TASK, "redun.root_task"))
        del self.calls[:]
        return out

    def close(self):
        self.local.exec_task = self.real


def nocache_corpus():
    from props import _evallib as L
    return {
        "nc-call": L.inc(1),
        "nc-tree": L.add(L.inc(1), b=L.twice(3)),
        "nc-list": [L.inc(1), L.total(L.mklist(3))],
        "nc-recursion": L.rsum(2),
    }


def nocache_case(ctx, G, R, C12, log, name, e, sx, rep, ne, cache2, check_valid, pending):
    """history: execution 1 with the cache on, execution 2 with cache=cache2, on one backend, a new Scheduler each time;
    once directly and once through subrun(e).  Execution 2 must return the same value AND execute the same multiset of task
    calls (of the sub-workflow) in both: a no-cache run re-executes everything, a cached run nothing."""
    from redun.scheduler import subrun
    outs, has_unk = G.parse_outs(rep)
    if has_unk or len(outs) != 1 or next(iter(outs))[0] != "ok":
        return
    mk = subrun.options(check_valid=check_valid) if check_valid else subrun
    case = {"program": name, "expr": sx, "nocache_case": True, "new_execution": ne, "second_run_cache": cache2,
            "check_valid": check_valid or "default"}
    res = {}
    for how in ("direct", "subrun"):
        box = Box(R)
        try:
            runs = []
            for k, cache in ((1, True), (2, cache2)):
                sched = box.scheduler()
                probe = C12.Probe(sched)
                expr = R.clone(e) if how == "direct" else mk(R.clone(e), executor="default", new_execution=ne)
                log.take()
                o, _ = R.run_free(expr, sched=sched, timeout=90, cache=cache)
                probe.restore()
                runs.append((o, log.take(), probe.log))
            res[how] = runs
        finally:
            box.close()
    for k in (0, 1):
        if res["subrun"][k][0] not in outs:
            ctx.violation("C38-result-differs", "subrun(e) does not give what evaluating e gives", case=dict(case, execution=k + 1),
                          expected=sorted(map(G.show, outs)), actual=G.show(res["subrun"][k][0]))
    d2, s2 = res["direct"][1][1], res["subrun"][1][1]
    if d2 != s2:
        sig = "C38-no-cache-run-replays-subrun" if (not cache2 and not s2) else "C38-second-execution-runs-other-tasks"
        ctx.violation(sig, "execution 2 (cache=%s) executes other task calls through subrun than directly: %s" %
                      (cache2, "the sub-scheduler was not started, the recorded subrun result was replayed" if not s2 else
                       "different multiset"), case=dict(case, execution=2),
                      expected={"direct executes": [c[0] for c in d2]}, actual={"subrun executes": [c[0] for c in s2]},
                      kind="history")
    # lookup model: in a no-cache run every lookup is made with scope CSE
    for rec in res["subrun"][1][2] + res["direct"][1][2]:
        if "scope" not in rec:
            continue
        line = "(runscope %s backend)" % C12.b(cache2)
        if not cache2:
            pending.append((name, sx, [line], [("run scope", rec, rec["scope"])]))
            if rec["scope"] == "backend":
                ctx.violation("C38-no-cache-run-backend-lookup", "a job of a no-cache run looked up the backend cache (scope BACKEND)",
                              case=dict(case, execution=2, task=rec["task"]), expected="cse", actual=rec["scope"], kind="history")
    ctx.case(key=("nocache", sx, ne, cache2, check_valid), mode="no-cache-history", second_run_cache=str(cache2),
             executed_in_second=min(len(s2), 3), new_execution=str(ne),
             sample={"program": name, "expr": sx[:200], "second_run_cache": cache2, "direct_exec2": [c[0] for c in d2][:6],
                     "subrun_exec2": [c[0] for c in s2][:6]})


def nocache_section(ctx, G, R, C12, base, pending):
    progs = [(n, e, G.to_sx(e)) for n, e in nocache_corpus().items()]
    for i in range(ctx.n(1, 40)):
        prng = random.Random(base * 11 + i)
        gen = G.Gen(prng, p_err=0.0, max_fan=2)
        for _ in range(30):
            try:
                e = gen.program(2)
                sx = G.to_sx(e)
                if "fork" not in sx and "(S " not in sx:
                    progs.append(("n%d" % i, e, sx))
                    break
            except G.Unsupported:
                pass
    if ctx.tier == "quick":
        progs = [p for p in progs if p[0] in ("nc-tree", "nc-list")]
    replies = ctx.model("C01", ["(eval i%d %s)" % (FUEL, sx) for _, _, sx in progs])
    log = ExecLog()
    try:
        for i, ((name, e, sx), rep) in enumerate(zip(progs, replies)):
            ne = i % 2 == 1
            nocache_case(ctx, G, R, C12, log, name, e, sx, rep, ne, False, None, pending)          # the no-cache run
            if i == 0:
                nocache_case(ctx, G, R, C12, log, name, e, sx, rep, ne, True, None, pending)       # control: cached run
            if ctx.tier != "quick":
                nocache_case(ctx, G, R, C12, log, name, e, sx, rep, not ne, False, None, pending)
                nocache_case(ctx, G, R, C12, log, name, e, sx, rep, ne, True, "full", pending)
                nocache_case(ctx, G, R, C12, log, name, e, sx, rep, ne, False, "full", pending)
    finally:
        log.close()


# ------------------------------------------------------------------------------------------------ transient failures
def flaky_history(ctx, G, R, log, name, mk, ne, tag):
    """a sub-workflow that fails in execution 1 and succeeds in execution 2 (a flag file outside all hashes), parent cached:
    per execution the subrun outcome equals the direct outcome and the same task calls are executed"""
    from redun.scheduler import subrun

    from props import _evallib as L
    res = {}
    for how in ("direct", "subrun"):
        box = Box(R)
        flags = tempfile.mkdtemp(prefix="verif-c38-flaky-")
        L.FLAKY["dir"] = flags
        try:
            runs = []
            for k in (1, 2):
                sched = box.scheduler()
                expr = mk() if how == "direct" else subrun(mk(), executor="default", new_execution=ne)
                log.take()
                o, _ = R.run_free(expr, sched=sched, timeout=90)
                runs.append((o, log.take()))
            res[how] = runs
        finally:
            L.FLAKY["dir"] = None
            shutil.rmtree(flags, ignore_errors=True)
            box.close()
    case = {"flaky_case": True, "program": name, "new_execution": ne, "tag": tag}
    for k in (0, 1):
        d, s_ = res["direct"][k], res["subrun"][k]
        if d[0] != s_[0]:
            sig = "C38-stale-failure-replayed" if (k == 1 and s_[0][0] == "err" and d[0][0] == "ok") else "C38-result-differs"
            ctx.violation(sig, "execution %d: subrun(e) gives another outcome than evaluating e (a sub-workflow that failed earlier "
                          "and would succeed now is not run again: the recorded result of the sub-execution is replayed)" % (k + 1),
                          case=dict(case, execution=k + 1), expected={"direct": [G.show(r[0]) for r in res["direct"]]},
                          actual={"subrun": [G.show(r[0]) for r in res["subrun"]]}, kind="history")
        if d[1] != s_[1]:
            ctx.violation("C38-second-execution-runs-other-tasks" if k == 1 else "C38-first-execution-runs-other-tasks",
                          "execution %d executes other task calls through subrun than directly" % (k + 1),
                          case=dict(case, execution=k + 1), expected={"direct executes": [c[0] for c in d[1]]},
                          actual={"subrun executes": [c[0] for c in s_[1]]}, kind="history")
    ctx.case(key=("flaky", name, ne), mode="transient-failure-history", new_execution=str(ne),
             sample={"program": name, "new_execution": ne, "direct": [G.show(r[0])[:60] for r in res["direct"]],
                     "subrun": [G.show(r[0])[:60] for r in res["subrun"]]})


def flaky_section(ctx, G, R, base):
    from props import _evallib as L
    log = ExecLog()
    try:
        t = random.Random(base * 19 + 7).randrange(100, 999)
        flaky_history(ctx, G, R, log, "flaky-leaf", lambda: L.flaky(t), False, t)
        flaky_history(ctx, G, R, log, "flaky-in-tree", lambda: L.add(L.inc(L.flaky(t + 1)), b=L.inc(1)), True, t + 1)
        if ctx.tier != "quick":
            flaky_history(ctx, G, R, log, "flaky-in-tree", lambda: L.add(L.inc(L.flaky(t + 2)), b=L.inc(1)), False, t + 2)
            flaky_history(ctx, G, R, log, "flaky-leaf", lambda: L.flaky(t + 3), True, t + 3)
    finally:
        log.close()


# ------------------------------------------------------------------------------------------------ context forwarding
CTX_SCENARIOS = [
    # (config context, Scheduler.run(context=...), update_context on the calling task)
    ({"k": 2, "j": 7}, {}, {}),
    ({"k": 2, "j": 7}, {}, {"k": 3}),
    ({"k": 2, "j": 7}, {"m": 5}, {}),
    ({}, {"k": 4, "j": 1}, {"m": 2}),
    ({"j": 7}, {"k": 6}, {"j": 0, "k": 3}),
    ({}, {}, {"k": 3, "m": 2, "j": 1}),
]


def ctx_kws(d):
    from core import hx
    from props import _evalgen as G
    return "(" + " ".join("(s%s %s)" % (hx(k), G.to_sx(v)) for k, v in d.items()) + ")"


def ctx_corpus():
    from props import _evallib as L
    return {
        "ctx-flow": L.ctx_flow(5),
        "ctx-body": L.ctx_body(1),
        "ctx-inner-override": L.ctx_inner_override(2),
        "ctx-default-arg": L.add(L.ctx_scale(2), b=L.ctx_offset(1)),
        "ctx-cond": L.choose(L.ctx_scale(1) == 3, L.ctx_offset(1), 5),
    }


def context_case(ctx, G, R, name, e, sx, scen, caller, ne, reps):
    """sub-workflow `e` evaluated directly and through subrun under the same effective context.
    caller: "top" (subrun is the root expression), "task" (subrun inside a job that carries the update_context override),
    "noprov" (that job has prov=False: subrun forces a new execution)"""
    from redun.expression import quote
    from redun.scheduler import subrun

    from props import _evallib as L
    cfg, runc, ov = scen
    if caller == "top":
        ov = {}
    eff = dict(cfg)
    eff.update(runc)
    eff.update(ov)
    rep = reps[(sx, tuple(sorted(eff.items())), tuple(sorted(cfg.items())))]
    outs, has_unk = G.parse_outs(rep)
    case = {"program": name, "expr": sx, "context_case": True, "config_context": cfg, "run_context": runc, "update_context": ov,
            "caller": caller, "new_execution": ne}

    def one(mk):
        # a fresh backend per run (a scheduler that ran a prov=False job keeps a write transaction open on its sqlite file)
        box = Box(R)
        try:
            o, _ = R.run_free(mk(box), sched=box.scheduler(cfg), timeout=120, context=dict(runc))
            return o
        finally:
            box.close()

    def wrap(t):
        if caller == "noprov":
            t = t.options(prov=False)
        return t.update_context(dict(ov)) if ov else t

    if caller == "top":
        direct = one(lambda box: R.clone(e))
        sub = one(lambda box: subrun(R.clone(e), executor="default", new_execution=ne))
    elif caller == "noprov":
        # the sub-scheduler of a prov=False caller gets its own database (as in redun's test_subrun_no_prov)
        direct = one(lambda box: wrap(L.direct_of)(quote(R.clone(e))))
        sub = one(lambda box: wrap(L.sub_of_cfg)(quote(R.clone(e)), ne, box.config(cfg, second_db=True)))
    else:
        direct = one(lambda box: wrap(L.direct_of)(quote(R.clone(e))))
        sub = one(lambda box: wrap(L.sub_of)(quote(R.clone(e)), ne))
    if direct not in outs and not has_unk:
        ctx.mismatch("direct evaluation under a context is not among the model's outcomes", case=case,
                     model=sorted(map(G.show, outs)), impl=G.show(direct), signature="C38-context-direct-differs-from-model")
    bad = None
    if sub not in outs and not has_unk:
        bad = "C38-context-not-forwarded" if sub[0] == direct[0] == "ok" else "C38-context-outcome-differs"
    elif len(outs) == 1 and not has_unk and sub != direct:
        bad = "C38-context-not-forwarded"
    if bad:
        ctx.mismatch("subrun under a context is not among the model's outcomes for that context", case=case,
                     model=sorted(map(G.show, outs)), impl=G.show(sub), signature=bad)
        ctx.violation(bad, "subrun(e) does not see the context direct evaluation sees (config context / Scheduler.run(context=) / "
                      "update_context on the caller)", case=case, expected={"direct": G.show(direct), "model": sorted(map(G.show, outs))},
                      actual=G.show(sub))
    ctx.case(key=("ctx", sx, repr(sorted(eff.items())), caller, ne), sample={"program": name, "expr": sx[:200], "context": eff,
                                                                           "caller": caller, "new_execution": ne,
                                                                           "direct": G.show(direct)[:100], "subrun": G.show(sub)[:100]},
             mode="context", caller=caller, new_execution=str(ne), same_as_direct=(sub == direct),
             sources="%s%s%s" % ("C" if cfg else "-", "R" if runc else "-", "U" if ov else "-"))


def context_section(ctx, G, R, base):
    rng = ctx.rng
    progs = [(n, e, G.to_sx(e)) for n, e in ctx_corpus().items()]
    for i in range(ctx.n(1, 50)):
        prng = random.Random(base * 5 + i)
        gen = G.Gen(prng, p_err=prng.choice([0.0, 0.0, 0.1]), max_fan=2)
        gen.ctx_heavy = True
        for _ in range(30):
            try:
                e = gen.ctx_program(prng.choice([1, 2, 2, 3]))
                progs.append(("c%d" % i, e, G.to_sx(e)))
                break
            except G.Unsupported:
                pass
    plan = []
    for i, (name, e, sx) in enumerate(progs):
        scens = [CTX_SCENARIOS[(i + j) % len(CTX_SCENARIOS)] for j in range((2 if i < 3 else 1) if ctx.tier == "quick" else 4)]
        for j, scen in enumerate(scens):
            caller = ["task", "top", "noprov"][(i + j) % 3]
            ne = True if (i + j) % 2 == 0 else False
            plan.append((name, e, sx, scen, caller, ne))
            if ctx.tier != "quick":
                plan.append((name, e, sx, scen, caller, not ne))
    keys, lines = [], []
    for name, e, sx, (cfg, runc, ov), caller, ne in plan:
        eff = dict(cfg)
        eff.update(runc)
        if caller != "top":
            eff.update(ov)
        key = (sx, tuple(sorted(eff.items())), tuple(sorted(cfg.items())))
        if key not in keys:
            keys.append(key)
            lines.append("(evalc i%d %s %s %s)" % (FUEL, ctx_kws(eff), ctx_kws(cfg), sx))
            lines.append("(evalc i%d %s %s (subrun %s T))" % (FUEL, ctx_kws(eff), ctx_kws(cfg), sx))
            lines.append("(evalc i%d %s %s (subrun %s F))" % (FUEL, ctx_kws(eff), ctx_kws(cfg), sx))
    replies = ctx.model("C01", lines)
    reps = {}
    for i, key in enumerate(keys):
        r0, rt, rf = replies[3 * i:3 * i + 3]
        reps[key] = r0
        if G.parse_outs(rt) != G.parse_outs(r0) or G.parse_outs(rf) != G.parse_outs(r0):
            ctx.mismatch("the model's outcome set of subrun(e) under a context differs from that of e (contradicts subrun_equiv)",
                         case={"expr": key[0], "context": key[1]}, model=rt[:200] + " / " + rf[:200], impl=r0[:200],
                         signature="C38-model-self-check")
    for name, e, sx, scen, caller, ne in plan:
        context_case(ctx, G, R, name, e, sx, scen, caller, ne, reps)


def run(ctx):
    from props import C12
    from props import _evalgen as G
    from props import _evalrun as R
    rng = ctx.rng
    progs = [(name, e, G.to_sx(e)) for name, e in corpus().items()]
    base = rng.getrandbits(48)
    for i in range(ctx.n(3, 50)):
        prng = random.Random(base + i)
        gen = G.Gen(prng, p_err=prng.choice([0.0, 0.1, 0.25]), max_fan=3)
        for _ in range(30):
            try:
                e = gen.program(prng.choice([1, 2, 2, 3]))
                sx = G.to_sx(e)
                break
            except G.Unsupported:
                pass
        else:
            continue
        progs.append(("g%d" % i, e, sx))
    lines = []
    for _, _, sx in progs:
        lines += ["(eval i%d %s)" % (FUEL, sx), "(eval i%d (subrun %s F))" % (FUEL, sx), "(eval i%d (subrun %s T))" % (FUEL, sx)]
    replies = ctx.model("C01", lines)
    all_cfg = [(ne, cache, cv, "default") for ne in (False, True) for cache in (True, False) for cv in (None, "full")]
    pending = []
    ncorpus = len(corpus())
    t_cpu = None
    cpu_budget = (CPU_BUDGET_QUICK if ctx.tier == "quick" else CPU_BUDGET_THOROUGH) * ctx.search_boost
    for i, (name, e, sx) in enumerate(progs):
        if i >= ncorpus and t_cpu is None:
            t_cpu = time.process_time()         # the budget covers the generated stream only
        if i >= ncorpus and time.process_time() - t_cpu > cpu_budget:
            ctx.note("CPU budget reached after %d of %d programs (corpus always runs in full)" % (i, len(progs)))
            ctx.count("budget", "generated programs skipped", len(progs) - i)
            break
        rep_e, rep_f, rep_t = replies[3 * i:3 * i + 3]
        if ctx.tier == "quick":
            # one configuration per program (extend mode for the corpus entries about job stitching), two for a few
            cfgs = [all_cfg[(i * 3 + 1) % len(all_cfg)]]
            if name in ("tree", "containers", "deep-error", "leaf-error"):
                cfgs = [(False, True, None, "default"), (True, i % 2 == 0, "full", "default")]
        else:
            cfgs = rng.sample(all_cfg, 3)
            if i % 10 == 0:
                cfgs.append((rng.random() < 0.5, True, None, "process"))
        run_program(ctx, G, R, C12, name, e, sx, rep_e, {False: rep_f, True: rep_t}, cfgs, pending)
    nocache_section(ctx, G, R, C12, base, pending)
    C12.flush_lookups(ctx, pending)
    flaky_section(ctx, G, R, base)
    context_section(ctx, G, R, base)
    fresh_process_section(ctx, G, R, base)      # before modules_section: its synthetic modules exist in this process only
    modules_section(ctx, G, R, base)


def replay(ctx, case):
    from props import C12
    from props import _evalgen as G
    from props import _evalrun as R
    c = case.get("case") or {}
    if c.get("flaky_case"):
        return flaky_section(ctx, G, R, ctx.seed)
    if c.get("modules_case"):
        return modules_section(ctx, G, R, ctx.seed)
    if c.get("fresh_process_case"):
        return fresh_process_section(ctx, G, R, ctx.seed)
    sx = c.get("expr")
    if not sx:
        return run(ctx)
    e = G.from_sx(sx)
    sx2 = G.to_sx(e)
    if c.get("nocache_case"):
        rep = ctx.model("C01", ["(eval i%d %s)" % (FUEL, sx2)])[0]
        print("replay program:", sx2[:400])
        log = ExecLog()
        pending = []
        try:
            cv = c.get("check_valid")
            nocache_case(ctx, G, R, C12, log, c.get("program", "replay"), e, sx2, rep, bool(c.get("new_execution")),
                         bool(c.get("second_run_cache")), None if cv in (None, "default") else cv, pending)
        finally:
            log.close()
        return C12.flush_lookups(ctx, pending)
    if c.get("context_case"):
        cfg, runc, ov = c.get("config_context") or {}, c.get("run_context") or {}, c.get("update_context") or {}
        eff = dict(cfg)
        eff.update(runc)
        eff.update(ov)
        rep = ctx.model("C01", ["(evalc i%d %s %s %s)" % (FUEL, ctx_kws(eff), ctx_kws(cfg), sx2)])[0]
        print("replay program:", sx2[:400], "context", eff)
        print("model outcomes:", rep[:400])
        reps = {(sx2, tuple(sorted(eff.items())), tuple(sorted(cfg.items()))): rep}
        return context_case(ctx, G, R, c.get("program", "replay"), e, sx2, (cfg, runc, ov), c.get("caller", "task"),
                            bool(c.get("new_execution")), reps)
    reps = ctx.model("C01", ["(eval i%d %s)" % (FUEL, sx2), "(eval i%d (subrun %s F))" % (FUEL, sx2),
                             "(eval i%d (subrun %s T))" % (FUEL, sx2)])
    print("replay program:", sx2[:500])
    print("model outcomes:", reps[0][:500])
    cv = c.get("check_valid")
    cfg = [(bool(c.get("new_execution", False)), bool(c.get("cache", True)), None if cv in (None, "default") else cv,
            c.get("executor", "default"))]
    pending = []
    run_program(ctx, G, R, C12, c.get("program", "replay"), e, sx2, reps[0], {False: reps[1], True: reps[2]}, cfg, pending)
    C12.flush_lookups(ctx, pending)
