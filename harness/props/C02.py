"""C02 — cached executions return what an uncached run would return.
Model: lean/RedunModel/Model/CacheHist.lean, theorems: lean/RedunModel/Props/C02.lean, driver: lean/Driver/C02.lean.

One case = one history of executions on ONE sqlite backend, interleaved with edits of task bodies / versions (re-defined
tasks: a workflow module is written to a temp dir and imported before every execution), reverts, `check_valid` changes,
argument changes and input-file rewrites (size / mtime set explicitly).  Every execution is compared with
  (a) the same execution on a fresh in-memory backend  (the property's own oracle), and
  (b) the Lean model run on the same history: outcome and the exact sequence of task functions called."""
import importlib.util
import json
import os
import shutil
import sys
import tempfile

from core import Raw, sx

ID = "C02"
READY = True
LEAN_MODULES = ["RedunModel.Props.C02"]
LEAN_DRIVERS = ["C02"]
THEOREMS = [
    "RedunModel.C02.cacheSound_preserved",
    "RedunModel.C02.fresh_den",
    "RedunModel.C02.full_validity",
    "RedunModel.C02.cached_eq_fresh",
    "RedunModel.C02.tableProg_bodyOk",
    "RedunModel.C02.tableProg_cfp",
    "RedunModel.C02.tableProg_worldFree",
    "RedunModel.C02.full_validity_table",
    "RedunModel.C02.full_validity_catch_partial",
    "RedunModel.C02.cached_eq_fresh_catch_partial",
    "RedunModel.CacheHist.eval_soundC",
    "RedunModel.C02.refuted_catch",
    "RedunModel.C02.refuted_simple_expr",
    "RedunModel.C02.refuted_cse_twin",
    "RedunModel.CacheHist.den_det",
    "RedunModel.CacheHist.eval_sound",
]
TRUSTED = [
    "hashes are symbolic: a task hash is the pair (name, version) - `version` stands for the version= string or the source text "
    "(C17: equal hash, equal body); an eval hash is (task hash, argument value) (C15, one positional argument); a File hash is "
    "(path, stamp) with stamp = the (size, mtime) pair; SHA collisions are outside the claim",
    "modelled, not verified: sqlite returns what was written (Evaluation upsert, CallNode insert-if-absent, newest current "
    "CallNode first); pickling a single reduction preserves task names, argument values, File hashes and Task hashes; a "
    "deserialized Task with an explicit version= re-computes its hash from its own pickled version (is_valid cannot fail)",
    "the model evaluates sequentially, depth first; the harness makes the real scheduler call task functions in that order by "
    "completing, among the in-flight jobs, the one that is first in depth-first order of the job tree (a job another job "
    "collapsed onto takes the earlier position; Job.collapse is wrapped for this observation). Which failed jobs still had "
    "their rejection processed before the event loop stopped is observed on the real run (a wrapper around "
    "Scheduler._reject_job_main_thread) and given to the model as a scheduling fact; the theorems hold for every such set",
    "the theorems are about the code with the two committed repairs (SimpleExpression validity, subtree tasks of a "
    "CSE-served job); the harness probes the tree for both defects and the model mirrors the tree it is compared with",
]
ASSUMPTIONS = [
    "workflows: 3-6 tasks t0..tn of one argument (int tasks, file-reading tasks, recover tasks); a body is an expression built "
    "from the argument, constants, lazy `+`, calls of tasks with a larger index (so evaluation terminates), File(path) "
    "constructed in the body, catch(expr, ErrorClass, recover_task), or an unconditional raise of ValueError/KeyError/"
    "ZeroDivisionError; values are ints, Files and the caught exception; one root call t0(arg) per execution",
    "edits between executions: new body (new source text / new version string), revert to an earlier body or version, version "
    "bump with unchanged body, check_valid full<->shallow (hash unchanged), input file rewritten or restored with explicitly "
    "set mtime (distinct stamp <-> distinct content), edits that change only a string constant of an unversioned body (after a `#` "
    "inside the literal, inside quotes, before a trailing comment), comment-only edits (the model, like the code, sees a new "
    "source text = new hash: re-execution), root argument change - in 15% of the histories between look-alike primitives "
    "(0, 0.0, -0.0, False / 1, 1.0, True: equal under ==, different values) given to tasks that look at the type and sign of their "
    "argument. A task with an explicit version= changes its body "
    "only together with the version string (redun's contract for version=)",
    "check_valid='shallow' tasks are generated only in workflows where no body stats a file (shallow validity skips "
    "intermediate values by design; the theorem has the same hypothesis: WorldFree or no shallow task)",
    "bodies observe the file system only through File(path) objects that they pass on (no hidden reads): BodyOk",
    "container arguments (oracle only; the Lean model has no container values): main(arg) hands a dict / list / tuple (nested up to two "
    "levels, str and int leaves, no sets) to tasks, positionally and as a keyword, whose result is the structure's text in iteration "
    "order, its first key/element, its values; between executions only the key order of a dict (at any depth), the order of a "
    "list, or list <-> tuple changes. A container argument's value INCLUDES these: a dict is an association LIST",
    "file-producing workflows (oracle only, not in the Lean model): lanes head(publish(src, dest)) with the destination File passed "
    "as a task argument (pre-hashed), constructed inside the task, written through File.open, staged through StagingFile, or "
    "copied twice; between executions sources are rewritten/restored, outputs deleted (clean output directory) or overwritten; "
    "the shared-backend and the fresh-backend execution of a step start from identical files",
    "local in-process execution, default scheduler options (cache=True), no limits, no context, no handles",
]
RULE = ("one case = one history of 2-6 (quick) / 2-10 (thorough) executions on one sqlite backend with generated edits in between "
        "(fixed corpus first: the F1 catch witness, the stale-File-under-lazy-add witness, the shallow-over-CSE-twin witness, "
        "edit/revert/bump, errors not replayed). Every execution is run on the shared backend, on an empty backend (oracle) and "
        "by the Lean model; compared: outcome (value or error class) and the exact sequence of (task, version, argument) for "
        "which the task function was called. distinct = distinct history specs; a history is non-trivial when it has >= 2 "
        "executions (all are)")
LEVEL_TEXT = ("Proved in Lean for ALL programs (arbitrary body table keyed by task hash), ALL histories of executions with arbitrary "
              "edits in between (each execution carries its registry, check_valid options, file system, root expression), unbounded: "
              "the backend invariant CacheSound (`Inv`: every Evaluation entry keyed by (task hash, argument) is what the body with "
              "that hash returns on that argument wherever the entry is still valid; every successful CallNode is the meaning of its "
              "call under every registry that holds its recorded subtree tasks; the CSE view is right for the running execution) is "
              "preserved by every evaluation step (`eval_sound`, `cacheSound_preserved`), hence every execution returns the "
              "denotation under the current code (`full_validity`) = the result on an empty backend (`cached_eq_fresh`, "
              "`fresh_den`, `den_det`) - full strength for programs without catch's private cache (catch-free, or the reference "
              "design noCatchCache) and with shallow tasks only over world-independent bodies; with catch's private cache AS IMPLEMENTED "
              "the same holds for histories without shallow tasks as long as every caught expression whose recovery is cached still "
              "raises its class under the current code (`full_validity_catch_partial`, `cached_eq_fresh_catch_partial`: the stale "
              "recovery is the only way catch's cache goes wrong); `tableProg_*` discharge the hypotheses "
              "for the generated workflow family (`full_validity_table`). `refuted_catch` is the closed witness of DESIGN F1 on the "
              "model of the current code (known finding); `refuted_simple_expr`, `refuted_cse_twin` are the witnesses of the two "
              "repaired defects on the model of the code as found. Tie: generated histories on the real scheduler vs the model "
              "(outcome + exact call sequence) and vs a fresh backend.")
LEVEL_NOTE = ("partial: catch's private caching is covered only under the hypothesis CatchStill (refuted without it); the theorems speak of the sequential "
              "depth-first evaluation order (the real scheduler is driven into that order; schedule independence is C07); termination "
              "is not claimed (fuel: `cached_eq_fresh` says the results agree whenever the empty-backend run ends). Not modelled: "
              "cache_scope / cache=False options, containers other than lazy `+`, several arguments (C15), executors, pickling.")
TECHNIQUE = "Lean 4 proof on a cache-history model + differential histories against the real scheduler and a fresh backend"

ERR = {0: "ValueError", 1: "KeyError", 2: "ZeroDivisionError"}
ERR_ID = {v: k for k, v in ERR.items()}
ERR_ID["TypeError"] = 99

SIG_CATCH = "C02-stale-catch-recovery-after-edit"
SIG_SIMPLE = "C02-stale-file-inside-lazy-operator-expression"
SIG_CSE = "C02-shallow-hit-after-cse-twin"


# =========================================================================================== spec level
# Tm terms (tuples):  ("arg",) ("numarg",) ("lit", z) ("file", p) ("add", a, b) ("call", n, t) ("catch", t, cls, rec)
def tm_sx(t):
    k = t[0]
    if k in ("arg", "numarg", "kindarg"):
        return Raw(k)
    if k == "lit" or k == "slit":
        return t[1]                                   # a string-literal constant is an int constant for the model
    if k == "file":
        return [Raw("file"), t[1]]
    if k == "add":
        return [Raw("add"), tm_sx(t[1]), tm_sx(t[2])]
    if k == "call":
        return [Raw("call"), t[1], tm_sx(t[2])]
    if k == "catch":
        return [Raw("catch"), tm_sx(t[1]), t[2], t[3]]
    raise ValueError(t)


def tm_py(t, paths):
    k = t[0]
    if k == "arg":
        return "x"
    if k == "numarg":
        return "_num(x)"
    if k == "kindarg":
        return "_kind(x)"
    if k == "lit":
        return "(%d)" % t[1]
    if k == "slit":
        return "_sv(%s)" % slit_literal(t[1], t[2])
    if k == "file":
        return "File(%r)" % paths[t[1]]
    if k == "add":
        return "(%s + %s)" % (tm_py(t[1], paths), tm_py(t[2], paths))
    if k == "call":
        return "t%d(%s)" % (t[1], tm_py(t[2], paths))
    if k == "catch":
        return "catch(%s, %s, t%d)" % (tm_py(t[1], paths), ERR[t[2]], t[3])
    raise ValueError(t)


def val_sx(a):
    """argument value of the spec level -> protocol: int | ("file", p, stamp) | ("prim", tag, z)"""
    if isinstance(a, int):
        return a
    return [Raw(a[0]), a[1], a[2]]


# look-alike primitives: equal under ==, different values.  ("prim", 1, z) = float(z), ("prim", 2, 0) = -0.0, ("prim", 3, z) = bool(z)
def prim_py(a):
    tag, z = a[1], a[2]
    return float(z) if tag == 1 else (-0.0 if tag == 2 else bool(z))


LOOKALIKES = [0, ("prim", 1, 0), ("prim", 2, 0), ("prim", 3, 0), 1, ("prim", 1, 1), ("prim", 3, 1)]


# ("slit", z, style): the int z written as a string constant in the task body, e.g. _sv("c#17/w"): the result depends on text
# that follows a `#`, a quote or precedes a trailing comment inside the source line
SLIT_STYLES = 5


def slit_literal(z, style):
    if style == 0:
        return '"c#%d/w"' % z                          # `#` inside a string literal
    if style == 1:
        return repr('q"x\'#%d/w' % z)                  # quotes of both kinds before the `#`
    if style == 2:
        return '"#%d"' % z                             # the literal starts with `#`
    if style == 3:
        return "'n%d'" % z                             # no `#` in the literal; the line gets a trailing comment (module_text)
    return '"p#%d/w"' % z                              # `#` in the literal and a trailing comment with quotes on the line


def slit_positions(t, path=()):
    out = [path] if t[0] == "slit" else []
    for k, x in enumerate(t[1:], 1):
        if isinstance(x, tuple):
            out += slit_positions(x, path + (k,))
    return out


def slit_at(t, path):
    for k in path:
        t = t[k]
    return t


def slit_replace(t, path, z):
    if not path:
        return ("slit", z, t[2])
    k = path[0]
    return t[:k] + (slit_replace(t[k], path[1:], z),) + t[k + 1:]


def spec_sx(s):
    return [Raw("ret"), tm_sx(s[1])] if s[0] == "ret" else [Raw("raise"), s[1]]


def tm_calls(t):
    k = t[0]
    if k == "add":
        return tm_calls(t[1]) + tm_calls(t[2])
    if k == "call":
        return [t[1]] + tm_calls(t[2])
    if k == "catch":
        return tm_calls(t[1]) + [t[3]]
    return []


class Hist:
    """A history at spec level.
    tasks[i] = dict(kind "I"|"F"|"R" (int task / file task / recover task), mode "src"|"ver")
    versions[i] = list of specs; TH.ver = index into it (a revert re-uses an index)
    steps = list of dict(code={i: (ver, shallow)}, fs={p: stamp}, root=(i, argval), edits=[...])"""

    def __init__(self, ntasks):
        self.tasks = []
        self.versions = []
        self.steps = []
        self.npaths = 2

    def table(self):
        return [[i, v, spec_sx(s)] for i, vs in enumerate(self.versions) for v, s in enumerate(vs)]

    def request(self, flags):
        steps = []
        for st in self.steps:
            code = [[i, v, bool(sh), self.tasks[i]["mode"] == "ver"] for i, (v, sh) in sorted(st["code"].items())]
            fs = [[p, s] for p, s in sorted(st["fs"].items())]
            n, a = st["root"]
            err = [[i, v, val_sx(x)] for (i, v, x) in st.get("err", [])]
            steps.append([Raw("step"), [Raw("code")] + code, [Raw("fs")] + fs, [Raw("root"), n, val_sx(a)], [Raw("err")] + err])
        return ("hist " + sx([Raw("V"), bool(flags["simpleExprValid"]), bool(flags["cseSubtreeFromDb"]), bool(flags.get("noCatchCache", False))]) + " " +
                sx([Raw("tbl")] + self.table()) + " " + sx([Raw("steps")] + steps))

    def to_json(self):
        return dict(tasks=self.tasks, versions=self.versions,
                    steps=[dict(code={str(k): list(v) for k, v in s["code"].items()}, fs={str(k): v for k, v in s["fs"].items()},
                                root=list(s["root"]), edits=s.get("edits", []), err=[list(e) for e in s.get("err", [])]) for s in self.steps])

    @staticmethod
    def from_json(d):
        h = Hist(0)
        h.tasks = d["tasks"]

        def tup(x):
            return tuple(tup(y) for y in x) if isinstance(x, list) else x
        h.versions = [[tup(s) for s in vs] for vs in d["versions"]]
        for s in d["steps"]:
            root = s["root"]
            root = (root[0], tup(root[1]) if isinstance(root[1], list) else root[1])
            h.steps.append(dict(code={int(k): tuple(v) for k, v in s["code"].items()}, fs={int(k): v for k, v in s["fs"].items()},
                                root=root, edits=s.get("edits", []), err=[(e[0], e[1], tup(e[2]) if isinstance(e[2], list) else e[2]) for e in s.get("err", [])]))
        return h


# ------------------------------------------------------------------------------------------- generator
def gen_tm(rng, i, hist, depth, allow_catch, allow_file):
    """int-typed template for the body of int task i (calls only tasks with a larger index: the call graph is a DAG)"""
    n = len(hist.tasks)
    int_callees = [j for j in range(i + 1, n) if hist.tasks[j]["kind"] == "I"]
    file_callees = [j for j in range(i + 1, n) if hist.tasks[j]["kind"] == "F"]
    rec_callees = [j for j in range(i + 1, n) if hist.tasks[j]["kind"] == "R"]
    k = rng.random()
    if depth <= 0 or (not int_callees and not file_callees) or k < 0.18:
        r = rng.random()
        if r < 0.5:
            return ("arg",)
        if r < 0.62:
            return ("lit", rng.choice([0, 1, 2, 3, 5, 10]))
        if r < 0.80:
            return ("slit", rng.choice([0, 1, 4, 17, 30]), rng.randrange(SLIT_STYLES))
        return ("add", ("arg",), ("lit", rng.choice([1, 2, 10])))
    if k < 0.5 and int_callees:
        return ("call", rng.choice(int_callees), gen_tm(rng, i, hist, depth - 1, allow_catch, allow_file))
    if k < 0.62 and file_callees and allow_file:
        return ("call", rng.choice(file_callees), ("file", rng.randrange(hist.npaths)))
    if k < 0.72 and rec_callees and allow_catch and int_callees:
        inner = ("call", rng.choice(int_callees), gen_tm(rng, i, hist, depth - 1, False, allow_file))
        return ("catch", inner, rng.choice([0, 0, 1]), rng.choice(rec_callees))
    return ("add", gen_tm(rng, i, hist, depth - 1, allow_catch, allow_file), gen_tm(rng, i, hist, depth - 1, allow_catch, allow_file))


def gen_spec(rng, i, hist, allow_catch, allow_file, p_raise=0.12):
    kind = hist.tasks[i]["kind"]
    if kind == "R":                                    # recover task: gets the exception, returns an int expression
        r = rng.random()
        n = len(hist.tasks)
        callees = [j for j in range(i + 1, n) if hist.tasks[j]["kind"] == "I"]
        if r < 0.5 or not callees:
            return ("ret", ("lit", rng.choice([0, -1, 7])))
        return ("ret", ("call", rng.choice(callees), ("lit", rng.choice([0, 1]))))
    if i > 0 and rng.random() < p_raise:
        return ("raise", rng.choice([0, 0, 1, 2]))
    if kind == "F":                                    # file task: reads the file it is given
        r = rng.random()
        n = len(hist.tasks)
        fcallees = [j for j in range(i + 1, n) if hist.tasks[j]["kind"] == "F"]
        icallees = [j for j in range(i + 1, n) if hist.tasks[j]["kind"] == "I"]
        if r < 0.4:
            return ("ret", ("numarg",))
        if r < 0.6 and fcallees:
            return ("ret", ("add", ("call", rng.choice(fcallees), ("arg",)), ("lit", rng.choice([1, 100]))))
        if r < 0.8 and icallees:
            return ("ret", ("call", rng.choice(icallees), ("numarg",)))
        return ("ret", ("add", ("numarg",), ("lit", rng.choice([1, 1000]))))
    return ("ret", gen_tm(rng, i, hist, rng.choice([1, 2, 2, 3]), allow_catch, allow_file))


def gen_tm_prim(rng, i, n, depth):
    """int-typed template of a task that may be handed a look-alike primitive: the argument is only passed on, or looked at
    through its number / its kind (type and sign) - no arithmetic on the raw argument"""
    callees = list(range(i + 1, n))
    k = rng.random()
    if depth <= 0 or not callees or k < 0.3:
        return rng.choice([("kindarg",), ("kindarg",), ("numarg",), ("add", ("kindarg",), ("numarg",)), ("lit", rng.choice([0, 1, 5]))])
    if k < 0.65:
        return ("call", rng.choice(callees), rng.choice([("arg",), ("arg",), ("kindarg",), ("numarg",)]))
    return ("add", gen_tm_prim(rng, i, n, depth - 1), gen_tm_prim(rng, i, n, depth - 1))


def gen_history(rng, nsteps, allow_catch, allow_shallow=True, prim=False):
    n = rng.choice([3, 4, 4, 5, 6])
    h = Hist(n)
    allow_file = rng.random() < 0.6 and not prim
    if prim:
        allow_catch = False
    for i in range(n):
        r = rng.random()
        if i == 0:
            kind = "I"
        elif allow_catch and i >= n - 2 and r < 0.35:
            kind = "R"
        elif allow_file and r < 0.3:
            kind = "F"
        else:
            kind = "I"
        h.tasks.append(dict(kind=kind, mode=rng.choice(["src", "src", "ver"])))
    if allow_file and not any(t["kind"] == "F" for t in h.tasks):
        h.tasks[-1]["kind"] = "F"
    for i in range(n):
        h.versions.append([])
    def new_spec(i, p_raise):
        if prim:
            return ("ret", gen_tm_prim(rng, i, n, rng.choice([1, 2, 2])))
        return gen_spec(rng, i, h, allow_catch, allow_file, p_raise=p_raise)
    for i in reversed(range(n)):
        h.versions[i].append(new_spec(i, 0.08))
    # shallow tasks must not sit above a body that stats a file (documented trade-off of check_valid="shallow":
    # intermediate external values are not re-validated); the generator keeps file-stating bodies out of programs
    # that use shallow tasks
    shallow_ok = allow_shallow and not allow_file
    code = {i: (0, bool(shallow_ok and rng.random() < 0.3)) for i in range(n)}
    fs = {p: 1 for p in range(h.npaths)}
    stamps = {p: [1] for p in range(h.npaths)}
    root_task = 0
    arg = rng.choice(LOOKALIKES) if prim else rng.choice([0, 1, 2])
    for s in range(nsteps):
        edits = []
        if s > 0:
            for _ in range(rng.choice([0, 1, 1, 1, 2, 3])):
                r = rng.random()
                i = rng.randrange(n)
                v, sh = code[i]
                if prim and r < 0.55:                          # argument change to a look-alike (0 / 0.0 / -0.0 / False, 1 / 1.0 / True)
                    arg = rng.choice([x for x in LOOKALIKES if x != arg])
                    edits.append(["arg", arg])
                elif (r < 0.16 and h.versions[i][v][0] == "ret" and slit_positions(h.versions[i][v][1])
                      and h.tasks[i]["mode"] == "src"):
                    # only a string constant of the body changes (text after a `#` / inside quotes / before a comment)
                    tm = h.versions[i][v][1]
                    pos = rng.choice(slit_positions(tm))
                    cur = tm
                    for k in pos:
                        cur = cur[k]
                    sp = ("ret", slit_replace(tm, pos, cur[1] + rng.choice([1, 2, 10])))
                    if sp in h.versions[i]:
                        nv = h.versions[i].index(sp)
                    else:
                        h.versions[i].append(sp)
                        nv = len(h.versions[i]) - 1
                    code[i] = (nv, sh)
                    edits.append(["strlit", i, nv])
                elif r < 0.22 and h.tasks[i]["mode"] == "src" and not prim:
                    # comment-only edit: the source text (hence the hash) changes, the body does not
                    h.versions[i].append(h.versions[i][v])
                    code[i] = (len(h.versions[i]) - 1, sh)
                    edits.append(["comment", i, code[i][0]])
                elif r < 0.40 or (prim and r < 0.75):          # new body (new hash)
                    sp = new_spec(i, 0.12)
                    if h.tasks[i]["mode"] == "src" and sp in h.versions[i]:
                        nv = h.versions[i].index(sp)           # same source text = same hash
                    else:
                        h.versions[i].append(sp)
                        nv = len(h.versions[i]) - 1
                    code[i] = (nv, sh)
                    edits.append(["body", i, nv])
                elif r < 0.58 and len(h.versions[i]) > 1:      # revert to an earlier body/version
                    nv = rng.choice([x for x in range(len(h.versions[i])) if x != v])
                    code[i] = (nv, sh)
                    edits.append(["revert", i, nv])
                elif r < 0.66 and h.tasks[i]["mode"] == "ver":  # version bump, same body
                    h.versions[i].append(h.versions[i][v])
                    code[i] = (len(h.versions[i]) - 1, sh)
                    edits.append(["bump", i, code[i][0]])
                elif r < 0.74 and shallow_ok:                  # check_valid option changed (hash unchanged)
                    code[i] = (v, not sh)
                    edits.append(["shallow", i, not sh])
                elif r < 0.88 and allow_file:                  # input file rewritten / restored
                    p = rng.randrange(h.npaths)
                    if rng.random() < 0.35 and len(stamps[p]) > 1:
                        fs[p] = rng.choice([x for x in stamps[p] if x != fs[p]])
                    else:
                        fs[p] = max(stamps[p]) + 1
                        stamps[p].append(fs[p])
                    edits.append(["file", p, fs[p]])
                else:                                          # argument change
                    arg = rng.choice([0, 1, 2, 3])
                    edits.append(["arg", arg])
        h.steps.append(dict(code=dict(code), fs=dict(fs), root=(root_task, arg), edits=edits))
    return h


# =========================================================================================== real side
class Env:
    def __init__(self):
        import ctl_sched
        self.dir = tempfile.mkdtemp(prefix="c02-", dir=("/dev/shm" if os.access("/dev/shm", os.W_OK) else None))   # sqlite commits: tmpfs if there is one
        self.nhist = 0
        # an empty, migrated backend: copied for every history and for every fresh-backend oracle run
        # (running the schema migrations on each new database is 60% of the run time otherwise)
        self.template = os.path.join(self.dir, "empty.db")
        s = ctl_sched.make_scheduler(None, db_uri="sqlite:///" + self.template)
        close_sched(s)

    def empty_db(self, path):
        shutil.copyfile(self.template, path)
        return "sqlite:///" + path

    def close(self):
        shutil.rmtree(self.dir, ignore_errors=True)


class RealHist:
    """The real side of one history: temp dir with the input files and the generated workflow modules, one sqlite db."""

    def __init__(self, env, hist):
        env.nhist += 1
        self.env = env
        self.hist = hist
        self.ns = "c02h%d" % env.nhist
        self.dir = os.path.join(env.dir, self.ns)
        os.makedirs(self.dir)
        self.paths = [os.path.join(self.dir, "in%d.txt" % p) for p in range(hist.npaths)]
        self.db_uri = env.empty_db(os.path.join(self.dir, "redun.db"))
        self.nmod = 0
        self.hash2stamp = {}

    def write_fs(self, fs):
        from redun import File
        for p, s in fs.items():
            with open(self.paths[p], "w") as f:
                f.write("%06d" % s)                    # constant size; content is a function of the stamp
            os.utime(self.paths[p], (1_000_000 + s, 1_000_000 + s))
            self.hash2stamp[File(self.paths[p]).hash] = (p, s)

    def module_text(self, code):
        h = self.hist
        out = ["import math", "import re", "from redun import task, File", "from redun.scheduler import catch", "", "",
               "def _num(x):", "    if isinstance(x, File):", "        with open(x.path) as f:",
               "            return int(f.read())", "    return int(x)", "", "",
               "def _sv(s):", "    return int(re.search(r\"(-?[0-9]+)(/w)?$\", s).group(1))", "", "",
               "def _kind(x):", "    if isinstance(x, bool):", "        return 3", "    if isinstance(x, float):",
               "        return 2 if math.copysign(1.0, x) < 0 else 1", "    return 0 if isinstance(x, int) else 9", ""]
        for i in sorted(code):
            v, sh = code[i]
            spec = h.versions[i][v]
            opts = ['name="t%d"' % i, 'namespace="%s"' % self.ns]
            if h.tasks[i]["mode"] == "ver":
                opts.append('version="v%d"' % v)
            if sh:
                opts.append('check_valid="shallow"')
            out += ["", "@task(%s)" % ", ".join(opts), "def t%d(x):" % i]
            if spec[0] == "raise":
                out.append("    raise %s(\"boom %d\")" % (ERR[spec[1]], i))
            else:
                if h.tasks[i]["mode"] == "src":
                    out.append("    # body %d" % v)     # two different specs never share a source text
                line = "    return %s" % tm_py(spec[1], self.paths)
                styles = [x for pos in slit_positions(spec[1]) for x in [slit_at(spec[1], pos)[2]]]
                if any(st >= 3 for st in styles):
                    line += '  # "quoted" colour # twice'        # a trailing comment after the string constants
                elif h.tasks[i]["mode"] == "src" and v % 2 == 1:
                    line += "  # rev %d" % v                     # ... or on every other version
                out.append(line)
        return "\n".join(out) + "\n"

    def define(self, code):
        self.nmod += 1
        name = "%s_m%d" % (self.ns, self.nmod)
        path = os.path.join(self.dir, name + ".py")
        with open(path, "w") as f:
            f.write(self.module_text(code))
        spec = importlib.util.spec_from_file_location(name, path)
        mod = importlib.util.module_from_spec(spec)
        sys.modules[name] = mod
        spec.loader.exec_module(mod)
        return mod

    def root_expr(self, mod, root):
        from redun import File
        n, a = root
        if not isinstance(a, int):
            a = File(self.paths[a[1]]) if a[0] == "file" else prim_py(a)
        return getattr(mod, "t%d" % n)(a)

    def val_str(self, v):
        from redun import File
        if isinstance(v, bool):
            return "prim(3,%d)" % int(v)
        if isinstance(v, float):
            import math
            return "prim(%d,%d)" % (2 if math.copysign(1.0, v) < 0 else 1, int(v)) if v == int(v) else "?float"
        if isinstance(v, int):
            return str(v)
        if isinstance(v, File):
            p, s = self.hash2stamp.get(v.hash, ("?", "?"))
            return "file(%s,%s)" % (p, s)
        if isinstance(v, BaseException):
            return "exc(%s)" % ERR_ID.get(type(v).__name__, "?")
        return "?" + type(v).__name__

    def val_key(self, v):
        from redun import File
        if isinstance(v, File):
            p, s = self.hash2stamp.get(v.hash, (0, 0))
            return ("file", p, s)
        if isinstance(v, bool):
            return ("prim", 3, int(v))
        if isinstance(v, float):
            import math
            return ("prim", 2 if math.copysign(1.0, v) < 0 else 1, int(v))
        return v if isinstance(v, int) else 0

    def res_str(self, status, payload):
        if status == "ok":
            return "ok:" + self.val_str(payload)
        if status == "err":
            return "err:%s" % ERR_ID.get(type(payload).__name__, "?" + type(payload).__name__)
        return status + ":" + str(payload)[:80]

    def log_str(self, ctl, code):
        out = []
        for fullname, args, kwargs in ctl.calls:
            i = int(fullname.rsplit(".t", 1)[1])
            out.append("%d.%d(%s)" % (i, code[i][0], self.val_str(args[0])))
        return " ".join(out)


def make_ctl():
    import ctl_sched

    class LeftCtl(ctl_sched.Ctl):
        """completes the in-flight job that comes first in depth-first order of the job tree: the real scheduler then
        calls task functions in the order of the sequential model (and aborts, like it, at the first failure)"""

        def path(self, job):
            p = getattr(job, "_vpath", None)
            if p is None:
                par = job.parent_job
                if par is None:
                    p = ()
                else:
                    pp = self.path(par)
                    idx = next(i for i, c in enumerate(par.child_jobs) if c is job)
                    p = pp + (idx,)
                job._vpath = p
            return p

        def on_submit(self, job, executor_name):
            self.path(job)
            super().on_submit(job, executor_name)

        def choose(self):
            best = min(range(len(self.inflight)), key=lambda i: self.path(self.inflight[i]))
            self.choices.append((len(self.inflight), best))
            return best

    return LeftCtl()


class inherit_priority:
    """While a run is in progress, a job that another job collapses onto (`Job.collapse`, CSE of a pending twin) takes the
    earlier of the two positions in the depth-first order (observation only: `Job.collapse` is wrapped from the harness)."""

    def __init__(self, ctl):
        self.ctl = ctl

    def __enter__(self):
        import redun.scheduler as RS
        ctl = self.ctl
        self.orig = orig = RS.Job.collapse
        self.orig_init = orig_init = RS.Job.__init__
        ctl._cause = None
        ctl._ncaused = 0

        def collapse(job, other_job):
            p, q = ctl.path(job), ctl.path(other_job)
            if p < q:
                other_job._vpath = p
            return orig(job, other_job)

        def init(job, *a, **k):
            orig_init(job, *a, **k)
            if ctl._cause is not None:
                # a job created while the rejection of job X is being processed (the recover task of a `catch`): in the
                # depth-first order it comes right after X's subtree, before the later siblings of X
                ctl._ncaused += 1
                job._vpath = ctl.path(ctl._cause) + (10 ** 6 + ctl._ncaused,)

        RS.Job.collapse = collapse
        RS.Job.__init__ = init
        return self

    def __exit__(self, *exc):
        import redun.scheduler as RS
        RS.Job.collapse = self.orig
        RS.Job.__init__ = self.orig_init
        return False


def close_sched(sched):
    try:
        sched.backend.session.close()
        sched.backend.engine.dispose()
    except Exception:  # noqa: BLE001
        pass


def run_step(rh, st):
    """returns (outcome on the shared backend, task functions called, outcome on an empty backend)"""
    import ctl_sched
    rh.write_fs(st["fs"])
    mod = rh.define(st["code"])
    ctl = make_ctl()
    sched = ctl_sched.make_scheduler(ctl, db_uri=rh.db_uri)
    rejected = []
    orig_reject = sched._reject_job_main_thread

    def reject_tap(job, error, *a, **k):
        # observation only: which failed jobs got their rejection processed (their error CallNode recorded)
        if job is not None and job.args is not None and job.recording_provenance():
            i = int(job.task.fullname.rsplit(".t", 1)[1])
            rejected.append((i, st["code"][i][0], rh.val_key(job.args[0][0])))
        prev, ctl._cause = getattr(ctl, "_cause", None), job
        try:
            return orig_reject(job, error, *a, **k)
        finally:
            ctl._cause = prev

    sched._reject_job_main_thread = reject_tap
    with inherit_priority(ctl):
        status, payload = ctl.run(sched, rh.root_expr(mod, st["root"]))
    st["err"] = rejected
    out = rh.res_str(status, payload)
    log = rh.log_str(ctl, st["code"])
    close_sched(sched)
    ctl2 = make_ctl()
    fresh_path = os.path.join(rh.dir, "fresh.db")
    sched2 = ctl_sched.make_scheduler(ctl2, db_uri=rh.env.empty_db(fresh_path))
    orig_reject2 = sched2._reject_job_main_thread

    def reject_tap2(job, error, *a, **k):
        prev, ctl2._cause = getattr(ctl2, "_cause", None), job
        try:
            return orig_reject2(job, error, *a, **k)
        finally:
            ctl2._cause = prev

    sched2._reject_job_main_thread = reject_tap2
    with inherit_priority(ctl2):
        status2, payload2 = ctl2.run(sched2, rh.root_expr(mod, st["root"]))
    fresh = rh.res_str(status2, payload2)
    close_sched(sched2)
    os.remove(fresh_path)
    return out, log, fresh


VARIANTS = ["asfound", "noCatchCache", "simpleExprValid", "cseSubtreeFromDb"]


def requests(hist, flags):
    """model requests for one history: the tree's variant, then the tree's variant with one defect repaired at a time"""
    out = [hist.request(flags)]
    for f in VARIANTS[1:]:
        out.append(hist.request(dict(flags, **{f: True})))
    return out


def parse_reply(reply):
    out = []
    for x in reply.split(" ; "):
        mo, _, mlog = x.partition("|")
        out.append((mo.strip(), mlog.strip()))
    return out


def run_real(env, hist):
    """phase 1: the history on the real code (also fills in each step's observed `err` list)"""
    rh = RealHist(env, hist)
    rows = []
    for k, st in enumerate(hist.steps):
        out, log, fresh = run_step(rh, st)
        rows.append(dict(step=k, edits=st.get("edits", []), real=out, log=log, fresh=fresh))
    shutil.rmtree(rh.dir, ignore_errors=True)
    return rows


def add_model(rows, replies):
    """phase 2: attach the model's answers (one reply per variant) to the rows of a history"""
    ms = [parse_reply(r) for r in replies]
    for k, row in enumerate(rows):
        for name, m in zip(VARIANTS, ms):
            mo, mlog = m[k] if k < len(m) else ("<none>", "")
            row["model" if name == "asfound" else "model+" + name] = mo
            if name == "asfound":
                row["model_log"] = mlog
    return rows


def run_history(ctx, env, hist, flags, label, replies=None):
    rows = run_real(env, hist)
    if replies is None:
        replies = ctx.model("C02", requests(hist, flags))
    return add_model(rows, replies)


SIGS = {"noCatchCache": SIG_CATCH, "simpleExprValid": SIG_SIMPLE, "cseSubtreeFromDb": SIG_CSE}


def classify(row):
    """Structural signature of a stale result: which single defect of the tree explains it - the model of the tree
    predicts the stale outcome and the model with that one defect repaired predicts the fresh outcome."""
    if row["model"] == row["real"]:
        for f in VARIANTS[1:]:
            if row["model+" + f] == row["fresh"]:
                return SIGS[f]
    return "C02-stale-result"


def check_history(ctx, hist, flags, label, tags, rows, witness=None):
    case = dict(label=label, history=hist.to_json(), flags=flags)
    ctx.case(key=json.dumps(hist.to_json(), sort_keys=True), sample=dict(label=label, steps=[dict(edits=r["edits"], real=r["real"], called=r["log"]) for r in rows][:4]),
             steps=len(rows), **tags)
    for r in rows:
        ctx.count("outcome", r["real"].split(":")[0])
        ctx.count("calls_per_step", min(r["log"].count("("), 9))
        for e in r["edits"]:
            ctx.count("edit", e[0])
        if r["real"] != r["fresh"] and classify(r) == witness:
            continue                      # accounted once for the whole witness history below
        if r["real"] != r["fresh"]:
            ctx.violation(classify(r),
                          "execution %d of the history returns %s on the shared backend, %s on a fresh backend" % (r["step"], r["real"], r["fresh"]),
                          case=dict(case, step=r["step"]), expected=r["fresh"], actual=r["real"], kind="history")
        if r["model"] != r["real"]:
            ctx.mismatch("outcome of execution %d differs from the model" % r["step"], case=dict(case, step=r["step"], rows=rows), model=r["model"], impl=r["real"])
        elif r["model_log"] != r["log"]:
            ctx.mismatch("task functions called in execution %d differ from the model" % r["step"], case=dict(case, step=r["step"], rows=rows),
                         model=r["model_log"], impl=r["log"])
    if witness is not None:
        hit = [r for r in rows if r["real"] != r["fresh"] and classify(r) == witness]
        ctx.expect_known(witness, bool(hit), case=dict(case, step=hit[0]["step"] if hit else None),
                         what=("execution %d returns %s on the shared backend, %s on a fresh backend" %
                               (hit[0]["step"], hit[0]["real"], hit[0]["fresh"])) if hit else witness)
    return rows


# =========================================================================================== corpus / probes
def H(tasks, versions, steps):
    h = Hist(len(tasks))
    h.tasks = [dict(kind=k, mode=m) for k, m in tasks]
    h.versions = versions
    h.steps = steps
    return h


def corpus():
    A, L, C = ("arg",), (lambda z: ("lit", z)), (lambda n, t: ("call", n, t))
    out = {}
    # F1: catch(div(0), ValueError, rec); edit div so that it returns 5
    out["catch-edit-caught-task"] = H(
        [("I", "src"), ("I", "ver"), ("R", "src")],
        [[("ret", ("catch", C(1, A), 0, 2))], [("raise", 0), ("ret", L(5))], [("ret", L(0))]],
        [dict(code={0: (0, False), 1: (0, False), 2: (0, False)}, fs={0: 1, 1: 1}, root=(0, 0)),
         dict(code={0: (0, False), 1: (1, False), 2: (0, False)}, fs={0: 1, 1: 1}, root=(0, 0), edits=[["body", 1, 1]]),
         dict(code={0: (0, False), 1: (0, False), 2: (0, False)}, fs={0: 1, 1: 1}, root=(0, 0), edits=[["revert", 1, 0]])])
    # stale File inside a lazy `+`:  t0(x) = t1(File(p0)) + 1 ; t1(f) = content ; rewrite p0
    out["file-under-lazy-add"] = H(
        [("I", "src"), ("F", "src")],
        [[("ret", ("add", C(1, ("file", 0)), L(1)))], [("ret", ("numarg",))]],
        [dict(code={0: (0, False), 1: (0, False)}, fs={0: 1, 1: 1}, root=(0, 0)),
         dict(code={0: (0, False), 1: (0, False)}, fs={0: 2, 1: 1}, root=(0, 0), edits=[["file", 0, 2]]),
         dict(code={0: (0, False), 1: (0, False)}, fs={0: 1, 1: 1}, root=(0, 0), edits=[["file", 0, 1]])])
    # same without the `+` (valid on the unrepaired tree as well)
    out["file-direct-arg"] = H(
        [("I", "src"), ("F", "src")],
        [[("ret", C(1, ("file", 0)))], [("ret", ("numarg",))]],
        [dict(code={0: (0, False), 1: (0, False)}, fs={0: 1, 1: 1}, root=(0, 0)),
         dict(code={0: (0, False), 1: (0, False)}, fs={0: 2, 1: 1}, root=(0, 0), edits=[["file", 0, 2]]),
         dict(code={0: (0, False), 1: (0, False)}, fs={0: 1, 1: 1}, root=(0, 0), edits=[["file", 0, 1]])])
    # CSE twin under a shallow task: t0 = t1(t2(x)) ; t1(shallow)(y) = t2(1)... ; t2 = t3(x) ; edit t3
    out["shallow-over-cse-twin"] = H(
        [("I", "src"), ("I", "src"), ("I", "src"), ("I", "ver")],
        [[("ret", C(1, C(2, L(1)))), ("ret", C(1, L(11)))], [("ret", C(2, L(1)))], [("ret", C(3, A))], [("ret", ("add", A, L(10))), ("ret", ("add", A, L(100)))]],
        [dict(code={0: (0, False), 1: (0, True), 2: (0, False), 3: (0, False)}, fs={0: 1, 1: 1}, root=(0, 0)),
         dict(code={0: (1, False), 1: (0, True), 2: (0, False), 3: (1, False)}, fs={0: 1, 1: 1}, root=(0, 0), edits=[["body", 0, 1], ["body", 3, 1]])])
    # the recover task of a catch is edited: the cached parent expression holds the Task object with its old hash and is invalid
    out["edit-recover-task"] = H(
        [("I", "src"), ("I", "src"), ("R", "src")],
        [[("ret", C(1, ("catch", C(1, L(2)), 0, 2)))], [("ret", A)], [("ret", L(-1)), ("ret", L(7))]],
        [dict(code={0: (0, False), 1: (0, False), 2: (0, False)}, fs={0: 1, 1: 1}, root=(0, 0)),
         dict(code={0: (0, False), 1: (0, False), 2: (1, False)}, fs={0: 1, 1: 1}, root=(0, 0), edits=[["body", 2, 1]]),
         dict(code={0: (0, False), 1: (0, False), 2: (0, False)}, fs={0: 1, 1: 1}, root=(0, 0), edits=[["revert", 2, 0]])])
    # the recover job of a catch is created late (after the caught job failed) but runs before the later siblings
    out["recover-before-later-sibling"] = H(
        [("I", "src"), ("R", "src"), ("I", "src"), ("I", "src")],
        [[("ret", ("add", ("catch", C(2, A), 1, 1), C(3, ("add", A, L(1)))))], [("ret", C(3, L(5)))], [("raise", 1)], [("raise", 0), ("ret", A)]],
        [dict(code={0: (0, False), 1: (0, False), 2: (0, False), 3: (0, False)}, fs={0: 1, 1: 1}, root=(0, 0)),
         dict(code={0: (0, False), 1: (0, False), 2: (0, False), 3: (0, False)}, fs={0: 1, 1: 1}, root=(0, 0)),
         dict(code={0: (0, False), 1: (0, False), 2: (0, False), 3: (1, False)}, fs={0: 1, 1: 1}, root=(0, 0), edits=[["body", 3, 1]])])
    # argument changes between values that are equal under == but are different values: 0.0, -0.0, False, 0, True, 1.0, 1
    code2 = {0: (0, False), 1: (0, False)}
    out["lookalike-arguments"] = H(
        [("I", "src"), ("I", "src")],
        [[("ret", ("add", ("kindarg",), C(1, A)))], [("ret", ("add", ("kindarg",), ("numarg",)))]],
        [dict(code=dict(code2), fs={0: 1, 1: 1}, root=(0, a), edits=[["arg", a]]) for a in
         [("prim", 1, 0), ("prim", 2, 0), ("prim", 3, 0), 0, ("prim", 3, 1), ("prim", 1, 1), 1, ("prim", 1, 0)]])
    # only string constants of unversioned task bodies change (after a `#`, inside quotes, before a trailing comment); then a
    # comment-only edit (a re-execution is fine, a stale result is not) and a revert
    def cs(a, b, c, d):
        return {0: (a, False), 1: (b, False), 2: (c, False), 3: (d, False)}
    out["string-literal-edits"] = H(
        [("I", "src"), ("I", "src"), ("I", "src"), ("I", "src")],
        [[("ret", ("add", ("add", ("slit", 17, 0), C(1, A)), ("add", C(2, A), C(3, A)))), ("ret", ("add", ("add", ("slit", 18, 0), C(1, A)), ("add", C(2, A), C(3, A)))),
          ("ret", ("add", ("add", ("slit", 18, 0), C(1, A)), ("add", C(2, A), C(3, A))))],
         [("ret", ("add", A, ("slit", 5, 1))), ("ret", ("add", A, ("slit", 6, 1)))],
         [("ret", ("slit", 30, 4)), ("ret", ("slit", 31, 4))],
         [("ret", ("add", ("slit", 1, 3), ("slit", 2, 2))), ("ret", ("add", ("slit", 1, 3), ("slit", 4, 2))), ("ret", ("add", ("slit", 3, 3), ("slit", 4, 2)))]],
        [dict(code=cs(0, 0, 0, 0), fs={0: 1, 1: 1}, root=(0, 0)),
         dict(code=cs(1, 0, 0, 0), fs={0: 1, 1: 1}, root=(0, 0), edits=[["strlit", 0, 1]]),
         dict(code=cs(1, 1, 0, 0), fs={0: 1, 1: 1}, root=(0, 0), edits=[["strlit", 1, 1]]),
         dict(code=cs(1, 1, 1, 1), fs={0: 1, 1: 1}, root=(0, 0), edits=[["strlit", 2, 1], ["strlit", 3, 1]]),
         dict(code=cs(2, 1, 1, 2), fs={0: 1, 1: 1}, root=(0, 0), edits=[["comment", 0, 2], ["strlit", 3, 2]]),
         dict(code=cs(0, 0, 1, 2), fs={0: 1, 1: 1}, root=(0, 0), edits=[["revert", 0, 0], ["revert", 1, 0]])])
    # edit / revert / bump of a leaf under two levels of cached single reductions
    out["edit-revert-bump"] = H(
        [("I", "src"), ("I", "ver"), ("I", "ver")],
        [[("ret", ("add", C(1, A), C(2, A)))], [("ret", C(2, ("add", A, L(1))))], [("ret", ("add", A, L(10))), ("ret", ("add", A, L(20))), ("ret", ("add", A, L(10)))]],
        [dict(code={0: (0, False), 1: (0, False), 2: (0, False)}, fs={0: 1, 1: 1}, root=(0, 1)),
         dict(code={0: (0, False), 1: (0, False), 2: (1, False)}, fs={0: 1, 1: 1}, root=(0, 1), edits=[["body", 2, 1]]),
         dict(code={0: (0, False), 1: (0, False), 2: (0, False)}, fs={0: 1, 1: 1}, root=(0, 1), edits=[["revert", 2, 0]]),
         dict(code={0: (0, False), 1: (0, False), 2: (2, False)}, fs={0: 1, 1: 1}, root=(0, 1), edits=[["bump", 2, 2]]),
         dict(code={0: (0, False), 1: (0, False), 2: (2, False)}, fs={0: 1, 1: 1}, root=(0, 2), edits=[["arg", 2]])])
    # a failing leaf is never replayed (neither from Evaluation nor, under shallow, from the CallNode table)
    out["error-not-replayed"] = H(
        [("I", "src"), ("I", "src")],
        [[("ret", C(1, A))], [("raise", 1), ("ret", L(3))]],
        [dict(code={0: (0, True), 1: (0, False)}, fs={0: 1, 1: 1}, root=(0, 0)),
         dict(code={0: (0, True), 1: (0, False)}, fs={0: 1, 1: 1}, root=(0, 0)),
         dict(code={0: (0, True), 1: (1, False)}, fs={0: 1, 1: 1}, root=(0, 0), edits=[["body", 1, 1]]),
         dict(code={0: (0, True), 1: (0, False)}, fs={0: 1, 1: 1}, root=(0, 0), edits=[["revert", 1, 0]])])
    return out


def probe_flags(ctx, env):
    """Which of the two repairable defects does this tree have?  (the model mirrors the tree it is compared with)"""
    flags = dict(simpleExprValid=True, cseSubtreeFromDb=True, noCatchCache=False)
    cs = corpus()
    rows = run_real(env, cs["file-under-lazy-add"])
    flags["simpleExprValid"] = rows[1]["real"] == rows[1]["fresh"]
    rows = run_real(env, cs["shallow-over-cse-twin"])
    flags["cseSubtreeFromDb"] = rows[1]["real"] == rows[1]["fresh"]
    return flags


# =========================================================================================== file-producing workflows
# (oracle only: the Lean model has no tasks that write files; what a produced File's recorded hash must be is C04/C30's
#  subject, but a consumer served a stale Evaluation row because of it shows here, as a wrong answer)
SIG_PRODUCED = "C02-stale-consumer-of-produced-file"
PRODUCERS = ["copy_arg", "copy_inner", "write_arg", "stage_arg", "copy_chain"]


class ProdHist:
    """lanes: list of producer kinds (lane i reads source i, writes out/o<i>.txt [and out/m<i>.txt]); steps: list of
    dict(src={i: stamp}, clean=[i...] (outputs of these lanes deleted before the execution), tamper={i: stamp})"""

    def __init__(self, lanes, steps):
        self.lanes = lanes
        self.steps = steps

    def to_json(self):
        return dict(kind="producers", lanes=self.lanes, steps=self.steps)

    @staticmethod
    def from_json(d):
        return ProdHist(d["lanes"], [dict(src={int(k): v for k, v in s["src"].items()}, clean=s["clean"],
                                          tamper={int(k): v for k, v in s.get("tamper", {}).items()}) for s in d["steps"]])


def gen_prodhist(rng, nsteps):
    lanes = [rng.choice(PRODUCERS) for _ in range(rng.choice([1, 2, 2, 3]))]
    src = {i: 1 for i in range(len(lanes))}
    steps = []
    for k in range(nsteps):
        clean, tamper = [], {}
        if k > 0:
            for i in range(len(lanes)):
                r = rng.random()
                if r < 0.45:
                    src[i] = rng.choice([x for x in (1, 2, 3, 4) if x != src[i]])     # source rewritten / restored
                if rng.random() < 0.6:
                    clean.append(i)                                                   # outputs deleted (clean output dir)
                elif rng.random() < 0.15:
                    tamper[i] = rng.choice([7, 8])                                    # an output overwritten by hand
        steps.append(dict(src=dict(src), clean=clean, tamper=tamper))
    return ProdHist(lanes, steps)


def write_stamped(path, s):
    with open(path, "w") as f:
        f.write("%06d" % s)
    os.utime(path, (1_000_000 + s, 1_000_000 + s))


def run_prodhist(env, ph):
    """returns per-step dict(real, fresh).  Both executions of a step start from the same files: the output directory is
    put back to its pre-execution state for the fresh-backend run, then to what the shared-backend run left."""
    import ctl_sched
    env.nhist += 1
    ns = "c02p%d" % env.nhist
    d = os.path.join(env.dir, ns)
    out, pre, post = os.path.join(d, "out"), os.path.join(d, "pre"), os.path.join(d, "post")
    os.makedirs(out)
    n = len(ph.lanes)
    srcs = [os.path.join(d, "in%d.txt" % i) for i in range(n)]
    lane_expr = {
        "copy_arg": "head(publish(File({src!r}), File({o!r})))",
        "copy_inner": "head(publish_inner(File({src!r}), {o!r}))",
        "write_arg": "head(write_to(File({o!r}), rd(File({src!r}))))",
        "stage_arg": "head(stage_in(File({src!r}), File({o!r})))",
        "copy_chain": "head(publish(publish(File({src!r}), File({m!r})), File({o!r})))",
    }
    text = ["from redun import task, File", "from redun.file import StagingFile", "",
            "def _int(f):", "    with open(f.path) as fh:", "        return int(fh.read())", ""]
    for name, params, body in [
            ("publish", "src, dest", "return src.copy_to(dest)"),
            ("publish_inner", "src, dest_path", "return src.copy_to(File(dest_path))"),
            ("write_to", "dest, n", "with dest.open('w') as fh:\n        fh.write('%06d' % n)\n    return dest"),
            ("stage_in", "remote, local", "return StagingFile(local, remote).stage()"),
            ("rd", "f", "return _int(f)"),
            ("head", "f", "return _int(f)")]:
        text += ['@task(name="%s", namespace="%s", version="1")' % (name, ns), "def %s(%s):" % (name, params), "    " + body, ""]
    terms = [lane_expr[k].format(src=srcs[i], o=os.path.join(out, "o%d.txt" % i), m=os.path.join(out, "m%d.txt" % i))
             for i, k in enumerate(ph.lanes)]
    text += ['@task(name="main", namespace="%s", version="1")' % ns, "def main():", "    return [%s]" % ", ".join(terms), ""]
    path = os.path.join(d, ns + "_mod.py")
    with open(path, "w") as f:
        f.write("\n".join(text))
    spec = importlib.util.spec_from_file_location(ns + "_mod", path)
    mod = importlib.util.module_from_spec(spec)
    sys.modules[ns + "_mod"] = mod
    spec.loader.exec_module(mod)
    db_uri = env.empty_db(os.path.join(d, "redun.db"))

    def execute(uri):
        ctl = make_ctl()
        sched = ctl_sched.make_scheduler(ctl, db_uri=uri)
        with inherit_priority(ctl):
            status, payload = ctl.run(sched, mod.main())
        close_sched(sched)
        return ("ok:%s" % (payload,)) if status == "ok" else "%s:%s" % (status, type(payload).__name__ if status == "err" else payload)

    rows = []
    for k, st in enumerate(ph.steps):
        for i, s in st["src"].items():
            write_stamped(srcs[i], s)
        for i in st["clean"]:
            for fn in ("o%d.txt" % i, "m%d.txt" % i):
                if os.path.exists(os.path.join(out, fn)):
                    os.remove(os.path.join(out, fn))
        for i, s in st["tamper"].items():
            if os.path.exists(os.path.join(out, "o%d.txt" % i)):
                write_stamped(os.path.join(out, "o%d.txt" % i), s)
        shutil.rmtree(pre, ignore_errors=True)
        shutil.copytree(out, pre)
        real = execute(db_uri)
        shutil.rmtree(post, ignore_errors=True)
        shutil.copytree(out, post)
        shutil.rmtree(out)
        shutil.copytree(pre, out)
        fresh_path = os.path.join(d, "fresh.db")
        fresh = execute(env.empty_db(fresh_path))
        os.remove(fresh_path)
        shutil.rmtree(out)
        shutil.copytree(post, out)
        rows.append(dict(step=k, real=real, fresh=fresh))
    shutil.rmtree(d, ignore_errors=True)
    return rows


def check_prodhist(ctx, env, ph, label):
    rows = run_prodhist(env, ph)
    case = dict(label=label, producers=ph.to_json())
    ctx.case(key=json.dumps(ph.to_json(), sort_keys=True), sample=dict(label=label, lanes=ph.lanes, results=[r["real"] for r in rows][:4]),
             steps=len(rows), source="producers")
    for kind in ph.lanes:
        ctx.count("producer", kind)
    for r in rows:
        ctx.count("outcome", r["real"].split(":")[0])
        if r["real"] != r["fresh"]:
            ctx.violation(SIG_PRODUCED, "execution %d of a file-producing history returns %s on the shared backend, %s on a fresh backend"
                          % (r["step"], r["real"], r["fresh"]), case=dict(case, step=r["step"]), expected=r["fresh"], actual=r["real"],
                          kind="history")
    return rows


def prod_corpus():
    # clean the output directory and rewrite the source between executions; the destination File is a task argument
    return {
        "copy-to-prehashed-destination": ProdHist(["copy_arg"], [dict(src={0: 1}, clean=[], tamper={}), dict(src={0: 2}, clean=[0], tamper={}),
                                                                    dict(src={0: 2}, clean=[], tamper={}), dict(src={0: 1}, clean=[0], tamper={})]),
        "all-producers": ProdHist(list(PRODUCERS), [dict(src={i: 1 for i in range(5)}, clean=[], tamper={}),
                                                    dict(src={i: 3 for i in range(5)}, clean=[0, 1, 2, 3, 4], tamper={}),
                                                    dict(src={i: 3 for i in range(5)}, clean=[], tamper={1: 7})]),
    }


# =========================================================================================== container arguments
# (oracle only: the Lean model's values are ints, Files and look-alike primitives.  A container argument's VALUE includes the
#  order of a dict's keys, the order of a list, and whether it is a list or a tuple - a task can observe all three - so two
#  arguments that differ only in that are different arguments and must not share a cache entry)
SIG_CONTAINER = "C02-stale-result-after-container-argument-change"


def build_arg(a):
    """spec -> python value: int | str | ["dict", [[k, v] ...]] | ["list", [...]] | ["tuple", [...]]"""
    if isinstance(a, (int, str)):
        return a
    if a[0] == "dict":
        return {k: build_arg(v) for k, v in a[1]}
    if a[0] == "list":
        return [build_arg(v) for v in a[1]]
    return tuple(build_arg(v) for v in a[1])


class ArgHist:
    """steps: list of argument specs; every execution runs main(arg) = [show(arg), showk(1, d=arg), first(arg), deep(...)]"""

    def __init__(self, steps):
        self.steps = steps

    def to_json(self):
        return dict(kind="container-arguments", steps=self.steps)


def variants(rng, a):
    """the same content with something observable changed: key order, element order, list <-> tuple, at any depth"""
    if isinstance(a, (int, str)):
        return a
    kind, items = a[0], list(a[1])
    r = rng.random()
    if kind == "dict":
        if r < 0.6 and len(items) > 1:
            rng.shuffle(items)
        elif r < 0.75:
            items = sorted(items, key=lambda kv: kv[0])
        return ["dict", [[k, variants(rng, v) if rng.random() < 0.4 else v] for k, v in items]]
    if r < 0.35 and len(items) > 1:
        rng.shuffle(items)
    if r > 0.8:
        kind = "tuple" if kind == "list" else "list"
    return [kind, [variants(rng, v) if rng.random() < 0.4 else v for v in items]]


def gen_arghist(rng, nsteps):
    keys = rng.sample(["sample", "lane", "run", "a", "b", "z"], rng.choice([2, 3, 3, 4]))
    def val(depth):
        r = rng.random()
        if depth <= 0 or r < 0.5:
            return rng.choice([1, 2, 3, "s1", "x"])
        if r < 0.75:
            return ["dict", [[k, val(depth - 1)] for k in rng.sample(["p", "q", "c"], 2)]]
        return [rng.choice(["list", "tuple"]), [rng.choice([1, 2, 3]) for _ in range(rng.choice([2, 3]))]]
    base = ["dict", [[k, val(1)] for k in keys]] if rng.random() < 0.75 else [rng.choice(["list", "tuple"]), [val(1) for _ in range(3)]]
    steps = [base]
    for _ in range(nsteps - 1):
        steps.append(variants(rng, rng.choice(steps)))
    return ArgHist(steps)


def run_arghist(env, ah):
    import ctl_sched
    env.nhist += 1
    ns = "c02a%d" % env.nhist
    d = os.path.join(env.dir, ns)
    os.makedirs(d)
    text = ["from redun import task", "",
            "def _shape(v):",
            "    if isinstance(v, dict):",
            "        return '{' + ','.join('%s:%s' % (k, _shape(x)) for k, x in v.items()) + '}'",
            "    if isinstance(v, list):", "        return '[' + ','.join(_shape(x) for x in v) + ']'",
            "    if isinstance(v, tuple):", "        return '(' + ','.join(_shape(x) for x in v) + ')'",
            "    return repr(v)", ""]
    for name, params, body in [
            ("show", "d", "return _shape(d)"),                                 # positional, iteration order
            ("showk", "x, d=None", "return _shape(d)"),                        # keyword
            ("first", "d", "return _shape(next(iter(d)))"),                    # first key / first element
            ("inner", "d", "return [_shape(v) for v in (d.values() if isinstance(d, dict) else d)]")]:
        text += ['@task(name="%s", namespace="%s", version="1")' % (name, ns), "def %s(%s):" % (name, params), "    " + body, ""]
    text += ['@task(name="main", namespace="%s", version="1")' % ns, "def main(arg):",
             "    return [show(arg), showk(1, d=arg), first(arg), inner(arg)]", ""]
    path = os.path.join(d, ns + "_mod.py")
    with open(path, "w") as f:
        f.write("\n".join(text))
    spec = importlib.util.spec_from_file_location(ns + "_mod", path)
    mod = importlib.util.module_from_spec(spec)
    sys.modules[ns + "_mod"] = mod
    spec.loader.exec_module(mod)
    db_uri = env.empty_db(os.path.join(d, "redun.db"))

    def execute(uri, arg):
        ctl = make_ctl()
        sched = ctl_sched.make_scheduler(ctl, db_uri=uri)
        with inherit_priority(ctl):
            status, payload = ctl.run(sched, mod.main(build_arg(arg)))
        close_sched(sched)
        return ("ok:%r" % (payload,)) if status == "ok" else "%s:%s" % (status, type(payload).__name__ if status == "err" else payload)

    rows = []
    for k, arg in enumerate(ah.steps):
        real = execute(db_uri, arg)
        fresh_path = os.path.join(d, "fresh.db")
        fresh = execute(env.empty_db(fresh_path), arg)
        os.remove(fresh_path)
        rows.append(dict(step=k, arg=arg, real=real, fresh=fresh))
    shutil.rmtree(d, ignore_errors=True)
    return rows


def check_arghist(ctx, env, ah, label):
    rows = run_arghist(env, ah)
    case = dict(label=label, container_arguments=ah.to_json())
    ctx.case(key=json.dumps(ah.to_json(), sort_keys=True), sample=dict(label=label, args=ah.steps[:3], results=[r["real"][:80] for r in rows][:3]),
             steps=len(rows), source="container-arguments")
    for r in rows:
        ctx.count("outcome", r["real"].split(":")[0])
        ctx.count("container_argument", r["arg"][0] if isinstance(r["arg"], list) else "scalar")
        if r["real"] != r["fresh"]:
            ctx.violation(SIG_CONTAINER, "execution %d (argument %s) returns %s on the shared backend, %s on a fresh backend"
                          % (r["step"], json.dumps(r["arg"]), r["real"], r["fresh"]), case=dict(case, step=r["step"]),
                          expected=r["fresh"], actual=r["real"], kind="history")
    return rows


def arg_corpus():
    D = lambda *kv: ["dict", [list(x) for x in kv]]       # noqa: E731
    return {
        "dict-key-order": ArgHist([D(("sample", "s1"), ("lane", 3)), D(("lane", 3), ("sample", "s1")), D(("sample", "s1"), ("lane", 3))]),
        "nested-and-sequences": ArgHist([D(("b", ["list", [1, 2, 3]]), ("a", D(("q", 1), ("p", 2)))),
                                         D(("a", D(("q", 1), ("p", 2))), ("b", ["list", [1, 2, 3]])),
                                         D(("a", D(("p", 2), ("q", 1))), ("b", ["tuple", [1, 2, 3]])),
                                         D(("a", D(("p", 2), ("q", 1))), ("b", ["list", [3, 2, 1]])),
                                         ["list", [1, 2, 3]], ["tuple", [1, 2, 3]], ["list", [3, 2, 1]]]),
    }


# =========================================================================================== run
_CPU0 = [0.0]


def cpu():
    """CPU seconds of this process since run() started (imports are a fixed cost, 2-10 s depending on the load)"""
    import time
    return time.process_time() - _CPU0[0]


def run(ctx):
    import time
    import ctl_sched
    ctl_sched.quiet()
    _CPU0[0] = time.process_time()
    env = Env()
    try:
        flags = probe_flags(ctx, env)
        ctx.note("tree variant: %s" % json.dumps(flags))
        quick = ctx.tier == "quick"
        for name, ph in prod_corpus().items():
            check_prodhist(ctx, env, ph, "corpus:" + name)
        for name, ah in arg_corpus().items():
            check_arghist(ctx, env, ah, "corpus:" + name)
        cases = [("corpus:" + name, h, dict(source="corpus")) for name, h in corpus().items()]
        nsteps_max = 6 if ctx.tier == "quick" else 10
        rng = ctx.rng
        for idx in range(ctx.n(140, 1500)):
            allow_catch = rng.random() < 0.25
            prim = rng.random() < 0.15
            h = gen_history(rng, rng.randrange(2, nsteps_max + 1), allow_catch, prim=prim)
            cases.append(("gen%d" % idx, h, dict(source="generated", catch=allow_catch and not prim, lookalike_args=prim)))
        # budgets in CPU seconds of this process (the machine may be loaded); wall clock only as a safety net
        cpu_budget, wall_budget = (20, 60) if quick else (300, 480)
        done = []
        nprod = 0
        for k, (label, h, tags) in enumerate(cases):
            done.append((label, h, tags, run_real(env, h)))
            if k % 6 == 5:
                nprod += 1
                if nprod % 2:
                    check_prodhist(ctx, env, gen_prodhist(rng, rng.randrange(2, 5 if quick else 7)), "prod%d" % nprod)
                else:
                    check_arghist(ctx, env, gen_arghist(rng, rng.randrange(3, 6 if quick else 9)), "args%d" % nprod)
            if cpu() > cpu_budget or ctx.elapsed() > wall_budget:
                ctx.note("stopped after %d of %d histories + %d file-producing / container-argument histories (budget: %.0fs cpu, %.0fs wall)"
                         % (k + 1, len(cases), nprod, cpu(), ctx.elapsed()))
                break
        replies = ctx.model("C02", [q for _, h, _, _ in done for q in requests(h, flags)])
        for k, (label, h, tags, rows) in enumerate(done):
            check_history(ctx, h, flags, label, tags, add_model(rows, replies[4 * k: 4 * k + 4]),
                          witness=SIG_CATCH if label == "corpus:catch-edit-caught-task" else None)
    finally:
        env.close()


def replay(ctx, case):
    import ctl_sched
    ctl_sched.quiet()
    env = Env()
    try:
        c = case.get("case") or {}
        if "container_arguments" in c:
            for r in check_arghist(ctx, env, ArgHist(c["container_arguments"]["steps"]), "replay"):
                print("step", r["step"], json.dumps(r["arg"]), "real", r["real"], "fresh", r["fresh"])
            return
        if "producers" in c:
            for r in check_prodhist(ctx, env, ProdHist.from_json(c["producers"]), "replay"):
                print("step", r["step"], "real", r["real"], "fresh", r["fresh"])
            return
        hist = Hist.from_json(c["history"]) if "history" in c else None
        if hist is None:
            mm = (case.get("mismatches") or [{}])[0].get("case", {})
            hist = Hist.from_json(mm["history"])
            c = mm
        flags = c.get("flags") or probe_flags(ctx, env)
        rows = check_history(ctx, hist, flags, "replay", dict(source="replay"), run_history(ctx, env, hist, flags, "replay"))
        for r in rows:
            print("step", r["step"], r["edits"], "real", r["real"], "fresh", r["fresh"], "model", r["model"])
            print("     called:", r["log"])
            print("     model :", r["model_log"])
    finally:
        env.close()
