"""C26 — a job's context is its parent's context deep-merged with the call's update_context overrides (root =
configured context merged with the run context); get_context(path, default) reads the dotted path or the default.
Model: lean/RedunModel/Model/Context.lean."""
import json
import logging
import os
import shutil
import tempfile

from core import sx

ID = "C26"
READY = True
LEAN_MODULES = ["RedunModel.Props.C26"]
LEAN_DRIVERS = ["C26"]
THEOREMS = [
    "RedunModel.C26.binary_is_deepMerge",
    "RedunModel.C26.deepMerge_wf",
    "RedunModel.C26.merge_lookup",
    "RedunModel.C26.merge_as_path_function",
    "RedunModel.C26.key_order_irrelevant",
    "RedunModel.C26.reorder_extEq",
    "RedunModel.C26.lookup_respects_extEq",
    "RedunModel.C26.merge_nonmapping_right",
    "RedunModel.C26.merge_nonmapping_left",
    "RedunModel.C26.root_context",
    "RedunModel.C26.execContext_wf",
    "RedunModel.C26.job_context",
    "RedunModel.C26.job_context_step",
    "RedunModel.C26.job_context_no_override",
    "RedunModel.C26.update_context_first",
    "RedunModel.C26.update_context_chained",
    "RedunModel.C26.override_of_chain",
    "RedunModel.C26.nary_note",
    "RedunModel.C26.lookup_spec",
    "RedunModel.C26.lookup_default",
    "RedunModel.C26.lookup_found",
    "RedunModel.C26.lookup_fails_nonmapping",
    "RedunModel.C26.lookup_fails_missing",
]
TRUSTED = [
    "modelled, not verified: Python dict is insertion ordered with unique keys (Ctx.WF), defaultdict(list) keeps first-"
    "occurrence key order, str.split('.') = String.splitOn \".\" (exercised by the tie incl. empty segments), "
    "isinstance(x, dict) on JSON-like values",
    "non-mapping context values (numbers, strings, lists, None, booleans) are opaque leaves compared by their JSON dump",
    "the scheduler part (which parent a job has, which override a call carries, evaluation of get_context inside a job and "
    "as an argument default) is tied only by running generated job trees on the real Scheduler with an in-memory backend",
]
ASSUMPTIONS = [
    "contexts are JSON-like with string keys, finite, acyclic; no '$' in the configured context text (it passes through "
    "the config file interpolation, property C35)",
    "`node`/`probe` jobs have distinct arguments; the `reader`/`wrap` jobs deliberately have the same task and arguments in every "
    "context (only Job.context_hash keeps them apart) and are generated only under a non-empty execution context, so every compared job "
    "context is non-empty: an EMPTY-context job served from a context-bearing one is the listed finding of C05 "
    "(C05-context-free-call-served-context-bearing-result), not part of this check",
    "a single update_context(ctx, **kwargs) call where a previous override, ctx and kwargs all define the same key with a "
    "non-mapping in the middle is outside the statement (Lean remark nary_note); there the override is compared with the model "
    "only, and the job-tree oracle takes the override actually stored on the task",
    "overrides contain plain values (no Expressions)",
]
RULE = ("JSON-like contexts (depth <= 4, keys from a small alphabet incl. '', 'a.b', non-ASCII; leaves incl. falsy values, lists, "
        "lists holding dicts) from one PRNG. Streams: merge_dicts on 0-4 arguments (non-dicts mixed in) vs model, plus the binary "
        "deep-merge spec as oracle; get_context_value on paths derived from the context (valid, truncated, extended, empty "
        "segments, through leaves, missing) vs model and the lookup spec; Task.update_context chains vs model; job trees "
        "(depth <= 4, nested update_context, get_context in the body and as argument default; groups of sibling / caller-direct calls "
        "with the SAME task and arguments under different overrides, incl. task calls used as argument defaults whose context reads "
        "sit one or two jobs further down) run on the real Scheduler, every returned value compared with the model's "
        "jobContext/getContextValue and with the spec; every finalized job's context_hash is recorded: equal hashes <=> equal "
        "contexts per scheduler. Every call in a tree goes through a random chain of .update_context / .partial / .options on the called "
        "task (update_context before and after partial, several times); the override it carries is compared with the model's "
        "overrideOfChain and with the deep merge of all its update_context overrides. distinct = distinct "
        "(inputs) tuples; non-trivial = at least one mapping with a nested mapping or a path of >= 2 segments")

LEVEL_TEXT = ("Proved in Lean, all full strength, for contexts of any depth/width with non-mappings anywhere (Ctx.WF = unique keys is the dict "
              "invariant, not a restriction): binary_is_deepMerge (merge_dicts' n-ary grouping algorithm on two arguments IS the deep merge "
              "'later wins, mappings merged'), root_context (root = config context merged with run context), job_context / job_context_step "
              "(induction over the ancestor chain: a job's context = fold of deepMerge over the overrides on its path), "
              "job_context_no_override, update_context_first / update_context_chained, override_of_chain (the override a call carries after "
              "a chain of update_context calls - with .partial()/.options() anywhere in between - is the deep merge of ALL of them in order), lookup_spec + lookup_default / lookup_found "
              "(get_context_value finds exactly the value at the dotted path, else the default; empty segments and non-mappings on the way "
              "included), merge_lookup, merge_as_path_function + key_order_irrelevant + reorder_extEq + lookup_respects_extEq (the merged "
              "context as a function from paths to values depends only on the inputs as such functions: key order irrelevant at any depth). "
              "nary_note is a remark outside the statement. Tie: merge_dicts, get_context_value, Task.update_context and generated job trees "
              "(nested update_context, get_context in bodies and as argument defaults) on the real Scheduler vs the model, plus the statement "
              "as an independent Python oracle.")
LEVEL_NOTE = ("The scheduler's job tree (which job is whose parent, which override a call carries, where get_context is evaluated) is not inside the "
              "Lean model: jobContext takes the ancestor chain as input; that part is tied only by running generated workflows on the real "
              "Scheduler. var_path.split('.') is String.splitOn in the model (lookup_spec is stated over the segment list). Overrides holding "
              "Expressions and get_context inside task options are outside this check. Same-task-same-arguments jobs in different NON-empty "
              "contexts are in (reads below them, and Job.context_hash: equal hashes <=> equal contexts, observed through a wrapper of "
              "Scheduler._finalize_job); an empty-context job served from a context-bearing one is C05's listed finding and kept out. A single "
              "update_context(ctx, **kwargs) with previous override + ctx + kwargs all defining one key is the 3-ary merge (nary_note), not a left fold.")
TECHNIQUE = "Lean 4 proof on a model of merge_dicts/get_context_value/Job.get_context + differential runs of generated job trees on the real Scheduler"

KEYS = ["a", "b", "c", "d", "", "a.b", "k", "é"]


# ------------------------------------------------------------------ reference (the property statement)
def spec_merge(a, b):
    if isinstance(a, dict) and isinstance(b, dict):
        out = dict(a)
        for k, v in b.items():
            out[k] = spec_merge(a[k], v) if k in a else v
        return out
    return b


def spec_get(ctx, path, default):
    cur = ctx
    for seg in path.split("."):
        if not isinstance(cur, dict) or seg not in cur:
            return default
        cur = cur[seg]
    return cur


def canon(v):
    """order-insensitive, type-sensitive (1 / 1.0 / true differ) text"""
    return json.dumps(v, sort_keys=True)


# ------------------------------------------------------------------ generator
def gen_leaf(rng):
    return rng.choice([0, 1, -1, 2, 3, 10, False, True, None, "", "x", "y", "0", "a.b", 1.5, 0.0, [], [1, 2], [{"a": 1}], ["a", None],
                       rng.randrange(100), "s%d" % rng.randrange(50)])


def gen_ctx(rng, depth, width=3, p_leaf=0.0, p_nest=0.5):
    """a mapping (top level is always a mapping unless p_leaf fires)"""
    if rng.random() < p_leaf:
        return gen_leaf(rng)
    d = {}
    for _ in range(rng.choice([0, 1, 1, 2, 2, 3, width])):
        k = rng.choice(KEYS[:4]) if rng.random() < 0.75 else rng.choice(KEYS)
        if depth > 1 and rng.random() < p_nest:
            d[k] = gen_ctx(rng, depth - 1, width, p_nest=p_nest)
        else:
            d[k] = gen_leaf(rng)
    return d


def gen_path(rng, ctx):
    """mostly derived from the context so that lookups succeed or fail late"""
    segs = []
    cur = ctx
    while isinstance(cur, dict) and cur and rng.random() < 0.85:
        k = rng.choice(list(cur.keys()))
        segs.append(k)
        cur = cur[k]
    m = rng.random()
    if m < 0.15 and segs:
        segs.pop()
    elif m < 0.3:
        segs.append(rng.choice(KEYS))
    elif m < 0.4 and segs:
        segs[rng.randrange(len(segs))] = rng.choice(KEYS)
    elif m < 0.45:
        segs.insert(rng.randrange(len(segs) + 1), "")
    elif m < 0.5:
        segs = [rng.choice(KEYS) for _ in range(rng.randrange(0, 4))]
    path = ".".join(segs)
    if rng.random() < 0.03:
        path = path.replace(".", rng.choice(["/", ":", ".."]), 1)
    return path


def gen_default(rng):
    return rng.choice([None, None, "DFLT", 0, False, {"d": 1}, [], 7])


def to_sx(v):
    if isinstance(v, dict):
        return "(O" + "".join(" (" + sx(str(k)) + " " + to_sx(x) + ")" for k, x in v.items()) + ")"
    return sx(json.dumps(v))


_SAMPLES = {}


def take_sample(ctx, kind, limit, cond, sample):
    k = (id(ctx), kind)
    if cond and _SAMPLES.get(k, 0) < limit:
        _SAMPLES[k] = _SAMPLES.get(k, 0) + 1
        return sample
    return None


def nontrivial(*vals):
    for v in vals:
        if isinstance(v, dict) and any(isinstance(x, dict) for x in v.values()):
            return True
        if isinstance(v, str) and "." in v:
            return True
    return False


# ------------------------------------------------------------------ real tasks (defined once per process)
_T = {}


def tasks():
    if _T:
        return _T
    from redun import task
    from redun.context import get_context

    @task(namespace="verif_c26", name="probe_ab", version="1")
    def probe_ab(ident, v=get_context("a.b", "DFLT")):
        return {"id": ident, "v": v}

    @task(namespace="verif_c26", name="probe_c", version="1")
    def probe_c(ident, v=get_context("c")):
        return {"id": ident, "v": v}

    # Jobs with the SAME task and arguments in every context (only the context tells them apart): `reader` reads the
    # context in its body, `wrap` has no override of its own and reads it in its body and one level down; `mid` / `midr`
    # use a task call as a default argument (evaluated under the callee's context), `mid_body` makes the call in its body.
    @task(namespace="verif_c26", name="reader", version="1")
    def reader(tag):
        return {"r": [get_context(p, d) for p, d in FQ]}

    @task(namespace="verif_c26", name="wrap", version="1")
    def wrap(tag):
        return {"w": [get_context(p, d) for p, d in FQ[:3]], "leaf": reader(tag)}

    @task(namespace="verif_c26", name="mid", version="1")
    def mid(ident, inner=wrap("W")):
        return {"id": ident, "inner": inner}

    @task(namespace="verif_c26", name="midr", version="1")
    def midr(ident, inner=reader("W")):
        return {"id": ident, "inner": inner}

    @task(namespace="verif_c26", name="mid_body", version="1")
    def mid_body(ident):
        return {"id": ident, "inner": wrap("W")}

    @task(namespace="verif_c26", name="node", version="1")
    def node(spec):
        q = [get_context(p, d) for p, d in spec["queries"]]
        c = []
        for kind, calls, child in spec["children"]:
            t = {"node": node, "probe_ab": probe_ab, "probe_c": probe_c, "reader": reader, "wrap": wrap, "mid": mid, "midr": midr,
                 "mid_body": mid_body}[kind]
            c.append(apply_chain(t, calls, child)[0])
        return {"id": spec["id"], "q": q, "c": c}

    _T.update(node=node, probe_ab=probe_ab, probe_c=probe_c, reader=reader, wrap=wrap, mid=mid, midr=midr, mid_body=mid_body,
              get_context=get_context)
    return _T


PROBE_PATH = {"probe_ab": ("a.b", "DFLT"), "probe_c": ("c", None)}
# the fixed reads of `reader` (all six) and `wrap` (first three)
FQ = [["a.b", "DFLT"], ["c", None], ["a", 7], ["b.c", 0], ["d", None], ["a.c", "x"]]
SHARED_KINDS = ["mid", "mid", "midr", "mid_body", "wrap", "reader"]


def targeted_override(rng):
    """a small override that changes what the fixed reads FQ return"""
    v = rng.choice([0, 1, 2, 3, "s", None, False, {"b": rng.randrange(4)}, {"c": rng.randrange(4)}])
    return rng.choice([{"a": {"b": v}}, {"c": v}, {"b": {"c": v}}, {"d": v}, {"a": v}, {"a": {"c": v}}, {"a": {"b": v}, "c": rng.randrange(3)}])


def apply_chain(t, steps, arg):
    """The call expression `t.<steps…>(arg)`.  A step is (ctx, kwargs) or ["uc", ctx, kwargs] = .update_context(ctx, **kwargs);
    ["partial", bind] = .partial(arg) if bind and the argument is not bound yet, else .partial(); ["options", k] = .options(verif_opt=k)"""
    bound = False
    for st in steps:
        if st[0] == "partial":
            if st[1] and not bound:
                t, bound = t.partial(arg), True
            else:
                t = t.partial()
        elif st[0] == "options":
            t = t.options(verif_opt=st[1])
        else:
            t = t.update_context(st[-2], **st[-1])
    return (t() if bound else t(arg)), t


def apply_calls(t, calls):
    """the task object after the chain (argument None)"""
    return apply_chain(t, calls, None)[1]


def uc_steps(steps):
    return [(st[-2], st[-1]) for st in steps if st[0] not in ("partial", "options")]


def want_override(steps):
    """the statement: the call's override is the deep merge of ALL update_context overrides of the chain, in order"""
    ov = {}
    for cx, kw in uc_steps(steps):
        ov = spec_merge(spec_merge(ov, cx), kw)
    return ov


def ambiguous(steps):
    """a step with previous override, ctx and kwargs all present is the 3-ary merge of the remark nary_note"""
    prev = False
    for cx, kw in uc_steps(steps):
        if prev and cx and kw:
            return True
        prev = prev or bool(cx) or bool(kw)
    return False


def partial_between(steps):
    """an update_context on a partially applied task (a .partial() somewhere before it) after an earlier non-empty update_context"""
    seen_uc, seen_p = False, False
    for st in steps:
        if st[0] == "partial":
            seen_p = True
        elif st[0] != "options":
            if seen_p and seen_uc:
                return True
            seen_uc = seen_uc or bool(st[-2]) or bool(st[-1])
    return False


def s_chain(steps):
    return "chain" + "".join(" (P %s %s)" % (to_sx(cx), to_sx(kw)) for cx, kw in uc_steps(steps))


def call_override(ctx, reqs, checks, task_obj, steps):
    """The override the call carries: compared with the model's overrideOfChain and with the statement; returns what the job-tree
    oracle uses (the statement's override; the stored one only inside the nary_note remark)."""
    try:
        stored = stored_override(apply_calls(task_obj, steps))
        impl = to_sx(stored)
    except Exception as e:  # noqa: BLE001
        stored, impl = None, "!" + type(e).__name__
    want = want_override(steps)
    amb = ambiguous(steps)
    if steps:
        reqs.append(s_chain(steps))
        checks.append(("chain", dict(steps=steps, impl=impl, amb=amb, want=canon(want), stored=None if stored is None else canon(stored))))
    return stored if (amb and stored is not None) else want


def stored_override(t):
    from redun.task import PartialTask
    while isinstance(t, PartialTask):
        t = t.task
    return t._task_options_override.get("_context_override", {})


class Ids:
    n = 0

    @classmethod
    def next(cls, seed):
        cls.n += 1
        return "j%d-%d" % (seed, cls.n)


def gen_calls(rng):
    """the update_context calls on one task call: [] (no override) or 1-3 calls (ctx, kwargs)"""
    r = rng.random()
    if r < 0.3:
        return []
    calls = []
    for _ in range(rng.choice([1, 1, 1, 2, 3])):
        ctx = gen_ctx(rng, rng.choice([1, 2, 3]))
        kw = {}
        if rng.random() < 0.25:
            kw = {k: v for k, v in gen_ctx(rng, 2).items()}
        calls.append((ctx, kw))
    if rng.random() < 0.45:     # .partial(..) / .options(..) anywhere in the chain: before, between and after the update_context calls
        for _ in range(rng.choice([1, 1, 2, 3])):
            st = ["partial", rng.random() < 0.5] if rng.random() < 0.7 else ["options", rng.randrange(3)]
            calls.insert(rng.randrange(len(calls) + 1), st)
    return calls


def gen_tree(rng, depth, seed, ctx_hint, shared=False):
    """spec of one `node` job; ctx_hint: a context to derive plausible paths from.  shared: also generate groups of calls with the
    same task and arguments under different overrides (siblings and caller-direct), incl. task calls used as argument defaults"""
    nq = rng.choice([1, 2, 3])
    queries = [[gen_path(rng, ctx_hint), gen_default(rng)] for _ in range(nq)]
    children = []
    if depth > 0:
        for _ in range(rng.choice([0, 1, 1, 2, 3]) if depth < 3 else rng.choice([1, 2])):
            calls = gen_calls(rng)
            hint = spec_merge(ctx_hint, want_override(calls))
            if rng.random() < 0.2:
                kind = rng.choice(["probe_ab", "probe_c"])
                children.append([kind, calls, Ids.next(seed)])
            else:
                children.append(["node", calls, gen_tree(rng, depth - 1, seed, hint, shared)])
    if shared and rng.random() < (0.6 if depth > 0 else 0.35):
        group = []
        kinds = [rng.choice(SHARED_KINDS)] * 2 if rng.random() < 0.5 else []
        while len(kinds) < rng.choice([2, 2, 3, 4]):
            kinds.append(rng.choice(SHARED_KINDS))
        for kind in kinds:
            r = rng.random()
            calls = [] if r < 0.2 else ([(targeted_override(rng), {})] if r < 0.6 else
                                        ([(targeted_override(rng), {}), ["partial", rng.random() < 0.5], (targeted_override(rng), {})]
                                         if r < 0.8 else gen_calls(rng)))
            group.append([kind, calls, Ids.next(seed) if kind in ("mid", "midr", "mid_body") else "W"])
        rng.shuffle(group)
        children.extend(group)
    return {"id": Ids.next(seed), "queries": queries, "children": children}


# ------------------------------------------------------------------ streams
def stream_merge(ctx, reqs, checks):
    from redun.utils import merge_dicts
    rng = ctx.rng
    corpus = [
        [{"a": 1, "b": 2}, {"b": 3, "c": 4}], [{"a": {"a1": 1}}, {"a": {"a2": 2}}], [{"a": {"x": 1}}, {"a": 5}], [{"a": 5}, {"a": {"x": 1}}],
        [{"a": {"b": {"c": 1, "d": 2}}}, {"a": {"b": {"c": 3}}}], [{}, {}], [{}], [], [{"a": 1}], [5], [5, {"a": 1}], [{"a": 1}, 5],
        [{"k": 5}, {"k": {"x": 1}}, {"k": {"y": 2}}], [{"a": 0}, {"a": None}], [{"a": None}, {"a": {}}], [{"a": {"b": 1}}, {"a": {}}],
        [{"b": 1, "a": 2}, {"a": 3, "c": 0, "b": 4}], [{"": 1}, {"": {"": 2}}], [{"a": [1]}, {"a": [2]}], [{"a": False}, {"a": 0}],
        [{"a": {"b": 1}}, {}, {"a": {"c": 2}}], [{}, {"a": {"b": 1}}, {"a": {"b": 2, "c": 3}}],
    ]
    cases = list(corpus)
    for _ in range(ctx.n(1500, 20000)):
        n = rng.choice([0, 1, 2, 2, 2, 2, 3, 3, 4])
        base = gen_ctx(rng, rng.choice([1, 2, 3, 4]))
        lst = []
        for i in range(n):
            r = rng.random()
            if r < 0.06:
                lst.append(gen_leaf(rng))
            elif r < 0.5 and isinstance(base, dict) and base:
                # an override built from the base: overlapping keys, nested overlaps
                lst.append(mutate(rng, base))
            else:
                lst.append(gen_ctx(rng, rng.choice([1, 2, 3])))
        cases.append(lst)
    for lst in cases:
        reqs.append("merge " + " ".join(to_sx(x) for x in lst))
        checks.append(("merge", lst))
    return merge_dicts


def mutate(rng, base):
    """a context sharing structure with `base`: some keys kept with changed leaves / sub-mappings, some dropped, some new"""
    out = {}
    keys = list(base.keys())
    rng.shuffle(keys)
    for k in keys:
        r = rng.random()
        if r < 0.35:
            continue
        v = base[k]
        if isinstance(v, dict) and r < 0.8:
            out[k] = mutate(rng, v)
        elif r < 0.9:
            out[k] = gen_leaf(rng)
        else:
            out[k] = gen_ctx(rng, 2)
    if rng.random() < 0.5:
        out[rng.choice(KEYS)] = gen_leaf(rng) if rng.random() < 0.6 else gen_ctx(rng, 2)
    return out


def run(ctx):
    from redun.context import get_context_value
    from redun.utils import merge_dicts
    rng = ctx.rng
    reqs, checks = [], []

    # ---------------- 1. merge_dicts
    stream_merge(ctx, reqs, checks)

    # ---------------- 2. get_context_value
    get_corpus = [
        ({"a": {"b": 0}}, "a.b", "D"), ({"a": {"b": False}}, "a.b", "D"), ({"a": {"b": None}}, "a.b", "D"), ({"a": {"b": ""}}, "a.b", "D"),
        ({"a": {"b": {}}}, "a.b", "D"), ({"a": 1}, "a.b", "D"), ({"a": {"b": 1}}, "a", "D"), ({"a": {"b": 1}}, "", "D"), ({"": 5}, "", "D"),
        ({"a": {"": 5}}, "a.", "D"), ({"": {"a": 5}}, ".a", "D"), ({"a.b": 1}, "a.b", "D"), ({"a": {"b": 1}}, "a..b", "D"),
        ({"a": {"b": 1}}, "a/b", "D"), ({"a": {"b": {"c": {"d": 4}}}}, "a.b.c.d", None), ({"a": [1, 2]}, "a.0", "D"), ({}, "a", None),
        ({"a": {"b": 1}}, "a.b.c", "D"), ({"a": {"b": 1}}, "b", {"x": 1}),
    ]
    for c, p, d in get_corpus:
        reqs.append("get %s %s %s" % (to_sx(c), sx(p), to_sx(d)))
        checks.append(("get", (c, p, d)))
    for _ in range(ctx.n(1500, 20000)):
        c = gen_ctx(rng, rng.choice([2, 3, 4, 4]), p_nest=0.7)
        p = gen_path(rng, c)
        d = gen_default(rng)
        reqs.append("get %s %s %s" % (to_sx(c), sx(p), to_sx(d)))
        checks.append(("get", (c, p, d)))

    # ---------------- 3. Task.update_context chains
    T = tasks()
    upd_corpus = [
        [({"a": 1}, {})], [({"a": {"b": 1}}, {}), ({"a": {"c": 2}}, {})], [({"a": {"b": 1}}, {"a": {"c": 2}})], [({}, {"a": 1})],
        [({"k": 5}, {}), ({"k": {"x": 1}}, {"k": {"y": 2}})], [({"a": {"b": 1}}, {}), ({"a": 5}, {}), ({"a": {"c": 1}}, {})],
        # regression (known_findings: C26-partial-task-update-context-drops-earlier-overrides): update_context after .partial()
        [({}, {"p": 1}), ["partial", False], ({}, {"q": 2})],
        [({"a": {"b": 1}}, {}), ["partial", True], ({"a": {"c": 2}}, {})],
        [({"a": {"b": 1}}, {}), ["partial", False], ["partial", False], ({"a.b": 2}, {}), ["options", 1], ({"a": {"b": {"c": 3}}}, {})],
        [["partial", True], ({"a": 1}, {}), ["options", 0], ({"b": 2}, {}), ["partial", False]],
        [({"a": 1}, {}), ["options", 2], ({"b": 2}, {})],
    ]
    for calls in upd_corpus + [gen_calls(rng) for _ in range(ctx.n(300, 4000))]:
        prev = {}
        for cx, kw in uc_steps(calls):
            reqs.append("update %s %s %s" % (to_sx(prev), to_sx(cx), to_sx(kw)))
            checks.append(("update", (prev, cx, kw)))
            prev = stored_override(T["node"].update_context(cx, **kw)) if not prev else \
                stored_override(T["node"].options(_context_override=prev).update_context(cx, **kw))
        call_override(ctx, reqs, checks, T["node"], calls)

    # ---------------- 4. job trees on the real scheduler
    wf_results = run_workflows(ctx, reqs, checks)

    # ---------------- model
    model_out = ctx.model("C26", reqs)

    # ---------------- compare
    for (kind, data), mo in zip(checks, model_out):
        if kind == "merge":
            lst = data
            try:
                impl_v = merge_dicts(list(lst))
                impl = to_sx(impl_v)
            except Exception as e:  # noqa: BLE001
                impl_v, impl = None, "!" + type(e).__name__
            ctx.case(key=("m", canon(lst)) if nontrivial(*lst) else None,
                     sample=take_sample(ctx, "merge", 2, len(lst) == 2 and nontrivial(*lst) and len(canon(lst)) > 60,
                                        {"merge_dicts": canon(lst)[:300], "result": canon(impl_v)[:200]}),
                     stream="merge_dicts", nargs=len(lst), nondict=sum(1 for x in lst if not isinstance(x, dict)))
            if mo != impl:
                ctx.mismatch("merge_dicts differs from model mergeDicts", case=canon(lst), model=mo, impl=impl)
            if len(lst) == 2:
                want = spec_merge(lst[0], lst[1])
                if impl_v is None and impl.startswith("!") or canon(impl_v) != canon(want):
                    ctx.violation("C26-merge-not-deep-merge", "merge_dicts([a, b]) is not the deep merge of a and b (later wins, mappings merged)",
                                  case={"a": lst[0], "b": lst[1]}, expected=canon(want), actual=impl if impl.startswith("!") else canon(impl_v))
        elif kind == "get":
            c, p, d = data
            try:
                impl_v = get_context_value(c, p, d)
                impl = to_sx(impl_v)
            except Exception as e:  # noqa: BLE001
                impl_v, impl = None, "!" + type(e).__name__
            want = spec_get(c, p, d)
            found = canon(want) != canon(d) or spec_get(c, p, "\0other") != "\0other"
            ctx.case(key=("g", canon(c), p) if ("." in p and isinstance(c, dict)) else None,
                     sample=take_sample(ctx, "get", 1, found and p.count(".") >= 2,
                                        {"get_context_value": canon(c)[:300], "path": p, "default": canon(d), "result": impl}),
                     stream="get_context_value", segments=min(p.count(".") + 1, 5), outcome="found" if found else "default",
                     falsy_found=bool(found and not want))
            if mo != impl:
                ctx.mismatch("get_context_value differs from model getContextValue", case={"ctx": c, "path": p, "default": d}, model=mo, impl=impl)
            if impl.startswith("!") or canon(impl_v) != canon(want):
                ctx.violation("C26-lookup-wrong", "get_context_value does not return the value at the dotted path / the default",
                              case={"ctx": c, "path": p, "default": d}, expected=canon(want), actual=impl if impl.startswith("!") else canon(impl_v))
        elif kind == "update":
            prev, cx, kw = data
            t = T["node"].options(_context_override=prev) if prev else T["node"]
            try:
                impl_v = stored_override(t.update_context(cx, **kw))
                impl = to_sx(impl_v)
            except Exception as e:  # noqa: BLE001
                impl_v, impl = None, "!" + type(e).__name__
            ctx.case(key=("u", canon([prev, cx, kw])) if nontrivial(prev, cx, kw) else None, stream="update_context",
                     has_prev=bool(prev), has_kwargs=bool(kw))
            if mo != impl:
                ctx.mismatch("Task.update_context override differs from model updateContext", case={"prev": prev, "ctx": cx, "kwargs": kw},
                             model=mo, impl=impl)
            if not prev or not kw:      # the domain of the statement (see ASSUMPTIONS)
                want = spec_merge(spec_merge(prev, cx), kw)
                if impl.startswith("!") or canon(impl_v) != canon(want):
                    ctx.violation("C26-update-context-wrong", "update_context does not deep-merge the new context into the previous override",
                                  case={"prev": prev, "ctx": cx, "kwargs": kw}, expected=canon(want),
                                  actual=impl if impl.startswith("!") else canon(impl_v))
        elif kind == "chain":
            steps, impl = data["steps"], data["impl"]
            ctx.case(key=("c", canon(steps)) if len(steps) > 1 else None, stream="call-chain", chain_updates=min(len(uc_steps(steps)), 4),
                     chain_partial=sum(1 for st in steps if st[0] == "partial"), chain_options=sum(1 for st in steps if st[0] == "options"),
                     partial_between_updates=partial_between(steps),
                     sample=take_sample(ctx, "chain", 1, partial_between(steps) and nontrivial(*[c for c, _ in uc_steps(steps)]),
                                        {"call_chain": canon(steps)[:300], "override": data["stored"]}))
            if mo != impl:
                ctx.mismatch("the _context_override carried by a call after a chain of update_context/partial/options differs from model "
                             "overrideOfChain", case={"chain": steps}, model=mo, impl=impl)
            if not data["amb"] and data["stored"] != data["want"]:
                sig = "C26-partial-task-update-context-drops-earlier-overrides" if partial_between(steps) else "C26-update-context-wrong"
                ctx.violation(sig, "the override a call carries is not the deep merge of all update_context overrides of its chain"
                              + (" (an update_context after .partial() drops the earlier ones)" if partial_between(steps) else ""),
                              case={"chain": steps}, expected=data["want"], actual=data["stored"] or impl)
        elif kind == "jobget":
            info = data
            impl = info["impl"]
            ctx.case(key=("j", info["job"], info["path"]) if info["depth"] >= 1 else None,
                     sample=take_sample(ctx, "job", 3, info["depth"] >= 2 and info["overridden"] >= 2 and "." in info["path"] and impl != to_sx(info["default"]),
                                        {"job_depth": info["depth"], "overrides_root_to_self": canon(info["chain"])[:300], "config": canon(info["config"])[:100],
                                         "run": canon(info["run"])[:100], "path": info["path"], "returned_json_hex": impl, "via": info["via"]}),
                     stream="scheduler-job-tree", job_depth=info["depth"], via=info["via"], overrides_on_chain=info["overridden"])
            if mo != impl:
                ctx.mismatch("value returned through get_context differs from model jobContext/getContextValue",
                             case={k: info[k] for k in ("config", "run", "chain", "path", "default", "via")}, model=mo, impl=impl)
            if impl != info["want"]:
                ctx.violation("C26-job-context-wrong", "get_context in a job does not see parent context deep-merged with the call's overrides "
                              "(root = config context merged with run context)",
                              case={k: info[k] for k in ("config", "run", "chain", "path", "default", "via")}, expected=info["want"], actual=impl,
                              kind="program")
    del wf_results


def run_workflows(ctx, reqs, checks):
    """Generated job trees with nested update_context on the real Scheduler (in-memory backend)."""
    from redun import Scheduler
    from redun.config import Config
    rng = ctx.rng
    T = tasks()
    log = logging.getLogger("redun")
    old_level = log.level
    log.setLevel(logging.ERROR)
    tmp = tempfile.mkdtemp(prefix="verif-c26-")
    try:
        n_sched = ctx.n(6, 30)
        n_runs = ctx.n(12, 40)
        fixed = [({"a": {"b": 1, "c": 2}, "c": 9}, {"a": {"c": 3}}), ({}, {}), ({"a": {"b": 0}}, {}), ({}, {"a": {"b": None}, "c": False})]
        for si in range(n_sched):
            config_ctx = fixed[si][0] if si < len(fixed) else gen_ctx(rng, rng.choice([1, 2, 3]))
            if si % 3 == 2:
                path = os.path.join(tmp, "context-%d.json" % si)
                with open(path, "w") as f:
                    json.dump(config_ctx, f)
                cfg = Config(config_dict={"scheduler": {"context_file": path}})
            elif config_ctx or si % 2:
                cfg = Config(config_dict={"scheduler": {"context": json.dumps(config_ctx)}})
            else:
                cfg = Config()
            sched = Scheduler(config=cfg)
            sched.load()
            seen_jobs = []

            def hook(job, _orig=sched._finalize_job, _seen=seen_jobs):
                try:
                    _seen.append((job.task.fullname, job.context_hash, canon(job.get_context())))
                except Exception as e:  # noqa: BLE001
                    _seen.append((getattr(job.task, "fullname", "?"), job.context_hash, "!" + type(e).__name__))
                return _orig(job)
            sched._finalize_job = hook
            for ri in range(n_runs):
                run_ctx = fixed[si][1] if (si < len(fixed) and ri == 0) else (mutate(rng, config_ctx) if rng.random() < 0.5 else gen_ctx(rng, 2))
                if rng.random() < 0.15:
                    run_ctx = {}
                exec_hint = spec_merge(config_ctx, run_ctx)
                root_calls = gen_calls(rng) if rng.random() < 0.4 else []
                hint = spec_merge(exec_hint, want_override(root_calls))
                # same-task-same-arguments jobs only under a non-empty execution context (every job context is then non-empty:
                # an empty-context job served from a context-bearing one is the listed finding of C05, not this property)
                shared = bool(exec_hint) and rng.random() < 0.7
                spec = gen_tree(rng, rng.choice([1, 2, 2, 3, 3]), ctx.seed, hint, shared)
                expr = apply_chain(T["node"], root_calls, spec)[0]
                try:
                    result = sched.run(expr, context=run_ctx) if (run_ctx or rng.random() < 0.5) else sched.run(expr)
                except Exception as e:  # noqa: BLE001
                    ctx.violation("C26-workflow-raises", "a context workflow raised", case={"config": config_ctx, "run": run_ctx, "spec": spec},
                                  expected="a result", actual=repr(e)[:300], kind="program")
                    continue
                root_ov = call_override(ctx, reqs, checks, T["node"], root_calls)
                walk(ctx, reqs, checks, config_ctx, run_ctx, spec, result, [root_ov], spec_merge(exec_hint, root_ov), 0)
            check_context_hashes(ctx, seen_jobs, config_ctx)
    finally:
        log.setLevel(old_level)
        shutil.rmtree(tmp, ignore_errors=True)
    return True


def walk(ctx, reqs, checks, config_ctx, run_ctx, spec, result, chain, want_ctx, depth):
    """chain: overrides root … self (as stored on the called tasks); want_ctx: the statement's context of this job"""
    T = tasks()

    def emit(path, default, got, via, job, chain, want_ctx, depth):
        reqs.append("jobget %s %s (L %s) %s %s" % (to_sx(config_ctx), to_sx(run_ctx), " ".join(to_sx(o) for o in reversed(chain)),
                                                      sx(path), to_sx(default)))
        checks.append(("jobget", dict(config=config_ctx, run=run_ctx, chain=list(chain), path=path, default=default, via=via, job=job,
                                      depth=depth, overridden=sum(1 for o in chain if o), impl=to_sx(got),
                                      want=to_sx(spec_get(want_ctx, path, default)))))

    if not isinstance(result, dict) or result.get("id") != spec["id"] or len(result.get("q", [])) != len(spec["queries"]) \
            or len(result.get("c", [])) != len(spec["children"]):
        ctx.violation("C26-workflow-shape", "workflow result has an unexpected shape", case={"spec": spec}, expected="node result",
                      actual=repr(result)[:300], kind="program")
        return
    for (path, default), got in zip(spec["queries"], result["q"]):
        emit(path, default, got, "body", spec["id"], chain, want_ctx, depth)
    for (kind, calls, child), cres in zip(spec["children"], result["c"]):
        ov = call_override(ctx, reqs, checks, T[kind], calls)
        child_ctx = spec_merge(want_ctx, ov)
        if kind == "node":
            walk(ctx, reqs, checks, config_ctx, run_ctx, child, cres, chain + [ov], child_ctx, depth + 1)
        elif kind in ("reader", "wrap", "mid", "midr", "mid_body"):
            # the jobs below have no override of their own: their context is this call's context
            if kind in ("mid", "midr", "mid_body"):
                ok = isinstance(cres, dict) and cres.get("id") == child
                inner, inner_kind = (cres.get("inner") if ok else None), ("reader" if kind == "midr" else "wrap")
                levels = 1
            else:
                inner, inner_kind, levels = cres, kind, 0
            via = {"mid": "task-call-as-argument-default", "midr": "task-call-as-argument-default", "mid_body": "task-call-in-body",
                   "reader": "direct-call", "wrap": "direct-call"}[kind]
            rd = inner.get("leaf") if (inner_kind == "wrap" and isinstance(inner, dict)) else inner
            if not (isinstance(inner, dict) and isinstance(rd, dict) and len(rd.get("r", [])) == len(FQ)
                    and (inner_kind != "wrap" or len(inner.get("w", [])) == 3)):
                ctx.violation("C26-workflow-shape", "workflow result has an unexpected shape", case={"kind": kind, "child": child},
                              expected=kind + " result", actual=repr(cres)[:300], kind="program")
                continue
            if inner_kind == "wrap":
                for (path, default), got in zip(FQ[:3], inner["w"]):
                    emit(path, default, got, via + "/wrap-body", "%s>%s" % (spec["id"], kind), chain + [ov] + [{}] * levels, child_ctx,
                         depth + 1 + levels)
                levels += 1
            for (path, default), got in zip(FQ, rd["r"]):
                emit(path, default, got, via + "/reader-body", "%s>%s" % (spec["id"], kind), chain + [ov] + [{}] * levels, child_ctx,
                     depth + 1 + levels)
        else:
            path, default = PROBE_PATH[kind]
            emit(path, default, cres.get("v") if isinstance(cres, dict) else cres, "argument-default", child, chain + [ov], child_ctx, depth + 1)


def check_context_hashes(ctx, seen_jobs, config_ctx):
    """Job.context_hash identifies the job's context: over all jobs of one scheduler, equal hashes <=> equal contexts
    (it is the CSE / cache key component that keeps jobs of different contexts apart)."""
    by_hash, by_ctx = {}, {}
    for name, h, c in seen_jobs:
        ctx.count("context_hash_jobs", "with-context" if h else "empty-context")
        a = by_hash.setdefault(h, (c, name))
        if a[0] != c:
            ctx.violation("C26-context-hash-shared-by-different-contexts", "two jobs with different contexts have the same context_hash "
                          "(a job's hash is not the hash of its own context)", case={"config": config_ctx, "job_a": a[1], "context_a": a[0][:300],
                                                                                   "job_b": name, "context_b": c[:300]},
                          expected="different context_hash", actual=str(h), kind="program")
        b = by_ctx.setdefault(c, (h, name))
        if b[0] != h:
            ctx.violation("C26-context-hash-differs-for-equal-contexts", "two jobs with equal contexts have different context_hash",
                          case={"config": config_ctx, "job_a": b[1], "job_b": name, "context": c[:300]}, expected=str(b[0]), actual=str(h),
                          kind="program")


def replay(ctx, case):
    print("replay case:", json.dumps(case.get("case"), default=repr)[:2000])
    run(ctx)
