"""C14 — the canonical structure encoding (bencode) is injective, key-order independent, decodable,
and rejects bools/None/floats.  Model: lean/RedunModel/Model/BStruct.lean (enc, norm, decode)."""
from core import Raw, sx

ID = "C14"
READY = True
LEAN_MODULES = ["RedunModel.Props.C14"]
LEAN_DRIVERS = ["C14"]
THEOREMS = [
    "RedunModel.C14.enc_unique_parse",
    "RedunModel.C14.enc_injective",
    "RedunModel.C14.enc_prefix_free",
    "RedunModel.C14.encList_injective",
    "RedunModel.C14.enc_norm_eq_iff",
    "RedunModel.C14.norm_str_bytes",
    "RedunModel.C14.norm_list_tuple",
    "RedunModel.C14.rejects_bool",
    "RedunModel.C14.rejects_none",
    "RedunModel.C14.rejects_float",
    "RedunModel.C14.rejects_in_list",
    "RedunModel.C14.rejects_nonstring_key",
    # key order
    "RedunModel.C14.dict_key_order_irrelevant",
    "RedunModel.C14.dict_key_order_irrelevant_nodup",
    "RedunModel.C14.dict_key_order_irrelevant_bytes",
    # sorted normal form
    "RedunModel.C14.norm_sorted",
    "RedunModel.C14.wfDict_keys_pairwise",
    "RedunModel.C14.sorted_dict_unique",
    "RedunModel.C14.norm_same_finmap",
    # decoder
    "RedunModel.C14.dec_enc",
    "RedunModel.C14.ofB_injective",
    "RedunModel.C14.dec_left_inverse",
    "RedunModel.C14.decode_total",
    "RedunModel.C14.dec_accepts_non_encodings",
    # the int -> decimal digit cap (str() beyond 4300 digits raises: rejected, never written in another base)
    "RedunModel.C14.intFits_iff",
    "RedunModel.C14.enc_unique_parse_encodable",
    "RedunModel.C14.enc_injective_encodable",
    "RedunModel.C14.enc_prefix_free_encodable",
    "RedunModel.C14.encodeE_ok_iff",
    "RedunModel.C14.encodeE_value_iff",
    "RedunModel.C14.encodeE_injective",
    "RedunModel.C14.rejects_beyond_cap",
    "RedunModel.C14.rejects_beyond_cap_nested",
    "RedunModel.C14.accepts_within_cap",
]
TRUSTED = [
    "modelled, not verified: Python int->decimal text (str(int)), str.encode() (UTF-8), sorted() on dict items "
    "(stable total-order sort; code-point order of str keys = byte order of their UTF-8; a str/bytes key mix of two or more "
    "items always raises TypeError), BytesIO (read/seek/tell; seek(-1, SEEK_CUR) at position 0 stays at 0), CPython int() on a "
    "bytes-like argument (base 10: ASCII whitespace, one sign, digits with single underscores), Py_ssize_t = 64 bit "
    "(f.read(n) raises OverflowError for n >= 2**63), sys.get_int_max_str_digits() = 4300 on Python >= 3.11 (str(int) and "
    "int(bytes) raise ValueError beyond 4300 digits; the model's intMaxStrDigits; the driver's linear-time digit routine is "
    "swapped in by a proved @[csimp] equation)",
    "SHA-512/160 collision freedom is outside the claim: the theorems are about the bytes fed to the hash",
]
ASSUMPTIONS = [
    "values are finite and acyclic; no lone surrogates in str (encode() would raise UnicodeEncodeError)",
    "values are int/str/bytes/list/tuple/dict; dict keys are str, bytes, or of a type bencode rejects (int, tuple, None): other "
    "Iterables (sets, generators) and buffer-like hashable keys (memoryview) are outside the statement's quantifier",
    "a structure holding both a cause of TypeError and an int beyond the 4300-digit cap is rejected by code and model, but which "
    "exception class surfaces depends on the writing order and is not modelled (model: TypeError): only rejected-vs-accepted is "
    "compared for those (fixed corpus cases; the random generator never mixes the two)",
    "decoder inputs nest at most ~150 deep (RecursionError of the recursive bdecode cannot be exhibited by the model)",
    "dec_enc assumes Fits: every byte string shorter than 2**63 bytes (CPython cannot build a longer one) and every int within "
    "the 4300-digit cap (beyond it bencode raises ValueError: rejects_beyond_cap)",
    "the str-vs-bytes guess of _decode_buffer (valid UTF-8 => str) is not in the model: decoded strings and dict keys are "
    "compared as bytes (the statement's 'other than by str versus utf-8 bytes')",
]
RULE = ("structures generated from one PRNG over int/str/bytes/list/tuple/dict(str or bytes keys) plus a malformed stream "
        "(bool/None/float leaves, int/tuple/mixed keys) and adversarial boundary-shift pairs; every case is encoded by the real "
        "bencode and by the Lean model (byte-exact comparison), decoded back by the real bdecode, and entered into a table "
        "encoding->canonical form to look for collisions. Ints at and beyond the str() digit cap (10**4299, 10**4300-1, 10**4300, "
        "16**3600, 2**14400, negatives, hex forms full of e/a) bare and nested in lists/dicts, in the corpus and with probability 4% per "
        "scalar; pairs (n, m) where the hex digits of n (beyond the cap) are the decimal digits of m (within it) go through the same "
        "table: accept-vs-reject, the exception class and the bytes are compared with the model's encodeE. Decoder: every distinct encoding, alone and followed by other bytes, and a "
        "malformed byte stream (fixed corpus; every string over {0,1,7,space,-,+,_,newline,x} up to length 3 (quick) / 4 (thorough) "
        "between i and e; mutated encodings: truncated, byte dropped/inserted/replaced, slice duplicated, trailing bytes; length "
        "prefixes with leading zeros, underscores, 2**63-1, 2**63, 10**k; hand-built dicts with unsorted/duplicate/non-string keys and "
        "missing values; token soup) go to the real bdecode (on a BytesIO, f.tell() observed) and to the model's decode: value vs error "
        "class, the decoded structure and the unread byte count must agree. distinct = distinct canonical forms / distinct malformed "
        "byte strings; non-trivial = container or rejected value (a bare int/str is trivial), malformed input of at least 2 bytes")
LEVEL_TEXT = ("Lean theorems, all full strength, over ALL structures (any depth, any size; injectivity over all pairs): "
              "enc_unique_parse (an encoding followed by anything determines structure and rest) with corollaries enc_injective, "
              "enc_prefix_free, encList_injective, enc_norm_eq_iff; norm_str_bytes / norm_list_tuple (the only identifications); "
              "rejects_bool / rejects_none / rejects_float / rejects_in_list / rejects_nonstring_key; the str() digit cap: encodeE = bencode "
              "with its exception class, encodeE_ok_iff / encodeE_value_iff, rejects_beyond_cap(_nested) / accepts_within_cap / intFits_iff "
              "(|z| >= 10**4300 is rejected with ValueError at any depth, below it encoded), encodeE_injective and "
              "enc_{unique_parse,injective,prefix_free}_encodable (the same theorems restricted to what bencode emits); dict_key_order_irrelevant "
              "(+ _nodup, _bytes): norm of a dict is invariant under every permutation of its item list, error cases included "
              "(bytesLt proved a strict total order, insertItem commutes for distinct keys); norm_sorted (every dict inside norm's result "
              "has strictly increasing keys, wfDict_keys_pairwise) and therefore sorted_dict_unique / norm_same_finmap (Python dicts equal "
              "as finite maps normalise to the same BDict); decoder: dec_enc (decode (enc v ++ rest) = (v, rest) for EVERY BVal, dicts with "
              "unsorted or duplicate keys included, because decode returns the item sequence of the stream), ofB_injective, "
              "dec_left_inverse (decode∘enc is the identity on norm's results, also through the Python-dict view canonD), decode_total (the "
              "model's fuel always suffices), dec_accepts_non_encodings (closed instances: i-0e, i03e, 'i 1_0 e', 03:abc, lle, d1:ae, unsorted "
              "keys decode; the property only speaks about decoding encodings). Tie: byte-exact comparison of bencode with enc∘norm, and of "
              "bdecode with decode (value / error class / unread bytes) on encodings and on a malformed stream; oracle on the real code: no "
              "collision between different canonical forms, insertion order irrelevant, bdecode(bencode(x)) = x, unencodables rejected.")
LEVEL_NOTE = ("The model is hand-written. Modelled, not verified: str(int), int(bytes), str.encode, sorted, BytesIO. bdecode's str-vs-bytes "
              "guess is outside the model (results compared as bytes). Dict results are compared as Python dicts (last binding wins, sorted by "
              "key bytes = canonD); the model's raw item sequence is only visible through `decraw`. Not exhibited by the model: RecursionError "
              "on deep nesting, a non-default sys.set_int_max_str_digits(), MemoryError, non-seekable streams (the peek branch of bdecode), text (str) "
              "input to bdecode. hash_struct = sha512(bencode(x))[:40]: the hash itself is outside the claim.")
TECHNIQUE = "Lean 4 proofs (unique parsing, permutation invariance, decode∘encode) on a model of bencode/bdecode + differential testing on structures and malformed bytes"


# ------------------------------------------------------------------ big ints
# Python >= 3.11 refuses int <-> decimal text beyond sys.get_int_max_str_digits() (4300) digits: str(n), repr(n), "%d" % n and
# int(b"...") raise ValueError.  bencode therefore REJECTS such ints (ValueError out of _encode_int); the harness must never
# print one in decimal either: `rep` and the `h<hex>` protocol atom use hex, which is exempt.
CAP = 4300
CAP_POW = 10 ** CAP          # smallest |n| that str() refuses


def over_cap(v):
    """does the structure hold an int that str() refuses?"""
    if isinstance(v, bool):
        return False
    if isinstance(v, int):
        return abs(v) >= CAP_POW
    if isinstance(v, (list, tuple)):
        return any(over_cap(x) for x in v)
    if isinstance(v, dict):
        return any(over_cap(x) for x in v.values()) or any(over_cap(k) for k in v if isinstance(k, (int, tuple)))
    return False


def rep(v):
    """repr that never converts a big int to decimal"""
    if isinstance(v, bool) or v is None or isinstance(v, (float, str, bytes)):
        return repr(v)
    if isinstance(v, int):
        return repr(v) if abs(v) < 10 ** 60 else ("-0x%x" % -v if v < 0 else "0x%x" % v)
    if isinstance(v, list):
        return "[" + ", ".join(rep(x) for x in v) + "]"
    if isinstance(v, tuple):
        return "(" + ", ".join(rep(x) for x in v) + ("," if len(v) == 1 else "") + ")"
    if isinstance(v, dict):
        return "{" + ", ".join(rep(k) + ": " + rep(x) for k, x in v.items()) + "}"
    return repr(v)


def int_atom(n):
    return "i%d" % n if abs(n) < 10 ** 50 else ("h-%x" % -n if n < 0 else "h%x" % n)


def digit_twins(rng):
    """pairs (n, m): the hex digits of n are the decimal digits of m, n beyond the cap, m within it -- the pair that
    collides if an int is ever written in hex between `i` and `e`; plus hex forms holding `e` and other letters."""
    out = []
    for h in ["1" * 4000, "9" * 3600, "1" + "0" * 3600, "7" * CAP,
              "1" + "".join(rng.choice("0123456789") for _ in range(rng.randrange(3580, CAP - 1)))]:
        n, m = int(h, 16), int(h)        # 3573+ hex digits => n >= 16**3572 > 10**4300; at most 4300 decimal digits => m prints
        assert abs(n) >= CAP_POW > abs(m)
        out.append((n, m))
    return out


BIG_INTS = [CAP_POW - 1, -(CAP_POW - 1), 10 ** (CAP - 1), CAP_POW, -CAP_POW, CAP_POW + 1, 10 ** (CAP + 1), -(10 ** 5000),
            16 ** 3600, -(16 ** 3600), 2 ** 14400, int("e" * 3600, 16), int("1e" * 1800, 16), int("a" * 3600, 16),
            int("1" * 4000, 16), -int("1" * 4000, 16), int("1" * 4000), -int("1" * 4000), 10 ** 4000, 10 ** 2000 + 1]


# ------------------------------------------------------------------ generator
def gen_scalar(rng, big=False):
    k = rng.random()
    if big and k < 0.04:
        return rng.choice(BIG_INTS)
    if k < 0.3:
        return rng.choice([0, 1, -1, 9, 10, -10, 99, 100, 255, 256, -256, 10 ** 20, -(10 ** 20) - 7, rng.randrange(-10 ** 6, 10 ** 6)])
    if k < 0.65:
        return rng.choice(["", "a", "ab", "abc", "e", "i1e", "1:a", "l", "d", "le", "é", "日本", "\x00", "0", "10:", ":",
                           "".join(rng.choice("ab:eild019\u00e9") for _ in range(rng.randrange(0, 12)))])
    return rng.choice([b"", b"a", b"ab", b"\xff", b"\xc3\xa9", b"\x00\x01", b"e", b"1:a",
                       bytes(rng.randrange(256) for _ in range(rng.randrange(0, 6)))])


def gen_bad(rng):
    return rng.choice([True, False, None, 1.5, 0.0])


def gen_val(rng, depth, bad, big=True):
    k = rng.random()
    if depth <= 0 or k < 0.3:
        if bad and rng.random() < 0.25:
            return gen_bad(rng)
        return gen_scalar(rng, big=big and not bad)      # never both a TypeError cause and an over-cap int: see RULE
    n = rng.choice([0, 1, 1, 2, 2, 3, 4])
    if k < 0.55:
        return [gen_val(rng, depth - 1, bad, big) for _ in range(n)]
    if k < 0.7:
        return tuple(gen_val(rng, depth - 1, bad, big) for _ in range(n))
    d = {}
    bytes_keys = rng.random() < 0.25
    for _ in range(n):
        key = rng.choice(["", "a", "b", "ab", "aa", "ba", "é", "z", "a\x00", "日", "k%d" % rng.randrange(20)])
        if bytes_keys:
            key = key.encode()
        if bad and rng.random() < 0.12:
            key = rng.choice([1, (1, 2), None, key.encode() if isinstance(key, str) else key.decode()])
        d[key] = gen_val(rng, depth - 1, bad, big)
    if rng.random() < 0.5:      # shuffle insertion order
        items = list(d.items())
        rng.shuffle(items)
        d = dict(items)
    return d


def to_sx(v):
    if isinstance(v, bool) or v is None:
        return sx(v)
    if isinstance(v, float):
        return "f"
    if isinstance(v, int):
        return int_atom(v)
    if isinstance(v, (str, bytes)):
        return sx(v)
    if isinstance(v, list):
        return "(L " + " ".join(to_sx(x) for x in v) + ")"
    if isinstance(v, tuple):
        return "(U " + " ".join(to_sx(x) for x in v) + ")"
    if isinstance(v, dict):
        return "(D " + " ".join("(" + (sx(k) if isinstance(k, (str, bytes)) else "X") + " " + to_sx(x) + ")" for k, x in v.items()) + ")"
    raise TypeError(type(v))


def canon(v):
    """Canonical form up to the equivalences the property allows: str~utf-8 bytes, list~tuple, key order."""
    if isinstance(v, bool) or v is None or isinstance(v, float):
        raise TypeError("not encodable")
    if isinstance(v, int):
        return ("i", v)
    if isinstance(v, str):
        return ("b", v.encode())
    if isinstance(v, bytes):
        return ("b", v)
    if isinstance(v, (list, tuple)):
        return ("l", tuple(canon(x) for x in v))
    if isinstance(v, dict):
        kinds = {type(k) for k in v}
        if len(kinds) > 1 or (kinds and not kinds <= {str, bytes}):
            raise TypeError("bad keys")
        return ("d", tuple(sorted((k.encode() if isinstance(k, str) else k, canon(x)) for k, x in v.items())))
    raise TypeError(type(v))


def canon_decoded(v):
    """Canonical form of a bdecode result.  bdecode returns str when the bytes are valid UTF-8 else bytes, so a
    dict that was encoded with bytes keys can come back with str keys or a str/bytes mix: keys are compared as bytes."""
    if v is None:
        return ("none",)
    if isinstance(v, bool) or isinstance(v, float):
        raise TypeError("not a bdecode result")
    if isinstance(v, int):
        return ("i", v)
    if isinstance(v, str):
        return ("b", v.encode())
    if isinstance(v, bytes):
        return ("b", v)
    if isinstance(v, list):
        return ("l", tuple(canon_decoded(x) for x in v))
    if isinstance(v, dict):
        return ("d", tuple(sorted((k.encode() if isinstance(k, str) else k, canon_decoded(x)) for k, x in v.items())))
    raise TypeError(type(v))


def show_dec(v):
    """bdecode result -> the driver's `dval` text (dict = Python dict view: sorted by key bytes)."""
    if v is None:
        return "N"
    if isinstance(v, bool):
        raise TypeError("bool from bdecode")
    if isinstance(v, int):
        return "i%d" % v
    if isinstance(v, str):
        return "b" + v.encode().hex()
    if isinstance(v, bytes):
        return "b" + v.hex()
    if isinstance(v, list):
        return "(L" + "".join(" " + show_dec(x) for x in v) + ")"
    if isinstance(v, dict):
        if not all(isinstance(k, (str, bytes)) for k in v):
            raise TypeError("non-string key from bdecode")
        items = sorted(((k.encode() if isinstance(k, str) else k, x) for k, x in v.items()), key=lambda kv: kv[0])
        return "(D" + "".join(" (b" + k.hex() + " " + show_dec(x) + ")" for k, x in items) + ")"
    raise TypeError(type(v))


def real_decode(bdecode, data):
    """`ok <dval> <unread>` or `!ErrorName` for bdecode on a BytesIO over `data`."""
    from io import BytesIO
    f = BytesIO(data)
    try:
        r = bdecode(f)
    except (TypeError, ValueError, AssertionError, OverflowError) as e:
        return "!" + type(e).__name__
    try:
        shown = show_dec(r)
    except TypeError:      # a result bdecode cannot produce on the unchanged tree (e.g. a non-string dict key)
        shown = "<unrenderable %s>" % rep(r)[:80].replace("\n", " ")
    return "ok %s %d" % (shown, len(data) - f.tell())


# ------------------------------------------------------------------ malformed byte streams for bdecode
MALFORMED_CORPUS = [
    b"", b"e", b"ee", b"l", b"d", b"i", b"le", b"de", b"lle", b"llle", b"lde", b"dle", b"li1e", b"l1:e", b"l1:a",
    b"d1:ae", b"d1:aee", b"d1:aeX", b"d1:a", b"d1:ai1e", b"d1:ai1ee", b"d1:ai1e1:a", b"x", b"-1:a", b":", b"1", b"1:", b"0:", b"00:",
    # ints: what int() takes and what it does not
    b"i0e", b"i-0e", b"i+0e", b"i03e", b"i-03e", b"i003e", b"i 3e", b"i3 e", b"i 3 e", b"i\t3\n\r\x0b\x0ce", b"i+3e", b"i++3e",
    b"i+-3e", b"i- 3e", b"i-e", b"i+e", b"ie", b"i e", b"i1_0e", b"i1__0e", b"i_1e", b"i1_e", b"i1_ e", b"i-_1e", b"i1_0_0e",
    b"i0x10e", b"i1.0e", b"i1\x00e", b"i\x001e", b"i\xef\xbc\x91e", b"i\xd9\xa1e", b"i1", b"i1x", b"i", b"i12", b"i-",
    b"i1ei2e", b"i1ee", b"i9223372036854775808e", b"i-9223372036854775809e", b"i" + b"9" * 400 + b"e", b"i" + b"0" * 300 + b"7e",
    # strings: length prefix
    b"03:abc", b"3:ab", b"3:abc", b"3:abcd", b"1_0:abcdefghijk", b"1 :a", b"1\n:a", b"1+:a", b"1-:a", b"1e:a", b"1a:a", b"12", b"1e",
    b"9223372036854775807:a", b"9223372036854775808:a", b"99999999999999999999999:a", b"18446744073709551616:", b"4294967296:ab",
    b"2147483648:ab", b"0" * 50 + b"2:ab", b"1:\xff", b"2:\xc3\xa9", b"2:\xc3\x28", b"3:\xed\xa0\x80", b"1:e", b"1::", b"0:e", b"0:0:",
    # wrong terminators / truncation of containers
    b"li1e", b"li1ee", b"li1eee", b"li1", b"li1e:", b"li1ex", b"l1:ae", b"l1:a", b"lli1ee", b"lli1e", b"ll", b"ld", b"lde", b"ldee",
    b"ldle", b"d1:ale", b"d1:alee", b"d1:adee", b"d1:ade", b"d1:a1:b", b"d1:a1:be", b"d1:a1:b1:c", b"d1:a1:b1:ce", b"d1:a1:b1:cee",
    # dict keys: non-string, unsorted, duplicate, str/bytes mix, None values
    b"di1ei2ee", b"dlei1ee", b"ddei1ee", b"dei1e", b"d1:bi1e1:ai2ee", b"d1:ai1e1:ai2ee", b"d1:ai1e1:bi2e1:ai3ee",
    b"d1:ad1:bi1e1:bi2eee", b"d1:\xffi1e2:\xc3\xa9i2ee", b"d1:\xffi1e1:\xffi2ee", b"d0:i1e0:i2ee", b"d1:ae1:bi1ee", b"d1:ai1e1:bee",
    b"d1:ai1e1:be", b"d1:ad1:bee", b"d1:ali1eee", b"ld1:aee", b"ld1:ae",
    # nested garbage
    b"l" * 40 + b"e" * 40, b"l" * 40 + b"e", b"l" * 40, b"l" * 40 + b"e" * 41, b"d1:a" * 20 + b"e" * 20, b"d1:a" * 20 + b"e",
    b"ld1:ald1:ali1eeeeee", b"ld1:ald1:ali1eeeee", b"ld1:ald1:ali1eeee", b"lxe", b"l e", b"l\ne", b"d e", b"i1e\n", b"le\n", b" le",
    b"\xffle", b"\x00", b"l\x00e", b"L", b"D", b"I1e", b"E",
    # the digit cap of int(): 4300 digit characters pass, 4301 do not (leading zeros count; sign, underscores, blanks do not)
    b"i" + b"1" * 4300 + b"e", b"i" + b"1" * 4301 + b"e", b"i-" + b"9" * 4300 + b"e", b"i-" + b"9" * 4301 + b"e",
    b"i" + b"0" * 4301 + b"e", b"i" + b"0" * 4299 + b"7e", b"i " + b"1_" * 4299 + b"1 e", b"i" + b"1_" * 4300 + b"1e",
    b"li1e" + b"i" + b"1" * 4301 + b"ee", b"0" * 4300 + b"1:a", b"0" * 4299 + b"1:a", b"0" * 4301 + b":",
]


def _benc_items(items):
    """encode a dict body from an item list as given (no sorting, duplicates kept) -- not an encoding of anything."""
    out = b"d"
    for k, v in items:
        out += str(len(k)).encode() + b":" + k + v
    return out + b"e"


def gen_malformed(rng, bencode):
    """One malformed (or accidentally well-formed) byte string."""
    k = rng.random()
    alphabet = b"ilde0123456789:-_ +\n\xffa"
    if k < 0.45:
        # mutate a real encoding
        b = bytearray(bencode(gen_val(rng, rng.choice([1, 2, 2, 3]), bad=False, big=False)))
        for _ in range(rng.choice([1, 1, 1, 2, 3])):
            m = rng.random()
            pos = rng.randrange(len(b) + 1)
            if m < 0.3:
                del b[pos:]                                     # truncate
            elif m < 0.45 and b:
                del b[min(pos, len(b) - 1)]                     # drop a byte
            elif m < 0.65:
                b.insert(pos, rng.choice(alphabet))             # insert
            elif m < 0.8 and b:
                b[min(pos, len(b) - 1)] = rng.choice(alphabet)  # replace
            elif m < 0.9:
                b += bytes(rng.choice(alphabet) for _ in range(rng.randrange(1, 4)))   # trailing bytes
            else:
                q = rng.randrange(len(b) + 1)
                lo, hi = min(pos, q), max(pos, q)
                b[lo:lo] = b[lo:hi]                             # duplicate a slice
        return bytes(b)
    if k < 0.6:
        # int literal between i and e (the harness explores what int() takes)
        n = rng.randrange(0, 7)
        return b"i" + bytes(rng.choice(b"0123459 \t-+__\n\x00x") for _ in range(n)) + rng.choice([b"e", b"e", b"e", b"", b"ee"])
    if k < 0.72:
        # length prefix
        pre = rng.choice([b"0", b"00", b"1", b"2", b"3", b"03", b"1_0", b"1 ", b"1__0", b"1_", b"10", b"9223372036854775807",
                          b"9223372036854775808", b"%d" % rng.randrange(0, 12), b"%d" % (10 ** rng.randrange(1, 30))])
        body = bytes(rng.choice(b"abe:\xff1") for _ in range(rng.randrange(0, 12)))
        return pre + rng.choice([b":", b":", b":", b"", b"e", b"::"]) + body
    if k < 0.84:
        # dicts with unsorted / duplicate / non-string keys and None values
        items = []
        for _ in range(rng.randrange(0, 5)):
            key = rng.choice([b"a", b"b", b"ab", b"", b"\xff", b"\xc3\xa9", b"a", b"b"])
            val = rng.choice([b"i1e", b"i2e", b"1:x", b"le", b"de", b"d1:ai1ee", b"li1ee", b"", b"e"])
            items.append((key, val))
        b = _benc_items(items)
        if rng.random() < 0.2:
            b = b[:-1]
        if rng.random() < 0.15:
            b = b[:1] + rng.choice([b"i1e", b"le", b"de"]) + b[1:]     # non-string key first
        return rng.choice([b"", b"", b"l", b"d1:k"]) + b + rng.choice([b"", b"", b"e", b"ee"])
    # token soup
    toks = [b"i", b"l", b"d", b"e", b"e", b"1:a", b"0:", b"i1e", b"i-1e", b"le", b"de", b":", b"-", b"0", b"2:ab", b"2:a", b"x", b" ", b"_",
            b"\xff", b"1", b"9"]
    return b"".join(rng.choice(toks) for _ in range(rng.randrange(0, 10)))


def trivial(v):
    return isinstance(v, (int, str, bytes)) and not isinstance(v, bool)


def int_literals(rng, exhaustive_len):
    """every string over a small alphabet up to a length (the int() grammar), as `i<s>e`"""
    import itertools
    alpha = [b"0", b"1", b"7", b" ", b"-", b"+", b"_", b"\n", b"x"]
    out = []
    for n in range(exhaustive_len + 1):
        for t in itertools.product(alpha, repeat=n):
            out.append(b"i" + b"".join(t) + b"e")
    return out


def run(ctx):
    from redun.bcoding import bdecode, bencode
    rng = ctx.rng
    cases = []
    # corpus first: boundary shifts and look-alikes
    corpus = [
        ["ab", "c"], ["a", "bc"], ["abc"], [["a"], "bc"], [["a", "bc"]], ["a", ["bc"]],
        {"a": 1, "b": 2}, {"b": 2, "a": 1}, {"a": {"b": 2}}, {"a": [1, 2]}, [{"a": 1}, {"a": 1}],
        "i1e", 1, [1], [[1]], [], {}, [[]], [{}], "", b"", [""], "le", "de", "0:", -0, -1, "-1",
        {"é": 1, "z": 2}, {"日": 1, "é": 2, "a": 3}, {b"a": 1}, {"a": 1},
        True, [True], {"a": None}, {"a": 1.0}, {1: 2}, {"a": 1, b"b": 2}, {(1, 2): 3}, [1, [2, [3, [False]]]],
        10 ** 40, -(10 ** 40), "1:a1:b", ["1:a", "1:b"],
        # bytes keys that bdecode gives back as a str/bytes mix; keys that are prefixes of each other
        {b"\xff": 1, b"a": 2}, {b"\xff": 1, b"\xfe": 2, b"": 3}, {"a": 1, "aa": 2, "": 3, "a\x00": 4}, {"b": 1, "a": {"d": 1, "c": 2}},
        {"\U0001f600": 1, "\uffff": 2}, 0, -7, 10 ** 18, 2 ** 63, -(2 ** 63) - 1, "x" * 300, [[[[[[[[]]]]]]]],
    ]
    # ints at and beyond the str() digit cap, bare and nested; (n, m) with hex digits of n = decimal digits of m
    corpus += BIG_INTS
    corpus += [[CAP_POW], [1, [CAP_POW - 1]], {"a": -CAP_POW}, {"a": [1, {"b": 16 ** 3600}]}, (CAP_POW - 1, CAP_POW), {"k": CAP_POW - 1},
               [True, CAP_POW], [CAP_POW, True], {"a": CAP_POW, "b": None}, {1: CAP_POW}]   # last four: both causes, class not compared
    for n, m in digit_twins(rng):
        corpus += [n, m, -n, -m, [n], [m], {"a": n}, {"a": m}, ["x", n, "y"], ["x", m, "y"]]
    cases.extend(corpus)
    for i in range(ctx.n(3000, 40000)):
        cases.append(gen_val(rng, rng.choice([1, 2, 2, 3, 4]), bad=(i % 4 == 0)))
    reqs = ["enc " + to_sx(v) for v in cases]
    model_out = ctx.model("C14", reqs)
    table = {}
    encodings = []
    for v, mo in zip(cases, model_out):
        try:
            b = bencode(v)
            impl = b.hex()
        except (TypeError, ValueError) as e:
            b = None
            impl = "!" + type(e).__name__
        try:
            c = canon(v)
        except TypeError:
            c = None
        big = over_cap(v)
        ctx.case(key=None if trivial(v) and not big else (c if c is not None else ("rej", rep(v))),
                 sample={"value": rep(v)[:120], "bencode": impl[:80]},
                 kind=type(v).__name__, outcome="rejected" if b is None else "encoded",
                 int_cap="beyond" if big else "within")
        if c is None and big:
            # a TypeError cause and an over-cap int: which exception comes first depends on the writing order, the model
            # answers TypeError; only rejected-vs-accepted is compared
            if mo.startswith("!") != impl.startswith("!"):
                ctx.mismatch("bencode accepts what the model rejects (or the reverse)", case=rep(v), model=mo[:200], impl=impl[:200])
        elif mo != impl:
            ctx.mismatch("bencode bytes / exception class differ from the model (encodeE)", case=rep(v), model=mo[:400], impl=impl[:400])
        # --- property oracle on the implementation
        if c is None:
            if b is not None:
                ctx.violation("C14-accepts-unencodable", "bencode accepted a bool/None/float/non-string-keyed value",
                              case=rep(v), expected="TypeError", actual=impl[:200])
            continue
        if b is None:
            if not big:      # an int beyond the str() cap is not encodable on this Python: rejecting it is what the property allows
                ctx.violation("C14-rejects-encodable", "bencode rejected an encodable structure", case=rep(v),
                              expected="bytes", actual=impl)
            continue
        encodings.append((b, c))
        prev = table.setdefault(b, (c, v))
        if prev[0] != c:
            ctx.violation("C14-collision", "two different structures have the same encoding",
                          case={"a": rep(prev[1])[:6000], "b": rep(v)[:6000]}, expected="different bytes", actual=impl[:400])
        try:
            back = canon_decoded(bdecode(b))
        except Exception as e:  # noqa: BLE001
            back = "!" + type(e).__name__
        if back != c:
            ctx.violation("C14-decode-roundtrip", "bdecode(bencode(x)) is not x (up to str/bytes, list/tuple)",
                          case=rep(v)[:6000], expected=rep(c)[:300], actual=rep(back)[:300])
    # key-order oracle: permuting insertion order never changes the bytes
    for i in range(ctx.n(300, 3000)):
        d = gen_val(rng, 2, bad=False)
        if not isinstance(d, dict) or len(d) < 2:
            continue
        items = list(d.items())
        rng.shuffle(items)
        d2 = dict(items)
        ctx.case(key=("perm", repr(sorted(map(rep, d.items())))), order="permuted-dict")
        try:
            e1, e2 = bencode(d), bencode(d2)
        except ValueError:      # an int beyond the str() cap inside: rejected in either order
            continue
        if e1 != e2:
            ctx.violation("C14-key-order", "dict insertion order changes the encoding", case={"a": rep(d), "b": rep(d2)},
                          expected="equal bytes", actual="different")

    # ---------------------------------------------------------------- decoder: model `decode` vs real `bdecode`
    # (a) real encodings, alone and followed by other bytes (`dec_enc` with a rest);
    # (b) malformed bytes.  The property says nothing about (b): only the correspondence is checked there.
    dec_inputs = []
    seen = set()
    for b, c in encodings:
        if b in seen:
            continue
        seen.add(b)
        dec_inputs.append(("encoding", b, c, len(b)))
        if rng.random() < 0.3:
            rest = rng.choice([b"e", b"i1e", b"0:", b"x", b"\xff", b"le", b"ee", bytes(rng.randrange(256) for _ in range(3))])
            dec_inputs.append(("encoding+rest", b + rest, c, len(b)))
    malformed = list(MALFORMED_CORPUS)
    malformed += int_literals(rng, 3 if ctx.tier == "quick" else 4)
    for _ in range(ctx.n(2500, 30000)):
        malformed.append(gen_malformed(rng, bencode))
    for b in malformed:
        dec_inputs.append(("malformed", b, None, None))
    dec_out = ctx.model("C14", [("dec " + b.hex()).rstrip() for _, b, _, _ in dec_inputs])
    seen_mal = set()
    for (kind, b, c, enc_len), mo in zip(dec_inputs, dec_out):
        impl = real_decode(bdecode, b)
        if kind == "malformed":
            ctx.case(key=None if b in seen_mal or len(b) < 2 else ("dec", b), sample=None, dec_input="malformed",
                     dec_outcome=impl.split(" ")[0])
            seen_mal.add(b)
        if mo != impl:
            ctx.mismatch("bdecode differs from model decode (value, error class or unread byte count)",
                         case={"kind": kind, "bytes": b.hex()}, model=mo[:300], impl=impl[:300])
        if kind != "malformed":
            # property oracle: an encoding decodes to the structure it encodes and stops exactly at its end
            from io import BytesIO
            f = BytesIO(b)
            try:
                back = canon_decoded(bdecode(f))
                used = f.tell()
            except Exception as e:  # noqa: BLE001
                back, used = "!" + type(e).__name__, None
            if back != c or used != enc_len:
                ctx.violation("C14-decode-roundtrip", "bdecode of an encoding (followed by other bytes) does not return the "
                              "encoded structure or reads past its end", case={"bytes": b.hex(), "kind": kind},
                              expected=(rep(c)[:200], enc_len), actual=(rep(back)[:200], used))


def replay(ctx, case):
    from redun.bcoding import bencode
    print("replay case:", case.get("case"))
    run(ctx)
