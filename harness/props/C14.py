"""C14 — the canonical structure encoding (bencode) is injective, key-order independent, decodable,
and rejects bools/None/floats.  Model: lean/RedunModel/Model/BStruct.lean."""
from core import Raw, sx

ID = "C14"
READY = True
LEAN_MODULES = ["RedunModel.Props.C14"]
LEAN_DRIVERS = ["C14"]
THEOREMS = [
    "RedunModel.C14.enc_unique_parse",
    "RedunModel.C14.enc_injective",
    "RedunModel.C14.enc_prefix_free",
    "RedunModel.C14.encList_injective",
    "RedunModel.C14.enc_norm_eq_iff",
    "RedunModel.C14.norm_str_bytes",
    "RedunModel.C14.norm_list_tuple",
    "RedunModel.C14.rejects_bool",
    "RedunModel.C14.rejects_none",
    "RedunModel.C14.rejects_float",
    "RedunModel.C14.rejects_in_list",
    "RedunModel.C14.rejects_nonstring_key",
]
TRUSTED = [
    "modelled, not verified: Python int->decimal text (str(int)), str.encode() (UTF-8), sorted() on dict items "
    "(stable total-order sort; code-point order of str keys = byte order of their UTF-8), BytesIO",
    "SHA-512/160 collision freedom is outside the claim: the theorems are about the bytes fed to the hash",
]
ASSUMPTIONS = ["values are finite and acyclic; no lone surrogates in str (encode() would raise UnicodeEncodeError)"]
RULE = ("structures generated from one PRNG over int/str/bytes/list/tuple/dict(str or bytes keys) plus a malformed stream "
        "(bool/None/float leaves, int/tuple/mixed keys) and adversarial boundary-shift pairs; every case is encoded by the real "
        "bencode and by the Lean model (byte-exact comparison), decoded back by the real bdecode, and entered into a table "
        "encoding->canonical form to look for collisions. distinct = distinct canonical forms; non-trivial = container or "
        "rejected value (a bare int/str is trivial)")


# ------------------------------------------------------------------ generator
def gen_scalar(rng):
    k = rng.random()
    if k < 0.3:
        return rng.choice([0, 1, -1, 9, 10, -10, 99, 100, 255, 256, -256, 10 ** 20, -(10 ** 20) - 7, rng.randrange(-10 ** 6, 10 ** 6)])
    if k < 0.65:
        return rng.choice(["", "a", "ab", "abc", "e", "i1e", "1:a", "l", "d", "le", "é", "日本", "\x00", "0", "10:", ":",
                           "".join(rng.choice("ab:eild019\u00e9") for _ in range(rng.randrange(0, 12)))])
    return rng.choice([b"", b"a", b"ab", b"\xff", b"\xc3\xa9", b"\x00\x01", b"e", b"1:a",
                       bytes(rng.randrange(256) for _ in range(rng.randrange(0, 6)))])


def gen_bad(rng):
    return rng.choice([True, False, None, 1.5, 0.0])


def gen_val(rng, depth, bad):
    k = rng.random()
    if depth <= 0 or k < 0.3:
        if bad and rng.random() < 0.25:
            return gen_bad(rng)
        return gen_scalar(rng)
    n = rng.choice([0, 1, 1, 2, 2, 3, 4])
    if k < 0.55:
        return [gen_val(rng, depth - 1, bad) for _ in range(n)]
    if k < 0.7:
        return tuple(gen_val(rng, depth - 1, bad) for _ in range(n))
    d = {}
    bytes_keys = rng.random() < 0.25
    for _ in range(n):
        key = rng.choice(["", "a", "b", "ab", "aa", "ba", "é", "z", "a\x00", "日", "k%d" % rng.randrange(20)])
        if bytes_keys:
            key = key.encode()
        if bad and rng.random() < 0.12:
            key = rng.choice([1, (1, 2), None, key.encode() if isinstance(key, str) else key.decode()])
        d[key] = gen_val(rng, depth - 1, bad)
    if rng.random() < 0.5:      # shuffle insertion order
        items = list(d.items())
        rng.shuffle(items)
        d = dict(items)
    return d


def to_sx(v):
    if isinstance(v, bool) or v is None:
        return sx(v)
    if isinstance(v, float):
        return "f"
    if isinstance(v, (int, str, bytes)):
        return sx(v)
    if isinstance(v, list):
        return "(L " + " ".join(to_sx(x) for x in v) + ")"
    if isinstance(v, tuple):
        return "(U " + " ".join(to_sx(x) for x in v) + ")"
    if isinstance(v, dict):
        return "(D " + " ".join("(" + (sx(k) if isinstance(k, (str, bytes)) else "X") + " " + to_sx(x) + ")" for k, x in v.items()) + ")"
    raise TypeError(type(v))


def canon(v):
    """Canonical form up to the equivalences the property allows: str~utf-8 bytes, list~tuple, key order."""
    if isinstance(v, bool) or v is None or isinstance(v, float):
        raise TypeError("not encodable")
    if isinstance(v, int):
        return ("i", v)
    if isinstance(v, str):
        return ("b", v.encode())
    if isinstance(v, bytes):
        return ("b", v)
    if isinstance(v, (list, tuple)):
        return ("l", tuple(canon(x) for x in v))
    if isinstance(v, dict):
        kinds = {type(k) for k in v}
        if len(kinds) > 1 or (kinds and not kinds <= {str, bytes}):
            raise TypeError("bad keys")
        return ("d", tuple(sorted((k.encode() if isinstance(k, str) else k, canon(x)) for k, x in v.items())))
    raise TypeError(type(v))


def canon_decoded(v):
    """bdecode returns str when the bytes are valid UTF-8 else bytes; lists; dicts."""
    return canon(v)


def trivial(v):
    return isinstance(v, (int, str, bytes)) and not isinstance(v, bool)


def run(ctx):
    from redun.bcoding import bdecode, bencode
    rng = ctx.rng
    cases = []
    # corpus first: boundary shifts and look-alikes
    corpus = [
        ["ab", "c"], ["a", "bc"], ["abc"], [["a"], "bc"], [["a", "bc"]], ["a", ["bc"]],
        {"a": 1, "b": 2}, {"b": 2, "a": 1}, {"a": {"b": 2}}, {"a": [1, 2]}, [{"a": 1}, {"a": 1}],
        "i1e", 1, [1], [[1]], [], {}, [[]], [{}], "", b"", [""], "le", "de", "0:", -0, -1, "-1",
        {"é": 1, "z": 2}, {"日": 1, "é": 2, "a": 3}, {b"a": 1}, {"a": 1},
        True, [True], {"a": None}, {"a": 1.0}, {1: 2}, {"a": 1, b"b": 2}, {(1, 2): 3}, [1, [2, [3, [False]]]],
        10 ** 40, -(10 ** 40), "1:a1:b", ["1:a", "1:b"],
    ]
    cases.extend(corpus)
    for i in range(ctx.n(3000, 40000)):
        cases.append(gen_val(rng, rng.choice([1, 2, 2, 3, 4]), bad=(i % 4 == 0)))
    reqs = ["enc " + to_sx(v) for v in cases]
    model_out = ctx.model("C14", reqs)
    table = {}
    for v, mo in zip(cases, model_out):
        try:
            b = bencode(v)
            impl = b.hex()
        except TypeError:
            b = None
            impl = "!TypeError"
        try:
            c = canon(v)
        except TypeError:
            c = None
        ctx.case(key=None if trivial(v) else (c if c is not None else ("rej", repr(v))),
                 sample={"value": repr(v)[:120], "bencode": impl[:80]},
                 kind=type(v).__name__, outcome="rejected" if b is None else "encoded")
        if mo != impl:
            ctx.mismatch("bencode bytes differ from model enc∘norm", case=repr(v), model=mo, impl=impl)
        # --- property oracle on the implementation
        if c is None:
            if b is not None:
                ctx.violation("C14-accepts-unencodable", "bencode accepted a bool/None/float/non-string-keyed value",
                              case=repr(v), expected="TypeError", actual=impl)
            continue
        if b is None:
            ctx.violation("C14-rejects-encodable", "bencode rejected an encodable structure", case=repr(v),
                          expected="bytes", actual="TypeError")
            continue
        prev = table.setdefault(b, (c, v))
        if prev[0] != c:
            ctx.violation("C14-collision", "two different structures have the same encoding",
                          case={"a": repr(prev[1]), "b": repr(v)}, expected="different bytes", actual=impl)
        try:
            back = canon_decoded(bdecode(b))
        except Exception as e:  # noqa: BLE001
            back = "!" + type(e).__name__
        if back != c:
            ctx.violation("C14-decode-roundtrip", "bdecode(bencode(x)) is not x (up to str/bytes, list/tuple)",
                          case=repr(v), expected=repr(c)[:300], actual=repr(back)[:300])
    # key-order oracle: permuting insertion order never changes the bytes
    for i in range(ctx.n(300, 3000)):
        d = gen_val(rng, 2, bad=False)
        if not isinstance(d, dict) or len(d) < 2:
            continue
        items = list(d.items())
        rng.shuffle(items)
        d2 = dict(items)
        ctx.case(key=("perm", repr(sorted(map(repr, d.items())))), order="permuted-dict")
        if bencode(d) != bencode(d2):
            ctx.violation("C14-key-order", "dict insertion order changes the encoding", case={"a": repr(d), "b": repr(d2)},
                          expected="equal bytes", actual="different")


def replay(ctx, case):
    from redun.bcoding import bencode
    print("replay case:", case.get("case"))
    run(ctx)
