"""C25 — handle lineage and rollback follow the state model; an invalidated handle state is never replayed from the cache.
Model: lean/RedunModel/Model/Handles.lean; theorems: lean/RedunModel/Props/C25.lean."""
import json
import logging
import os
import pickle

from core import Infra, unsx

ID = "C25"
READY = True
LEAN_MODULES = ["RedunModel.Props.C25"]
LEAN_DRIVERS = ["C25"]
# Which variant of the backend the model mirrors: True = the code repaired by findings_proposed/C25-*.fix.diff
# (rollback follows every same-name edge; skipped fork edges are recorded), False = the code as it was.
FIXED = os.environ.get("VERIF_C25_VARIANT", "fixed") == "fixed"
THEOREMS = [
    "RedunModel.C25.run_total",
    "RedunModel.C25.matches_spec",
    "RedunModel.C25.rollback_invalidates_descendants",
    "RedunModel.C25.rederive_revalidates",
    "RedunModel.C25.unrecorded_invalid",
    "RedunModel.C25.current_matches_spec_partial",
    "RedunModel.C25.current_refuted_raw",
    "RedunModel.C25.current_refuted_fork_edge",
    "RedunModel.C25.sched_preserves_closed",
    "RedunModel.C25.chain_no_stale_replay",
    "RedunModel.C25.task_start_rollback_durable",
    "RedunModel.C25.task_start_all_arguments_rolled_back",
    "RedunModel.C25.crash_no_stale_replay",
    "RedunModel.C25.late_rollback_refuted",
]
TRUSTED = [
    "modelled, not verified: HandleInfo.get_hash is a perfect hash (a handle state is its hash; the harness renames digests to "
    "first-occurrence indices and never compares digests); a hash determines the fullname",
    "modelled, not verified: sqlite/SQLAlchemy row visibility inside the backend's single session (rollback_handle does not commit); "
    "the order of rows returned by the join in rollback_handle (only the set of invalidated states is compared)",
    "the `is_recorded` flag and `fork_parent` pointer of the handle *objects* are inputs of the model's advance (read off the real "
    "objects by the harness immediately before each call), not state of the model",
    "the chain-workflow model covers one handle passed through a chain of tasks evaluated at top level (fork key '0'); the evaluation "
    "cache is modelled as the set of (task hash, argument state) keys seen, CSE/limits/executors are not modelled",
]
ASSUMPTIONS = [
    "all handles of one advance_handle call (parents, their fork ancestors, child) have the same fullname "
    "(merge_handles asserts it; fork/apply_call preserve it)",
    "raw histories are built from real Handle objects by fork / apply_call / pickling, never from hand-made hashes",
    "workflow histories: tasks pass the handle through (`return h`), results contain exactly one handle; task edits are version changes",
    "parallel writers: each task call receives its own fork of the shared state, so (docs/source/values.md) editing one writer must "
    "re-execute that writer and the writers downstream of a merge with it, and no sibling",
    "fan-in tasks (join) receive several states of one handle name as separate arguments or inside one dict/list argument; for the "
    "container form only stale replays are judged (its cache key is pickle-based and not stable across executions, C16)",
    "external system semantics used by the end-to-end oracle: a task's write replaces the content at its depth and makes deeper content "
    "stale; the oracle only demands that after a run every depth holds what the requested chain says (never how many tasks ran)",
]
RULE = ("(a) raw histories of advance_handle (single parent, merged parents, forks, unrecorded fork chains, re-derivation with fresh or "
        "unpickled objects) and rollback_handle over 1-2 handle names on a real in-memory backend; after every call the handle/"
        "handle_edge tables and is_valid_handle of every state seen are compared with the Lean model and with the reference lineage "
        "model; (b) chain workflows t_n(...t_1(Handle)) run through the real Scheduler for up to 6 executions with task versions edited "
        "and reverted: tasks run, validity of the result, table sizes vs the Lean chain model; external-system oracle; every backend "
        "call is spied and replayed on the raw model/reference; (c) workflows with an explicit h.fork() inside a task and with parallel "
        "writers on one handle state (2 writers + merge_handles + one more writer as in docs/source/values.md; 3 writers without merge), one "
        "branch edited / reverted / re-run unchanged: spied backend calls vs raw model, every is_valid_handle answer vs reference, and for "
        "the parallel writers the docs' rule: exactly the edited writer (and the writer after the merge) re-executes, every returned "
        "handle is valid, an unchanged re-run executes nothing; the same rule for an ordinary fan-in task join(a, b) / join({x: [a, b], "
        "y: {z: d}}) that receives several states of ONE handle name and returns one of them, followed by a consumer, with join edited "
        "and reverted. "
        "(d) chain executions on a sqlite FILE repository with tasks inline on the scheduler thread, 1-2 executions per history killed right "
        "after a chosen task started writing (the database file as it is at that instant is what the next execution opens), then edits / "
        "reverts: at every task entry a fresh connection must see every state rolled back for that task invalid; external-system oracle "
        "across the deaths; durable table sizes and tasks run vs the Lean crash model. "
        "distinct = distinct histories; non-trivial = at least 2 backend calls / 2 executions")
LEVEL_TEXT = ("Full strength on the model of the repaired backend: for every history of advances (any parents, fork chains) and rollbacks "
              "the descendant search ends (run_total) and a state is valid exactly when the reference lineage model says so "
              "(matches_spec; rollback_invalidates_descendants, rederive_revalidates, unrecorded_invalid are its readable corollaries). "
              "For the backend as it was: current_refuted_raw and current_refuted_fork_edge are closed counter-examples, "
              "current_matches_spec_partial proves its rollback agrees with the repaired one on every ancestor-closed state, and "
              "sched_preserves_closed that scheduler-driven chain histories only produce such states. "
              "chain_no_stale_replay: for every sequence of chain workflows (any edits/reverts), after each execution the external system "
              "holds exactly the requested chain — no invalidated state is replayed — for both variants. Durability: rollback_handle does "
              "not commit; task_start_rollback_durable proves that in the code's order (_perform_rollbacks before record_job_start) nothing is "
              "pending when the task function is entered, crash_no_stale_replay extends chain_no_stale_replay to histories in which "
              "executions are killed right after a task started writing, late_rollback_refuted is the closed counter-example for the order "
              "in which the rollback follows record_job_start.")
LEVEL_NOTE = ("FIXED=True: the model compared with /repo is the backend repaired by harness/findings_proposed/C25-handles.fix.diff (both "
              "former failing histories are corpus cases that must now pass); the unrepaired variant stays in the model (fixed=false) for "
              "the refutation witnesses and the partial theorem. Not modelled: concurrent sessions, commit points (rollback_handle leaves its "
              "UPDATE uncommitted), handles nested in containers, class_name mismatch after deserialisation (Handle.is_valid), CSE hits "
              "(which skip the validity check inside one execution), ultimate-reduction hits of an enclosing task.")
TECHNIQUE = "Lean 4 proof (DFS = descendants, refinement of the reference lineage model, chain-workflow invariant) + differential runs on the real backend and Scheduler"

NAMES = ["h", "g"]
FKEYS = ["a", "b"]
CALLS = ["c1", "c2", "c3"]


def hx(s):
    return "s" + s.encode().hex()


# ------------------------------------------------------------------ real side
_env = {}


def env():
    """one real in-memory repository per process"""
    if _env:
        return _env
    import redun.backends.db as dbm
    from redun import Handle, Scheduler
    logging.getLogger("redun").setLevel(logging.CRITICAL)

    class C25Handle(Handle):
        def __init__(self, name, *args, **kwargs):
            pass
    C25Handle.__module__ = __name__
    C25Handle.__qualname__ = "C25Handle"
    globals()["C25Handle"] = C25Handle
    s = Scheduler()
    s.load()
    s.logger.setLevel(logging.CRITICAL)
    _env.update(dbm=dbm, scheduler=s, backend=s.backend, H=C25Handle)
    return _env


def wipe():
    e = env()
    ses = e["backend"].session
    ses.rollback()
    ses.query(e["dbm"].HandleEdge).delete()
    ses.query(e["dbm"].Handle).delete()
    ses.commit()
    ses.expire_all()


class Ids:
    """digest -> first-occurrence index"""
    def __init__(self):
        self.m = {}
        self.names = {}

    def of(self, h):
        hh = h.__handle__.hash
        if hh not in self.m:
            self.m[hh] = len(self.m)
            self.names[self.m[hh]] = h.__handle__.fullname
        return self.m[hh]


def chain_of(h):
    out, x = [], h.__handle__.fork_parent
    while x is not None:
        out.append(x)
        x = x.__handle__.fork_parent
    return out


def describe_advance(ids, parents, child):
    """the model request and the reference op for advance_handle(parents, child), read off the objects before the call"""
    ps = []
    for p in parents:
        ps.append({"h": ids.of(p), "name": p.__handle__.fullname, "rec": bool(p.__handle__.is_recorded),
                   "chain": [(ids.of(c), c.__handle__.fullname) for c in chain_of(p)]})
    return {"op": "adv", "parents": ps, "child": (ids.of(child), child.__handle__.fullname)}


def op_line(op):
    if op["op"] == "adv":
        ps = " ".join("(i%d %s %s %s)" % (p["h"], hx(p["name"]), "T" if p["rec"] else "F",
                                          " ".join("i%d %s" % (c, hx(n)) for c, n in p["chain"])) for p in op["parents"])
        return "(adv (%s) (i%d %s))" % (ps, op["child"][0], hx(op["child"][1]))
    return "(rb i%d %s)" % (op["h"][0], hx(op["h"][1]))


class Ref:
    """the reference lineage model: valid set + derivation edges"""
    def __init__(self):
        self.valid = set()
        self.edges = set()

    def apply(self, op):
        if op["op"] == "adv":
            c = op["child"][0]
            self.valid.add(c)
            for p in op["parents"]:
                self.valid.add(p["h"])
                self.edges.add((p["h"], c))
                if not p["rec"] and p["chain"]:
                    prev = p["h"]
                    for a, _ in p["chain"]:
                        self.valid.add(a)
                        self.edges.add((a, prev))
                        prev = a
        else:
            self.valid -= self.desc(op["h"][0])

    def desc(self, h, edges=None):
        edges = self.edges if edges is None else edges
        succ = {}
        for a, b in edges:
            succ.setdefault(a, []).append(b)
        seen, stack = set(), list(succ.get(h, ()))
        while stack:
            x = stack.pop()
            if x not in seen:
                seen.add(x)
                stack.extend(succ.get(x, ()))
        return seen


def tables(ids):
    e = env()
    ses = e["backend"].session
    rows = {}
    for r in ses.query(e["dbm"].Handle).all():
        if r.hash not in ids.m:
            raise Infra("handle row with a hash the harness never saw: %r" % r)
        rows[ids.m[r.hash]] = (r.fullname, bool(r.is_valid))
    edges = set()
    for x in ses.query(e["dbm"].HandleEdge).all():
        edges.add((ids.m[x.parent_id], ids.m[x.child_id]))
    return rows, edges


def parse_tables(reply):
    if reply.startswith("!") or reply.startswith("bad-"):
        return reply
    x = unsx(reply)
    rows = {r[0]: (r[1], bool(r[2])) for r in x[0][1:]}
    edges = {(p, c) for p, c in x[1][1:]}
    return rows, edges


def classify(ref, db_edges, bad, last_op):
    """structural signature of a validity disagreement between the real backend and the reference"""
    stale = [x for x, (impl, spec) in bad.items() if impl and not spec]
    if stale and last_op["op"] == "rb":
        h = last_op["h"][0]
        if all(x in ref.desc(h, db_edges) for x in stale):
            return "C25-rollback-does-not-pass-invalid-state"
        if all(x in ref.desc(h) for x in stale):
            return "C25-fork-edge-of-unrecorded-fork-not-recorded"
    if stale:
        return "C25-state-valid-but-derived-from-rolled-back-state"
    return "C25-state-invalid-but-reference-valid"


class Session:
    """one history on the real backend: logs every backend call as a model request, observes tables and validity"""
    def __init__(self, ctx, label):
        self.ctx = ctx
        self.label = label
        self.ids = Ids()
        self.ops = []          # reference ops / model lines
        self.obs = []          # per op: (rows, edges, {idx: bool(is_valid_handle)})
        self.seen = {}         # idx -> a handle object with that hash
        self.backend = env()["backend"]
        self._orig = {}
        wipe()

    def note(self, h):
        for x in [h] + chain_of(h):
            self.seen.setdefault(self.ids.of(x), x)

    def observe(self):
        rows, edges = tables(self.ids)
        is_valid = self._orig.get("is_valid_handle", self.backend.is_valid_handle)
        val = {i: bool(is_valid(h)) for i, h in sorted(self.seen.items())}
        self.obs.append((rows, edges, val))

    def advance(self, parents, child, _call=None):
        for h in list(parents) + [child]:
            self.note(h)
        self.ops.append(describe_advance(self.ids, parents, child))
        (_call or self.backend.advance_handle)(parents, child)
        self.observe()

    def rollback(self, h, _call=None):
        self.note(h)
        self.ops.append({"op": "rb", "h": (self.ids.of(h), h.__handle__.fullname)})
        (_call or self.backend.rollback_handle)(h)
        self.observe()

    # -------- spying on a backend driven by the Scheduler
    def spy(self):
        b = self.backend
        self._orig = {"advance_handle": b.advance_handle, "rollback_handle": b.rollback_handle, "is_valid_handle": b.is_valid_handle}
        self.answers = []      # (number of ops so far, idx, answer)
        b.advance_handle = lambda parents, child: self.advance(list(parents), child, _call=self._orig["advance_handle"])
        b.rollback_handle = lambda h: self.rollback(h, _call=self._orig["rollback_handle"])

        def is_valid(h):
            self.note(h)
            a = self._orig["is_valid_handle"](h)
            self.answers.append((len(self.ops), self.ids.of(h), bool(a)))
            return a
        b.is_valid_handle = is_valid

    def unspy(self):
        for k in list(self._orig):
            try:
                delattr(self.backend, k)
            except AttributeError:
                pass
        self._orig = {}

    # -------- checking
    def lines(self):
        return ["(reset %s)" % ("fixed" if FIXED else "current")] + [op_line(op) for op in self.ops]

    def check(self, replies, history):
        """oracle (reference lineage) then correspondence (Lean raw model) for the logged calls. Returns outcome string."""
        ctx, ref = self.ctx, Ref()
        answers = list(getattr(self, "answers", []))
        # ---- oracle first, over the whole history: the real backend against the reference lineage model
        for n, (op, (rows, edges, val)) in enumerate(zip(self.ops, self.obs)):
            ref.apply(op)
            case = {"family": self.label, "history": history, "backend_calls": self.ops[:n + 1], "step": n}
            bad = {i: (v, i in ref.valid) for i, v in val.items() if v != (i in ref.valid)}
            if bad:
                ctx.violation(classify(ref, edges, bad, op), "is_valid_handle differs from the reference lineage model after " +
                              ("rollback_handle" if op["op"] == "rb" else "advance_handle"), case=case,
                              expected={i: s for i, (_, s) in bad.items()}, actual={i: v for i, (v, _) in bad.items()}, kind="history")
                return "violation"
        res = self.check_answers(answers, history)
        if res != "ok":
            return res
        # ---- correspondence with the Lean raw model
        for n, (op, (rows, edges, val)) in enumerate(zip(self.ops, self.obs)):
            case = {"family": self.label, "history": history, "backend_calls": self.ops[:n + 1], "step": n}
            m = parse_tables(replies[n + 1])
            if isinstance(m, str):
                ctx.mismatch("model driver answered " + m, case=case, model=m, impl="ok")
                return "mismatch"
            if (rows, edges) != m:
                ctx.mismatch("handle / handle_edge tables differ from the model", case=case,
                             model=[sorted(m[0].items()), sorted(m[1])], impl=[sorted(rows.items()), sorted(edges)])
                return "mismatch"
            mval = {i: m[0].get(i, (None, False))[1] for i in val}
            if mval != val:
                ctx.mismatch("is_valid_handle differs from the model", case=case, model=mval, impl=val)
                return "mismatch"
        return "ok"

    def check_answers(self, answers, history):
        ctx = self.ctx
        # answers given to the scheduler while it ran (spied): each must agree with the reference at that point
        ref2, k = Ref(), 0
        for nops, idx, a in answers:
            while k < nops:
                ref2.apply(self.ops[k])
                k += 1
            if a != (idx in ref2.valid):
                ctx.violation("C25-scheduler-told-stale-state-is-valid" if a else "C25-scheduler-told-valid-state-is-invalid",
                              "is_valid_handle answered the scheduler differently from the reference lineage model",
                              case={"family": self.label, "history": history, "backend_calls": self.ops[:nops], "state": idx},
                              expected=idx in ref2.valid, actual=a, kind="history")
                return "violation"
        return "ok"


# ------------------------------------------------------------------ (a) raw histories
def gen_raw(rng, maxlen):
    """abstract raw history; objects are built when it is executed"""
    n = rng.randrange(2, maxlen + 1)
    names = rng.choice([1, 1, 2])
    return {"names": names, "steps": [[round(rng.random(), 3) for _ in range(8)] for _ in range(n)]}


def pick(r, seq):
    return seq[min(int(r * len(seq)), len(seq) - 1)]


def exec_raw(sess, hist):
    """interpret the random numbers of a raw history against the pool of handle objects built so far"""
    H = env()["H"]
    pool = {nm: [H(nm)] for nm in NAMES[:hist["names"]]}
    log = []
    for r in hist["steps"]:
        nm = pick(r[0], sorted(pool))
        objs = pool[nm]
        k = r[1]
        if k < 0.45:                      # derive a child from one parent and record it
            p = pick(r[2], objs)
            if r[3] < 0.5:
                c = p.fork(pick(r[4], FKEYS))
            else:
                c = p.apply_call(pick(r[4], CALLS))
            objs.append(c)
            sess.advance([p], c)
            log.append("adv1")
        elif k < 0.6:                     # parent is an unrecorded fork (chain of 1-2 skipped forks)
            p = pick(r[2], objs)
            mid = p.fork(pick(r[4], FKEYS))
            if r[5] < 0.4:
                mid = mid.fork(pick(r[6], FKEYS))
            c = mid.fork(pick(r[7], FKEYS)) if r[3] < 0.5 else mid.apply_call(pick(r[7], CALLS))
            objs += [mid, c]
            sess.advance([mid], c)
            log.append("adv-skipped-fork")
        elif k < 0.7:                     # merged parents
            ps = [pick(r[2], objs), pick(r[3], objs)]
            if r[5] < 0.3:
                ps.append(pick(r[6], objs))
            sess.advance(ps[1:], ps[0])
            log.append("adv-merge")
        elif k < 0.78:                    # re-derive with an unpickled copy (what a cached value looks like)
            p = pick(r[2], objs)
            p2 = pickle.loads(pickle.dumps(p))
            c = p2.apply_call(pick(r[4], CALLS)) if r[3] < 0.5 else p2.fork(pick(r[4], FKEYS))
            objs.append(c)
            sess.advance([p2], c)
            log.append("adv-unpickled")
        else:
            sess.rollback(pick(r[2], objs))
            log.append("rb")
    return log


def raw_corpus():
    """F18 and the fork-edge witness, as explicit scripts"""
    def f18(sess):
        H = env()["H"]
        a = H("h")
        b = a.apply_call("c1")
        c = b.apply_call("c2")
        d = c.apply_call("c3")
        sess.advance([a], b)
        sess.advance([b], c)
        sess.advance([c], d)
        sess.rollback(a)
        sess.advance([c], d)
        sess.rollback(a)
        return ["adv1", "adv1", "adv1", "rb", "adv1", "rb"]

    def fork_edge(sess):
        H = env()["H"]
        a = H("h")
        f = a.fork("0")
        sess.advance([a], f)
        g = f.fork("x")
        g2 = g.fork("x")
        sess.advance([g], g2)
        r = g2.apply_call("c1")
        sess.advance([g2], r)
        sess.rollback(f)
        return ["adv1", "adv-skipped-fork", "adv1", "rb"]

    def doc_example(sess):
        H = env()["H"]
        d = H("dest_conn")
        ci = d.fork("0")
        sess.advance([d], ci)
        d2 = ci.apply_call("load")
        sess.advance([ci], d2)
        cii = d2.fork("0")
        sess.advance([d2], cii)
        d3 = cii.apply_call("load2")
        sess.advance([cii], d3)
        sess.rollback(cii)
        d3b = cii.apply_call("load2b")
        sess.advance([cii], d3b)
        sess.rollback(cii)
        sess.advance([cii], d3)
        return ["adv1"] * 4 + ["rb", "adv1", "rb", "adv1"]
    return [("F18", f18), ("fork-edge", fork_edge), ("doc-example", doc_example)]


# ------------------------------------------------------------------ (b) chain workflows
EXEC = []


def make_task(depth, version):
    from redun import task

    def body(h):
        EXEC.append((depth, version))
        return h
    body.__name__ = "c25_t%d" % depth
    body.__qualname__ = body.__name__
    return task(name="c25_t%d" % depth, namespace="verif", version=str(version))(body)


def gen_chain_history(rng):
    depth = rng.choice([1, 2, 2, 3, 3, 4])
    runs = rng.randrange(2, 7)
    cur = [0] * depth
    hist = []
    pool = [[0] * depth]
    for _ in range(runs):
        r = rng.random()
        if r < 0.45:                           # edit one task
            i = rng.randrange(depth)
            cur = list(cur)
            cur[i] = rng.choice([v for v in (0, 1, 2) if v != cur[i]])
        elif r < 0.75:                         # revert to an earlier workflow
            cur = list(rng.choice(pool))
        elif r < 0.85:                         # run a prefix / longer chain
            pass
        n = depth if rng.random() < 0.8 else rng.randrange(1, depth + 1)
        pool.append(list(cur))
        hist.append(cur[:n])
    return hist


CHAIN_CORPUS = [
    [[0, 0], [0, 1], [0, 0]],                          # docs: load2 edited then reverted -> must re-execute
    [[0, 0, 0], [1, 0, 0], [0, 0, 0], [0, 0, 0]],
    [[0, 0], [0], [0, 1], [0], [0, 0]],
    [[0, 0, 0], [0, 1, 0], [0, 1], [0, 0, 0], [0, 1, 0]],
]


def run_chain_history(ctx, hist, name="w"):
    """returns (session, per-run records)"""
    from redun.expression import quote
    from redun.scheduler import root_task
    e = env()
    sess = Session(ctx, "chain")
    sess.spy()
    runs, ext = [], []
    try:
        for chain in hist:
            EXEC.clear()
            expr = e["H"](name)
            for d, v in enumerate(chain):
                expr = make_task(d, v)(expr)
            try:
                # always under one root job (what Scheduler.run does itself for a nested expression): fork key "1"
                final = e["scheduler"].run(root_task(quote(expr)))
                err = None
            except Exception as ex:  # noqa: BLE001
                final, err = None, "!" + type(ex).__name__
                e["backend"].session.rollback()
            ran = list(EXEC)
            for d, v in ran:
                ext = ext[:d] + [v]
            rows, edges = tables(sess.ids)
            fv = None
            if final is not None:
                sess.note(final)
                fv = bool(sess._orig["is_valid_handle"](final))
            runs.append({"chain": chain, "ran": ran, "err": err, "ext": list(ext), "final_valid": fv,
                         "rows": len(rows), "valid": sum(1 for _, v in rows.values() if v), "edges": len(edges)})
    finally:
        sess.unspy()
    return sess, runs


def tname(d, v):
    return "t%dv%d" % (d, v)


def chain_lines(hist, name="w"):
    return ["(wf %s %s)" % (hx(name), " ".join(hx(tname(d, v)) for d, v in enumerate(chain))) for chain in hist]


def chain_oracle(ctx, hist, runs):
    """the property's own oracle on the real executions: the external system holds the requested chain"""
    for n, (chain, r) in enumerate(zip(hist, runs)):
        case = {"family": "chain", "history": hist[:n + 1], "run": n}
        if r["err"]:
            ctx.violation("C25-chain-workflow-raises", "scheduler.run raised " + r["err"], case=case, expected="no error", actual=r["err"],
                          kind="history")
            return "violation"
        if r["ext"][:len(chain)] != chain:
            ctx.violation("C25-stale-handle-state-replayed", "after the execution the external system does not hold the requested chain: "
                          "a task whose handle state had been superseded was not re-executed", case=case, expected=chain,
                          actual={"external": r["ext"], "ran": r["ran"]}, kind="history")
            return "violation"
        if r["final_valid"] is not True:
            ctx.violation("C25-result-handle-invalid", "the handle returned by the execution is not valid", case=case, expected=True,
                          actual=r["final_valid"], kind="history")
            return "violation"
    return "ok"


def check_chain(ctx, hist, runs, replies):
    """correspondence with the Lean chain model"""
    for n, (chain, r, rep) in enumerate(zip(hist, runs, replies)):
        case = {"family": "chain", "history": hist[:n + 1], "run": n}
        if rep.startswith("!") or rep.startswith("bad-"):
            ctx.mismatch("model driver answered " + rep, case=case, model=rep, impl="ok")
            return "mismatch"
        x = unsx(rep)
        m = {k[0]: k[1:] for k in x}
        impl = {"ran": [tname(d, v) for d, v in r["ran"]], "final": [True], "ext": [tname(d, v) for d, v in enumerate(r["ext"])],
                "rows": [r["rows"], r["valid"]], "edges": [r["edges"]]}
        model = {k: list(m[k]) for k in impl}
        if model != impl:
            ctx.mismatch("chain workflow: tasks run / external state / table sizes differ from the model", case=case, model=model, impl=impl)
            return "mismatch"
    return "ok"


# ------------------------------------------------------------------ (c) explicit forks, parallel branches
def make_prog(kind, vers):
    """returns an expression; vers: dict of task versions"""
    from redun import merge_handles, task
    H = env()["H"]

    def T(name, fn):
        fn.__name__ = fn.__qualname__ = name
        return task(name=name, namespace="verif", version=str(vers.get(name, 0)))(fn)
    step = T("c25_step", lambda h: (EXEC.append("step"), h)[1])
    step2 = T("c25_step2", lambda h: (EXEC.append("step2"), h)[1])
    if kind == "fork":
        body = {0: lambda h: (EXEC.append("outer"), step(h.fork("x")))[1],
                1: lambda h: (EXEC.append("outer"), step2(h))[1],
                2: lambda h: (EXEC.append("outer"), step(h.fork("x").fork("y")))[1]}[vers.get("body", 0)]
        outer = task(name="c25_outer", namespace="verif", version="b%d" % vers.get("body", 0))(_named(body, "c25_outer"))
        return outer(H("wf"))
    if kind in ("par", "par2"):
        la = T("c25_load_a", lambda h: (EXEC.append("a"), h)[1])
        lb = T("c25_load_b", lambda h: (EXEC.append("b"), h)[1])
        lc = T("c25_load_c", lambda h: (EXEC.append("c"), h)[1])
        ld = T("c25_load_d", lambda h: (EXEC.append("d"), h)[1])

        if kind == "par":       # docs/source/values.md: two parallel writers, merge, one more writer
            def main():
                conn = H("wp")
                return lc(merge_handles([la(conn), lb(conn)]))
        else:                   # three parallel writers on one handle state, no merge
            def main():
                conn = H("wq")
                return [la(conn), lb(conn), ld(conn)]
        m = task(name="c25_main_" + kind, namespace="verif", version="m%s" % json.dumps(vers, sort_keys=True))(_named(main, "c25_main_" + kind))
        return m()
    if kind in JOIN_KINDS:
        # an ordinary task that receives SEVERAL states of one handle name (fan-in without merge_handles), then a consumer
        la = T("c25_load_a", lambda h: (EXEC.append("a"), h)[1])
        lb = T("c25_load_b", lambda h: (EXEC.append("b"), h)[1])
        ld = T("c25_load_d", lambda h: (EXEC.append("d"), h)[1])
        after = T("c25_after", lambda h: (EXEC.append("f"), h)[1])
        pick = JOIN_KINDS[kind]
        if kind.startswith("joinl"):
            join = T("c25_join", lambda hs: (EXEC.append("j"), (hs["x"] + [hs["y"]["z"]])[pick])[1])

            def main():
                conn = H("w" + kind)
                return after(join({"x": [la(conn), lb(conn)], "y": {"z": ld(conn)}}))
        else:
            join = T("c25_join", lambda x, y: (EXEC.append("j"), (x, y)[pick])[1])

            def main():
                conn = H("w" + kind)
                return after(join(la(conn), lb(conn)))
        m = task(name="c25_main_" + kind, namespace="verif", version="m%s" % json.dumps(vers, sort_keys=True))(_named(main, "c25_main_" + kind))
        return m()
    raise ValueError(kind)


def _named(fn, name):
    fn.__name__ = fn.__qualname__ = name
    return fn


# which argument `join` returns
JOIN_KINDS = {"join0": 0, "join1": 1, "joinl1": 1, "joinl2": 2}
# per program: (task name, short name in EXEC, tasks whose re-execution forces this one to re-execute), in evaluation order
DEPS = {
    "par": [("c25_load_a", "a", []), ("c25_load_b", "b", []), ("c25_load_c", "c", ["a", "b"])],
    "par2": [("c25_load_a", "a", []), ("c25_load_b", "b", []), ("c25_load_d", "d", [])],
    "join0": [("c25_load_a", "a", []), ("c25_load_b", "b", []), ("c25_join", "j", ["a", "b"]), ("c25_after", "f", ["j"])],
    "joinl1": [("c25_load_a", "a", []), ("c25_load_b", "b", []), ("c25_load_d", "d", []), ("c25_join", "j", ["a", "b", "d"]),
               ("c25_after", "f", ["j"])],
}
CONTAINER_ARGS = {"joinl1", "joinl2"}
DEPS["join1"] = DEPS["join0"]
DEPS["joinl2"] = DEPS["joinl1"]


def gen_prog_history(rng):
    kind = rng.choice(["fork", "fork", "par", "par", "par2", "par2", "join0", "join1", "join1", "joinl1", "joinl2", "joinl2"])
    runs = rng.randrange(2, 6)
    hist, pool = [], []
    cur = {}
    for _ in range(runs):
        r = rng.random()
        if r < 0.5 or not pool:
            cur = dict(cur)
            if kind == "fork":
                k = rng.choice(["body", "body", "c25_step", "c25_step2"])
                cur[k] = rng.choice([v for v in (0, 1, 2) if v != cur.get(k, 0)]) if k == "body" else 1 - cur.get(k, 0)
            else:
                names = [t for t, _, _ in DEPS[kind]]
                k = rng.choice(names + (["c25_join", "c25_join"] if "c25_join" in names else []))
                cur[k] = 1 - cur.get(k, 0)
        elif r < 0.8:
            cur = dict(rng.choice(pool))
        # else: unchanged re-run
        pool.append(dict(cur))
        hist.append(dict(cur))
    return {"kind": kind, "runs": hist}


PROG_CORPUS = [
    {"kind": "fork", "runs": [{}, {"body": 1}, {}]},                      # explicit fork, edit, revert
    {"kind": "fork", "runs": [{"body": 2}, {"body": 1}, {"body": 2}]},    # two chained explicit forks
    {"kind": "par", "runs": [{}, {"c25_load_b": 1}, {}, {"c25_load_a": 1}]},
    # parallel writers on one state: edit one branch, then re-run unchanged (the docs' load_a / load_b example)
    {"kind": "par", "runs": [{}, {"c25_load_b": 1}, {"c25_load_b": 1}, {"c25_load_a": 1, "c25_load_b": 1}, {"c25_load_a": 1, "c25_load_b": 1}]},
    {"kind": "par2", "runs": [{}, {"c25_load_b": 1}, {"c25_load_b": 1}]},
    {"kind": "par2", "runs": [{}, {"c25_load_a": 1}, {"c25_load_a": 1}, {"c25_load_d": 1, "c25_load_a": 1}, {}]},
    # a task taking several states of one handle name: edit it, revert it, re-run unchanged
    {"kind": "join1", "runs": [{}, {"c25_join": 1}, {}, {}]},
    {"kind": "join0", "runs": [{}, {"c25_join": 1}, {}, {"c25_load_b": 1}, {"c25_load_b": 1}]},
    {"kind": "joinl2", "runs": [{}, {"c25_join": 1}, {}, {"c25_join": 1}, {}]},
    {"kind": "joinl1", "runs": [{}, {"c25_join": 1}, {}, {"c25_join": 1}, {"c25_join": 1, "c25_load_a": 1}, {}]},
]


def handles_in(value):
    Handle = env()["H"].__mro__[1]
    if isinstance(value, Handle):
        return [value]
    if isinstance(value, (list, tuple)):
        return [h for v in value for h in handles_in(v)]
    return []


def prog_oracle(ctx, ph, runs):
    """Parallel writers on one handle state (docs/source/values.md, "forked ... to limit the scope of rollbacks"): a
    writer re-executes exactly when its own task changed w.r.t. what its branch of the external system holds (and the
    writer after the merge also when a merged branch re-executed); every handle an execution returns is valid; an
    unchanged re-run executes nothing."""
    kind = ph["kind"]
    if kind not in DEPS:
        return "ok"
    held, prev = {}, None
    for n, (vers, r) in enumerate(zip(ph["runs"], runs)):
        case = {"family": "program-" + kind, "history": {"kind": kind, "runs": ph["runs"][:n + 1]}, "run": n}
        if r["err"]:
            return "ok"     # reported by the caller
        must = set()
        for t, short, deps in DEPS[kind]:
            if held.get(t) != vers.get(t, 0) or any(d in must for d in deps):
                must.add(short)
        ran = sorted(r["ran"])
        if not must <= set(ran):
            ctx.violation("C25-stale-branch-state-replayed", "a task that changed, or that consumes a handle state which was re-written, "
                          "was not re-executed: its superseded cached state was replayed", case=case, expected=sorted(must), actual=ran, kind="history")
            return "violation"
        if r["valid"] is not None and not all(r["valid"]):
            ctx.violation("C25-returned-handle-state-invalid", "an execution returned a handle state that the backend holds invalid "
                          "(a sibling fork was rolled back together with the edited branch)", case=case,
                          expected=[True] * len(r["valid"]), actual=r["valid"], kind="history")
            return "violation"
        if kind in CONTAINER_ARGS:
            # a dict / list of handles as ONE argument is hashed through pickle, whose bytes depend on which strings the
            # handle objects share (fresh vs unpickled objects): the cache key of `join` is not stable across executions
            # (value hashing, property C16) — needless re-execution is therefore not judged here, only stale replays
            for t, _, _ in DEPS[kind]:
                held[t] = vers.get(t, 0)
            prev = vers
            continue
        if prev == vers and ran:
            ctx.violation("C25-unchanged-rerun-executes", "re-running the unchanged workflow executed tasks", case=case, expected=[],
                          actual=ran, kind="history")
            return "violation"
        if sorted(must) != ran:
            ctx.violation("C25-sibling-fork-re-executed", "a parallel writer on a sibling fork of the same handle state re-executed although "
                          "neither its task nor its input state changed (rollback not confined to the fork)", case=case,
                          expected=sorted(must), actual=ran, kind="history")
            return "violation"
        for t, _, _ in DEPS[kind]:
            held[t] = vers.get(t, 0)
        prev = vers
    return "ok"


def run_prog_history(ctx, ph):
    e = env()
    sess = Session(ctx, "program-" + ph["kind"])
    sess.spy()
    runs = []
    try:
        for vers in ph["runs"]:
            EXEC.clear()
            try:
                final = e["scheduler"].run(make_prog(ph["kind"], vers))
                err = None
            except Exception as ex:  # noqa: BLE001
                final, err = None, "!" + type(ex).__name__
                e["backend"].session.rollback()
            valid = None
            if final is not None:
                valid = []
                for h in handles_in(final):
                    sess.note(h)
                    fv = bool(sess._orig["is_valid_handle"](h))
                    valid.append(fv)
                    sess.answers.append((len(sess.ops), sess.ids.of(h), fv))
            runs.append({"vers": vers, "ran": list(EXEC), "err": err, "valid": valid})
    finally:
        sess.unspy()
    return sess, runs


# ------------------------------------------------------------------ (d) process death between task start and the next commit
class Kill(BaseException):
    """the process dies (not an Exception: nothing in redun may handle it)"""


_template = {}


def _inline_executor_class():
    from redun.executors.base import Executor

    class InlineExecutor(Executor):
        """runs the task body inside submit, on the scheduler thread: the order of backend calls, commits and task
        entries is a function of the workflow only"""

        def submit(self, job):
            args, kwargs = job.args
            try:
                result = job.task.func(*args, **kwargs)
            except Exception as error:  # noqa: BLE001
                self._scheduler.reject_job(job, error)
            else:
                self._scheduler.done_job(job, result)
    return InlineExecutor


def file_scheduler(path):
    from redun import Scheduler
    from redun.config import Config
    s = Scheduler(config=Config({"backend": {"db_uri": "sqlite:///" + path, "db_retries_backoff": "0", "db_retries_backoff_max": "0"}}))
    s.load()
    s.logger.setLevel(logging.CRITICAL)
    s.add_executor(_inline_executor_class()("default"))
    return s


def close_scheduler(s):
    try:
        if s.backend.session is not None:
            s.backend.session.close()
        if s.backend.engine is not None:
            s.backend.engine.dispose()
    except Exception:  # noqa: BLE001
        pass


def fresh_db(workdir):
    """a migrated, empty repository file (made once per process, then copied)"""
    import shutil
    if "path" not in _template:
        import tempfile
        import atexit
        d = tempfile.mkdtemp(prefix="c25-template-")
        atexit.register(shutil.rmtree, d, ignore_errors=True)
        _template["dir"] = d
        _template["path"] = os.path.join(d, "redun.db")
        close_scheduler(file_scheduler(_template["path"]))
    dst = os.path.join(workdir, "redun.db")
    shutil.copy(_template["path"], dst)
    return dst


def durable_tables(path):
    """what a fresh connection sees"""
    import sqlite3
    con = sqlite3.connect(path)
    try:
        rows = {h: bool(v) for h, v in con.execute("select hash, is_valid from handle")}
        edges = {(a, b) for a, b in con.execute("select parent_id, child_id from handle_edge")}
    finally:
        con.close()
    return rows, edges


HOOK = {"fn": None}


def make_task_hooked(depth, version):
    from redun import task

    def body(h):
        EXEC.append((depth, version))
        if HOOK["fn"] is not None:
            HOOK["fn"](depth, version)
        return h
    body.__name__ = body.__qualname__ = "c25_k%d" % depth
    return task(name="c25_k%d" % depth, namespace="verif", version=str(version))(body)


def gen_kill_history(rng):
    hist = gen_chain_history(rng)
    out = []
    killed = 0
    for n, chain in enumerate(hist):
        if n > 0 and killed < 2 and rng.random() < 0.45:
            out.append({"chain": chain, "kill": rng.randrange(len(chain))})
            killed += 1
        else:
            out.append({"chain": chain, "kill": None})
    if not killed and len(out) >= 2:
        i = rng.randrange(1, len(out))
        out[i]["kill"] = rng.randrange(len(out[i]["chain"]))
        # the classic: an edit is killed, then reverted
        out.append({"chain": list(out[i - 1]["chain"]), "kill": None})
    return out


KILL_CORPUS = [
    [{"chain": [0, 0], "kill": None}, {"chain": [1, 0], "kill": 0}, {"chain": [0, 0], "kill": None}],
    [{"chain": [0, 0, 0], "kill": None}, {"chain": [0, 1, 0], "kill": 1}, {"chain": [0, 0, 0], "kill": None},
     {"chain": [0, 1, 0], "kill": None}],
    [{"chain": [0], "kill": None}, {"chain": [1], "kill": 0}, {"chain": [1], "kill": 0}, {"chain": [0], "kill": None}],
]


def run_kill_history(ctx, hist, name="wk"):
    """Chain executions on a sqlite FILE repository, tasks inline on the scheduler thread.  At every task entry the
    durable database (a fresh connection) is read; in a `kill` execution the process dies right after task number
    `kill` started writing: the database file as it is at that instant is what the next execution opens.
    Returns per-execution records; violations of the durability statement are recorded in them."""
    import shutil
    import tempfile
    from redun.expression import quote
    from redun.scheduler import root_task
    H = env()["H"]
    workdir = tempfile.mkdtemp(prefix="c25-kill-")
    recs, ext = [], []
    try:
        path = fresh_db(workdir)
        gen = 0
        for n, ex in enumerate(hist):
            chain, kill = ex["chain"], ex["kill"]
            sched = file_scheduler(path)
            backend = sched.backend
            dbm = env()["dbm"]
            expect = set()       # states rolled back for the task that is about to start
            rec = {"chain": chain, "kill": kill, "ran": [], "err": None, "not_durable": None, "killed": False}
            orig_rb = backend.rollback_handle

            def rollback(h, backend=backend, orig_rb=orig_rb, expect=expect, dbm=dbm):
                # descendants of h over every recorded edge, as the session sees them
                edges = [(e.parent_id, e.child_id) for e in backend.session.query(dbm.HandleEdge).all()]
                succ = {}
                for a, b in edges:
                    succ.setdefault(a, []).append(b)
                stack, seen = list(succ.get(h.__handle__.hash, ())), set()
                while stack:
                    x = stack.pop()
                    if x not in seen:
                        seen.add(x)
                        stack.extend(succ.get(x, ()))
                expect.update(seen)
                return orig_rb(h)
            backend.rollback_handle = rollback
            dead = os.path.join(workdir, "dead%d.db" % n)

            def hook(depth, version, rec=rec, expect=expect, path=path, dead=dead, kill=kill):
                rows, _ = durable_tables(path)
                still = sorted(h for h in expect if rows.get(h))
                if still and rec["not_durable"] is None:
                    rec["not_durable"] = {"task": [depth, version], "states_rolled_back": len(expect), "still_valid_on_disk": len(still)}
                expect.clear()
                if kill is not None and depth == kill:
                    shutil.copy(path, dead)          # exactly what the dying process leaves on disk
                    rec["killed"] = True
                    raise Kill()
            HOOK["fn"] = hook
            EXEC.clear()
            expr = H(name)
            for d, v in enumerate(chain):
                expr = make_task_hooked(d, v)(expr)
            final = None
            try:
                final = sched.run(root_task(quote(expr)))
            except Kill:
                pass
            except Exception as e:  # noqa: BLE001
                rec["err"] = "!" + type(e).__name__
            finally:
                HOOK["fn"] = None
                close_scheduler(sched)
            rec["ran"] = list(EXEC)
            for d, v in rec["ran"]:
                ext = ext[:d] + [v]
            if rec["killed"]:
                gen += 1
                path = os.path.join(workdir, "redun%d.db" % gen)
                shutil.move(dead, path)
            rows, edges = durable_tables(path)
            rec.update(ext=list(ext), rows=len(rows), valid=sum(1 for v in rows.values() if v), edges=len(edges),
                       final_valid=(None if final is None else bool(rows.get(final.__handle__.hash))))
            recs.append(rec)
    finally:
        shutil.rmtree(workdir, ignore_errors=True)
    return recs


def kname(d, v):
    return "k%dv%d" % (d, v)


def kill_lines(hist, name="wk"):
    out = ["(reset %s)" % ("fixed" if FIXED else "current")]
    for ex in hist:
        ts = " ".join(hx(kname(d, v)) for d, v in enumerate(ex["chain"]))
        if ex["kill"] is None:
            out.append("(wf %s %s)" % (hx(name), ts))
        else:
            out.append("(wfk %s i%d %s)" % (hx(name), ex["kill"], ts))
    return out


def check_kill(ctx, hist, recs, replies):
    # ---- oracle 1: the durability statement, at every task entry
    found = False
    for n, (ex, r) in enumerate(zip(hist, recs)):
        case = {"family": "kill", "history": hist[:n + 1], "run": n}
        if r["err"]:
            ctx.violation("C25-chain-workflow-raises", "scheduler.run raised " + r["err"], case=case, expected="no error", actual=r["err"],
                          kind="crash_point")
            return "violation"
        if r["not_durable"]:
            ctx.violation("C25-rollback-not-durable-when-task-starts", "a handle-writing task function was entered while states the "
                          "scheduler had rolled back for it were still valid for a fresh connection to the database (the rollback was "
                          "pending in an open transaction: a process death here loses it)", case=case,
                          expected="every rolled-back state invalid on disk", actual=r["not_durable"], kind="crash_point")
            found = True
            break
    # ---- oracle 2: end to end, across the process deaths: no superseded state replayed, result valid
    for n, (ex, r) in enumerate(zip(hist, recs)):
        case = {"family": "kill", "history": hist[:n + 1], "run": n}
        if not r["killed"]:
            if r["ext"][:len(ex["chain"])] != ex["chain"]:
                ctx.violation("C25-stale-handle-state-replayed-after-process-death" if any(x["killed"] for x in recs[:n]) else
                              "C25-stale-handle-state-replayed", "after the execution the external system does not hold the requested "
                              "chain: a task whose handle state had been superseded was not re-executed", case=case, expected=ex["chain"],
                              actual={"external": r["ext"], "ran": r["ran"]}, kind="crash_point")
                return "violation"
            if r["final_valid"] is not True:
                ctx.violation("C25-result-handle-invalid", "the handle returned by the execution is not valid", case=case, expected=True,
                              actual=r["final_valid"], kind="crash_point")
                return "violation"
    if found:
        return "violation"
    # ---- correspondence with the chain model (durable state after each execution)
    for n, (ex, r, rep) in enumerate(zip(hist, recs, replies[1:])):
        case = {"family": "kill", "history": hist[:n + 1], "run": n}
        if rep.startswith("!") or rep.startswith("bad-"):
            ctx.mismatch("model driver answered " + rep, case=case, model=rep, impl="ok")
            return "mismatch"
        m = {k[0]: list(k[1:]) for k in unsx(rep)}
        impl = {"ext": [kname(d, v) for d, v in enumerate(r["ext"])], "rows": [r["rows"], r["valid"]], "edges": [r["edges"]]}
        if ex["kill"] is None:
            impl["ran"] = [kname(d, v) for d, v in r["ran"]]
        model = {k: m.get(k) for k in impl}
        if model != impl:
            ctx.mismatch("execution with process death: external state / durable table sizes differ from the model", case=case,
                         model=model, impl=impl)
            return "mismatch"
    return "ok"


# ------------------------------------------------------------------ driver of the whole check
def run(ctx):
    rng = ctx.rng
    env()
    jobs = []          # (kind, label/history, session, extra)
    # (a) raw
    for label, script in raw_corpus():
        sess = Session(ctx, "raw")
        kinds = script(sess)
        jobs.append(("raw", label, sess, kinds))
    for _ in range(ctx.n(300, 5000)):
        hist = gen_raw(rng, 10 if ctx.tier == "quick" else rng.choice([6, 10, 14]))
        sess = Session(ctx, "raw")
        kinds = exec_raw(sess, hist)
        jobs.append(("raw", hist, sess, kinds))
    # (b) chains
    chains = [list(map(list, h)) for h in CHAIN_CORPUS] + [gen_chain_history(rng) for _ in range(ctx.n(50, 600))]
    for hist in chains:
        sess, runs = run_chain_history(ctx, hist)
        jobs.append(("chain", hist, sess, runs))
    # (c) programs
    progs = list(PROG_CORPUS) + [gen_prog_history(rng) for _ in range(ctx.n(25, 300))]
    for ph in progs:
        sess, runs = run_prog_history(ctx, ph)
        jobs.append(("prog", ph, sess, runs))
    # (d) process death
    kills = [[dict(x) for x in h] for h in KILL_CORPUS] + [gen_kill_history(rng) for _ in range(ctx.n(8, 120))]
    kill_recs = [run_kill_history(ctx, h) for h in kills]
    # one model run for everything
    lines, offs = [], []
    for kind, hist, sess, extra in jobs:
        offs.append(len(lines))
        lines += sess.lines()
        if kind == "chain":
            lines += chain_lines(hist)
    koffs = []
    for h in kills:
        koffs.append(len(lines))
        lines += kill_lines(h)
    replies = ctx.model("C25", lines)
    for h, recs, o in zip(kills, kill_recs, koffs):
        res = check_kill(ctx, h, recs, replies[o:o + 1 + len(h)])
        ctx.case(key="kill:" + json.dumps(h), sample={"family": "kill", "history": h, "ran": [r["ran"] for r in recs]},
                 family="kill", outcome=res, executions=len(h), kills=sum(1 for r in recs if r["killed"]))
    for (kind, hist, sess, extra), o in zip(jobs, offs):
        nl = len(sess.lines())
        hjson = hist if not isinstance(hist, str) else {"corpus": hist}
        res = sess.check(replies[o:o + nl], hjson)
        if kind == "raw":
            ctx.case(key=json.dumps(sess.ops) if len(sess.ops) >= 2 else None,
                     sample={"family": "raw", "calls": [op_line(op) for op in sess.ops][:6]},
                     family="raw", outcome=res, calls=len(sess.ops))
            for k in extra:
                ctx.count("raw_op", k)
        elif kind == "chain":
            if res != "violation":
                r2 = chain_oracle(ctx, hist, extra)
                if r2 == "ok" and res == "ok":
                    r2 = check_chain(ctx, hist, extra, replies[o + nl:o + nl + len(hist)])
                res = r2 if r2 != "ok" else res
            ctx.case(key=json.dumps(hist) if len(hist) >= 2 else None, sample={"family": "chain", "runs": hist,
                                                                                 "ran": [r["ran"] for r in extra]},
                     family="chain", outcome=res, executions=len(hist), depth=max(len(c) for c in hist))
            ctx.count("chain_tasks_run", sum(len(r["ran"]) for r in extra))
        else:
            if res == "ok":
                for n, r in enumerate(extra):
                    if r["err"]:
                        ctx.violation("C25-workflow-raises", "scheduler.run raised " + r["err"],
                                      case={"family": "program", "history": hist, "run": n}, expected="no error", actual=r["err"],
                                      kind="history")
                        res = "violation"
                        break
            if res != "violation":
                r2 = prog_oracle(ctx, hist, extra)
                res = r2 if r2 != "ok" else res
            ctx.case(key=json.dumps(hist, sort_keys=True), sample={"family": "program", "history": hist, "ran": [r["ran"] for r in extra]},
                     family="program-" + hist["kind"], outcome=res, executions=len(hist["runs"]))


def search(ctx):
    """after a break: longer raw histories and more chain / program histories, oracle and correspondence as in run()"""
    rng = ctx.rng
    env()
    jobs = []
    for _ in range(ctx.n(150, 600)):
        hist = gen_raw(rng, 16)
        sess = Session(ctx, "raw")
        exec_raw(sess, hist)
        jobs.append(("raw", hist, sess, None))
    for _ in range(ctx.n(20, 80)):
        hist = gen_chain_history(rng)
        sess, runs = run_chain_history(ctx, hist)
        jobs.append(("chain", hist, sess, runs))
    for _ in range(ctx.n(10, 40)):
        ph = gen_prog_history(rng)
        sess, runs = run_prog_history(ctx, ph)
        jobs.append(("prog", ph, sess, runs))
    lines, offs = [], []
    for kind, hist, sess, extra in jobs:
        offs.append(len(lines))
        lines += sess.lines()
    replies = ctx.model("C25", lines)
    for (kind, hist, sess, extra), o in zip(jobs, offs):
        res = sess.check(replies[o:o + len(sess.lines())], hist)
        if kind == "chain" and res != "violation":
            r2 = chain_oracle(ctx, hist, extra)
            res = r2 if r2 != "ok" else res
        if kind == "prog" and res != "violation":
            r2 = prog_oracle(ctx, hist, extra)
            res = r2 if r2 != "ok" else res
        ctx.case(key="search:" + json.dumps(hist, sort_keys=True), family="search-" + kind, outcome=res)
        if ctx.violations:
            break


def replay(ctx, case):
    c = case.get("case") or {}
    fam = c.get("family") if isinstance(c, dict) else None
    env()
    if fam == "chain":
        hist = c["history"]
        sess, runs = run_chain_history(ctx, hist)
        lines = sess.lines() + chain_lines(hist)
        rep = ctx.model("C25", lines)
        res = sess.check(rep[:len(sess.lines())], hist)
        if res != "violation":
            r2 = chain_oracle(ctx, hist, runs)
            if r2 == "ok" and res == "ok":
                r2 = check_chain(ctx, hist, runs, rep[len(sess.lines()):])
            res = r2 if r2 != "ok" else res
        for r in runs:
            print("  run", r)
        print("replay outcome:", res)
    elif fam == "kill":
        hist = c["history"]
        recs = run_kill_history(ctx, hist)
        res = check_kill(ctx, hist, recs, ctx.model("C25", kill_lines(hist)))
        for r in recs:
            print("  execution", r)
        print("replay outcome:", res)
    elif fam and fam.startswith("program"):
        ph = c["history"]
        sess, runs = run_prog_history(ctx, ph)
        rep = ctx.model("C25", sess.lines())
        res = sess.check(rep, ph)
        if res != "violation":
            r2 = prog_oracle(ctx, ph, runs)
            res = r2 if r2 != "ok" else res
        for r in runs:
            print("  run", r)
        print("replay outcome:", res)
    elif fam == "raw" and isinstance(c.get("history"), dict) and "steps" in c["history"]:
        sess = Session(ctx, "raw")
        exec_raw(sess, c["history"])
        rep = ctx.model("C25", sess.lines())
        for op in sess.ops:
            print("  ", op_line(op))
        print("replay outcome:", sess.check(rep, c["history"]))
    elif fam == "raw":
        label = (c.get("history") or {}).get("corpus")
        for lab, script in raw_corpus():
            if lab == label:
                sess = Session(ctx, "raw")
                script(sess)
                rep = ctx.model("C25", sess.lines())
                for op in sess.ops:
                    print("  ", op_line(op))
                print("replay outcome:", sess.check(rep, {"corpus": lab}))
    else:
        print("replay file has no recognisable case; running the normal check")
        run(ctx)
    ctx.case(key="replay", family="replay")
